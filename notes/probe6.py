import sys, time as _t
NOW = 1_800_000_000
_t.time = lambda: NOW + 0.5
sys.path.insert(0,'/repo')
import tapescript as ts
from tapescript import functions as F, parsing as P
from tapescript.tools import *
from nacl.signing import SigningKey
def T(name, f):
    try:
        print(name, '=>', f())
    except BaseException as e:
        print(name, 'RAISED', type(e).__name__, str(e)[:100])
# C16
def cts(t, c, thr=60):
    F.flags['ts_threshold']=thr
    try:
        return ts.run_script(ts.compile_script(f'push x{c.to_bytes(8,"big").hex()} check_timestamp'), {'timestamp': t})[1].list()[0]
    finally:
        F.flags['ts_threshold']=60
for t,c in [(NOW,NOW),(NOW-1,NOW),(NOW+59,NOW),(NOW+60,NOW),(NOW+61,NOW)]:
    print('cts', t-NOW, c-NOW, cts(t,c).hex(), end='; ')
print()
for t in [NOW-1, NOW, NOW+59, NOW+60, NOW+100]:
    a = ts.run_auth_scripts([make_timestamp_after_lock(NOW)], {'timestamp': t})
    b = ts.run_auth_scripts([make_timestamp_before_lock(NOW+30)], {'timestamp': t})
    c = ts.run_auth_scripts([make_timestamp_between_lock(NOW, NOW+30)], {'timestamp': t})
    print(t-NOW, 'after', a, 'before(NOW+30)', b, 'between', c)
# before lock with t far in future: check_timestamp false due to slack -> not -> true
print('before-lock, t=NOW+1000, ts=NOW+30:', ts.run_auth_scripts([make_timestamp_before_lock(NOW+30)], {'timestamp': NOW+1000}))
# 'not' on 0xff -> 0x00 ok; on 0x00 -> 0xff
# push d{ts}: signed int encoding -> if ts has top bit set: push d128 -> 0x0080 -> from_bytes unsigned OK same. 
# epoch
def cep(c, thr=60):
    F.flags['epoch_threshold']=thr
    try:
        return ts.run_script(ts.compile_script(f'push x{c.to_bytes(8,"big").hex()} check_epoch'))[1].list()[0].hex()
    finally:
        F.flags['epoch_threshold']=60
print('epoch', [(d, cep(NOW+d)) for d in (0,59,60,61)])
# C14 delegate
root=SigningKey(b'\x01'*32); d1=SigningKey(b'\x02'*32); d2=SigningKey(b'\x03'*32)
sf={'sigfield1':b'hello'}
lock = make_delegate_key_lock(bytes(root.verify_key))
for (b,e) in [(NOW-10,NOW+10),(NOW,NOW+10),(NOW+1,NOW+10),(NOW-10,NOW),(NOW-10,NOW+1)]:
    cert = make_delegate_key_cert(bytes(root), bytes(d1.verify_key), b, e)
    w = make_delegate_key_witness(bytes(d1), cert, sf)
    print('deleg', b-NOW, e-NOW, ts.run_auth_scripts([w, lock], {**sf, 'timestamp': NOW}), end='; ')
print()
# cert roundtrip
c = Certificate(bytes(d1.verify_key), 2**31-1, 128, False, b'\x00'*64)
T('cert rt', lambda: Certificate.unpack(c.pack()) == c)
c = Certificate(bytes(d1.verify_key), 0, 2**24, True, b'\x00'*64)
T('cert rt2', lambda: Certificate.unpack(c.pack()) == c)
# chain
clock = make_delegate_key_chain_lock(bytes(root.verify_key))
c1 = make_delegate_key_cert(bytes(root), bytes(d1.verify_key), NOW-10, NOW+10, True)
c2 = make_delegate_key_cert(bytes(d1), bytes(d2.verify_key), NOW-10, NOW+10, False)
w = make_delegate_key_chain_witness(bytes(d2), [c2, c1], sf)
T('chain ok', lambda: ts.run_auth_scripts([w, clock], {**sf,'timestamp':NOW}))
c1n = make_delegate_key_cert(bytes(root), bytes(d1.verify_key), NOW-10, NOW+10, False)
w = make_delegate_key_chain_witness(bytes(d2), [c2, c1n], sf)
T('chain non-delegable first', lambda: ts.run_auth_scripts([w, clock], {**sf,'timestamp':NOW}))
w = make_delegate_key_chain_witness(bytes(d1), [c1n], sf)
T('chain len1 final', lambda: ts.run_auth_scripts([w, clock], {**sf,'timestamp':NOW}))
w = make_delegate_key_chain_witness(bytes(d1), [c1], sf)
T('chain len1 delegable cert final signer', lambda: ts.run_auth_scripts([w, clock], {**sf,'timestamp':NOW}))
