import sys; sys.path.insert(0,'/repo')
import tapescript as ts
from tapescript import functions as F
from tapescript.tools import *
from nacl.signing import SigningKey
# C01
lock = ts.compile_script('if { true } verify false')
print('normal:', ts.run_auth_scripts([ts.compile_script('true'), lock]))
print('attack:', ts.run_auth_scripts([ts.compile_script('true return'), lock]))
sk = SigningKey(b'\x01'*32); pk=bytes(sk.verify_key)
sk2 = SigningKey(b'\x02'*32); pk2=bytes(sk2.verify_key)
# HTLC lock: sha256 push digest equal if {push recv} else {...} check_sig
l = make_htlc_sha256_lock(pk, pk2, preimage=b'secret'*3)
print(l.src)
# attack: witness leaves [0xff] after IF... stack before lock: X ; sha256; push digest; equal -> bool; IF_ELSE -> pushes pk or (timestamp check verify, push pk2) then returned -> stack [.., pk]. need single 0xff: impossible as pk pushed? pk != 0xff.
# graftroot: '@= k [pk] if {dup swap d1 d2 @k check_sig_stack verify eval} else {@k check_sig}' -> if path: eval script; returned deleted by eval...
l = make_graftroot_lock(pk)
print(l.src)
# delegate chain lock: def 0 {...} push root call d0 -> OP_CALL deletes returned after.
# try/except: C01 TRY
lock2 = ts.compile_script('try { true } except { } pop0 false')
print('try normal:', ts.run_auth_scripts([ts.compile_script('true'), lock2]))
print('try attack:', ts.run_auth_scripts([ts.compile_script('return'), lock2]))
# LOOP after return
lock3 = ts.compile_script('push d2 loop { push d1 swap2 sub d2 } pop0 false')
print('loop normal:', ts.run_auth_scripts([ts.compile_script('true'), lock3]))
print('loop attack:', ts.run_auth_scripts([ts.compile_script('return'), lock3]))
