import sys; sys.path.insert(0,'/repo')
import tapescript as ts
from tapescript import functions as F
from tapescript.tools import *
from nacl.signing import SigningKey
def T(name, f):
    try:
        print(name, '=>', f())
    except BaseException as e:
        print(name, 'RAISED', type(e).__name__, str(e)[:100])
sks=[SigningKey(bytes([i])*32) for i in range(1,6)]
pks=[bytes(s.verify_key) for s in sks]
sf={'sigfield1':b'a1','sigfield2':b'b2','sigfield3':b'c3'}
# C03: two sigs from same key with different flags in 2-of-3
l = make_multisig_lock(pks[:3], 2, sigflags='01')
w1 = make_single_sig_witness(bytes(sks[0]), sf, '00')
w2 = make_single_sig_witness(bytes(sks[0]), sf, '01')
T('multisig same key diff flag', lambda: ts.run_auth_scripts([w1+w2, l], sf))
w3 = make_single_sig_witness(bytes(sks[1]), sf, '00')
T('multisig ok', lambda: ts.run_auth_scripts([w1+w3, l], sf))
T('multisig ok rev', lambda: ts.run_auth_scripts([w3+w1, l], sf))
T('multisig dup', lambda: ts.run_auth_scripts([w1+w1, l], sf))
# duplicate keys in key list via raw opcode: keys [A, A, B], sigs [sigA, sigA']
# greedy: key order matters? sigs [s_B, s_A], keys popped: order
l3 = make_multisig_lock(pks[:3], 3)
ws=[make_single_sig_witness(bytes(sks[i]), sf) for i in range(3)]
import itertools
for perm in itertools.permutations(range(3)):
    print(perm, ts.run_auth_scripts([ws[perm[0]]+ws[perm[1]]+ws[perm[2]], l3], sf), end='; ')
print()
# C02 flags: sig with flag 0x00 byte appended explicitly (65 bytes with flag 0)?
_,st,_ = ts.run_script(ts.compile_script(f'push x{bytes(sks[0]).hex()} sign x00'), sf)
sig = st.get()
T('sig 65 flag0', lambda: ts.run_script(ts.compile_script(f'push x{sig.hex()}00 push x{pks[0].hex()} check_sig x00'), sf)[1].list())
# sigfield missing / empty / non-bytes
T('sign ff', lambda: len(ts.run_script(ts.compile_script(f'push x{bytes(sks[0]).hex()} sign xff'), sf)[1].get()))
# vkey as invalid point
T('bad key', lambda: ts.run_script(ts.compile_script(f'push x{sig.hex()} push x{"ff"*32} check_sig x00'), sf)[1].list())
T('CSS bad key', lambda: ts.run_script(ts.compile_script(f'push x{sig.hex()} push x6131 push x{"ff"*32} check_sig_stack'), sf)[1].list())
# C08: write cache with key spelled 'timestamp' bytes
T('write ts', lambda: {k:v for k,v in ts.run_script(ts.compile_script('push d5 write_cache s"timestamp" d1'), {'timestamp': 7})[2].items()})
# TRY/EXCEPT writes cache[b'E']; returned is str key written by scripts!
T('returned key', lambda: ts.run_script(ts.compile_script('return'), {'timestamp': 7})[2])
# C09 flags in IF subtape: OP_IF subtape flags: default dict -> set_tape_flags(additional_flags=tape.flags). fine
# disallow_OP_EVAL inside IF
T('eval disallow top', lambda: ts.run_script(ts.compile_script('push x01 eval'), additional_flags={'disallow_OP_EVAL':True})[1].list())
T('eval disallow in if', lambda: ts.run_script(ts.compile_script('true if { push x01 eval }'), additional_flags={'disallow_OP_EVAL':True})[1].list())
T('eval disallow in call', lambda: ts.run_script(ts.compile_script('def 0 { push x01 eval } call d0'), additional_flags={'disallow_OP_EVAL':True})[1].list())
T('eval disallow in loop', lambda: ts.run_script(ts.compile_script('true loop { pop0 push x01 eval false }'), additional_flags={'disallow_OP_EVAL':True})[1].list())
T('eval disallow in try', lambda: ts.run_script(ts.compile_script('try { push x01 eval } except { push x02 }'), additional_flags={'disallow_OP_EVAL':True})[1].list())
# flag turned off stays off: flag 2 False => derive_point must not write b'X'
def flagprobe(src):
    return b'X' in ts.run_script(ts.compile_script(src), additional_flags={2: False})[2]
pt = 'push x'+'01'*32+' derive_point pop0'
for name, src in [('top',pt),('if','true if { %s }'%pt),('ifelse','false if { } else { %s }'%pt),('try','try { %s }'%pt),('loop','true loop { pop0 %s false }'%pt),('def','def 0 { %s } call d0'%pt),('eval','push ~ { %s } eval'%pt), ('def-in-if', 'def 0 { %s } true if { call d0 }'%pt), ('if-in-def', 'def 0 { true if { %s } } call d0'%pt), ('loop-in-if', 'true if { true loop { pop0 %s false } }'%pt)]:
    T('flag2 off '+name, lambda: flagprobe(src))
