import sys; sys.path.insert(0,'/repo')
import tapescript as ts
from tapescript import functions as F
from tapescript.tools import *
from nacl.signing import SigningKey
import threading, signal
def T(name, f):
    try:
        print(name, '=>', f())
    except BaseException as e:
        print(name, 'RAISED', type(e).__name__, str(e)[:100])

# C12: decompile termination with negative PUSH2 size
def wd(b, secs=2):
    def h(*a): raise TimeoutError('hang')
    signal.signal(signal.SIGALRM, h); signal.alarm(secs)
    try:
        return ts.decompile_script(b)
    finally:
        signal.alarm(0)
T('decomp push2 ffff', lambda: wd(b'\x04\xff\xff'))
T('decomp push2 fffd', lambda: wd(b'\x04\xff\xfd'))
T('decomp push2 fffc', lambda: wd(b'\x00\x04\xff\xfc'))
T('decomp push2 8000+data', lambda: len(wd(b'\x04\x80\x00'+b'a'*32768)))
# run with tape read negative? OP_PUSH2 in VM uses unsigned. NOP reads signed but checks.
# C12: NOP count > 127 roundtrip
T('decomp nop200 d200', lambda: wd(bytes([200,200])))
T('recompile', lambda: ts.compile_script('NOP200 d200'))
T('recompile x', lambda: ts.compile_script('NOP200 xc8'))
# C11 END_IF swallows next symbol
T('END_IF', lambda: ts.compile_script('true if true end_if false true').hex())
T('brace', lambda: ts.compile_script('true if { true } false true').hex())
T('if else end_if', lambda: ts.compile_script('true if true else false end_if false true').hex())
# C07: OP_RANDOM huge
import tracemalloc
def rnd():
    tracemalloc.start()
    try:
        ts.run_script(ts.compile_script('push x00ffffffff random'))
    except BaseException as e:
        r = type(e).__name__
    else: r='ok'
    p = tracemalloc.get_traced_memory()[1]; tracemalloc.stop()
    return r, p
T('random big', rnd)
T('random neg', lambda: ts.run_script(ts.compile_script('push d-1 random')))
# C07 interpreter-level failures: IndexError on empty stack
T('empty pop', lambda: ts.run_script(ts.compile_script('pop0')))
T('auth empty pop', lambda: ts.run_auth_scripts([ts.compile_script('pop0')]))
# C07: SWAP direct deque; REVERSE
# LOOP limit
T('loop', lambda: ts.run_script(ts.compile_script('true loop { }'), callstack_limit=5))
# deque maxlen drop? stack.put checks len<max; direct deque writes only via OP_SWAP (no size change)
# C07 Tape.read negative: where can VM read negative? nowhere signed except NOP count -> sert>=0
# recursion: nested IF depth
def deep(n):
    s = b'\x01'
    for i in range(n):
        s = b'\x01\x2b' + len(s).to_bytes(2,'big') + s
    return s
T('nested if 400', lambda: len(ts.run_script(deep(400))[1]))
def deep2(n):
    s = b'\x01'
    for i in range(n):
        s = b'\x01\x2b' + len(s).to_bytes(2,'big') + s
        if len(s) > 65000: break
    return s, i
s,i = deep2(20000)
print('depth', i, len(s))
T('nested if deep', lambda: len(ts.run_script(s)[1]))
T('auth nested if deep', lambda: ts.run_auth_scripts([s]))
