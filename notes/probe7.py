import sys; sys.path.insert(0,'/repo')
import tapescript as ts
from tapescript import classes, functions as F
moves=[]
class TT(classes.Tape):
    pass
src='def 0 { verify try { false call d0 } except { } true } push d1 call d0'
code=ts.compile_script(src)
# count how many times OP_TRY_EXCEPT executes
orig=F.opcodes[61]
n=[0]
def wrapped(t,s,c):
    n[0]+=1; return orig[1](t,s,c)
F.opcodes[61]=(orig[0],wrapped)
try:
    t,s,c=ts.run_script(code)
    print('ok stack', s.list(), 'try executions', n[0])
except BaseException as e:
    print('raised', type(e).__name__, e, 'try executions', n[0])
