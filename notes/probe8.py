import sys; sys.path.insert(0,'/repo')
import tapescript as ts
from tapescript import functions as F
from nacl.signing import SigningKey, VerifyKey
seed=b'\x05'*32; t=F.clamp_scalar(b'\x09'*32); m=b'hello'
X=bytes(SigningKey(seed).verify_key)
# private
_,st,_=ts.run_script(ts.compile_script(f'push x{m.hex()} push x{t.hex()} push x{seed.hex()} make_adapter_sig_private'))
sa=st.get(); R=st.get(); T=st.get()
_,st,_=ts.run_script(ts.compile_script(f'push x{sa.hex()} push x{R.hex()} push x{m.hex()} push x{T.hex()} push x{X.hex()} check_adapter_sig'))
print('private: check_adapter_sig ->', st.list())
_,st,_=ts.run_script(ts.compile_script(f'push x{sa.hex()} push x{R.hex()} push x{t.hex()} decrypt_adapter_sig'))
s=st.get(); RT=st.get()
try:
    VerifyKey(X).verify(m, RT+s); print('private: decrypted verifies')
except Exception as e: print('private: decrypted sig invalid', type(e).__name__)
# public
_,st,_=ts.run_script(ts.compile_script(f'push x{seed.hex()} push x{m.hex()} push x{T.hex()} make_adapter_sig_public'))
sa=st.get(); R=st.get()
_,st,_=ts.run_script(ts.compile_script(f'push x{sa.hex()} push x{R.hex()} push x{m.hex()} push x{T.hex()} push x{X.hex()} check_adapter_sig'))
print('public: check ->', st.list())
_,st,_=ts.run_script(ts.compile_script(f'push x{sa.hex()} push x{R.hex()} push x{t.hex()} decrypt_adapter_sig'))
s=st.get(); RT=st.get()
try:
    VerifyKey(X).verify(m, RT+s); print('public: decrypted verifies')
except Exception as e: print('public: decrypted sig invalid', type(e).__name__)
# unclamped t with top bit: T = t*G with bit255 cleared by noclamp; decrypt clamps t
