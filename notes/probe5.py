import sys; sys.path.insert(0,'/repo')
import tapescript as ts
from tapescript import functions as F, parsing as P
from tapescript.tools import *
from nacl.signing import SigningKey
def T(name, f):
    try:
        print(name, '=>', f())
    except BaseException as e:
        print(name, 'RAISED', type(e).__name__, str(e)[:100])
# C19 reset_plugins with >=2 entries
p1=lambda t,s,c:None; p2=lambda t,s,c:None; p3=lambda t,s,c:None
for p in (p1,p2,p3): F.add_plugin('signature_extensions', p)
F.reset_plugins('signature_extensions')
print('after reset:', len(F._plugins['signature_extensions']))
F._plugins['signature_extensions'].clear()
# mutable default macros: assemble(symbols) without macros -> shared dict
T('assemble macro define', lambda: P.assemble(P.get_symbols('!= foo [ a ] { push a }')))
T('assemble macro use in later call', lambda: P.assemble(P.get_symbols('!foo [ d1 ]')).hex())
T('compile_script uses fresh', lambda: ts.compile_script('!foo [ d1 ]').hex())
# run_script default args mutated? cache_vals = {} default: cache = {**}: fresh. contracts ok.
# set_tape_flags additional_flags default {}
# caller dict mutation: plugins lists shared? tape.plugins = {**_plugins, **plugins}: shallow; lists shared but not mutated by run.
# flags global: OP_SET_FLAG writes tape.flags only.
# C19: add_contract_interface etc fine.
# C20: NOP
T('nop 92 count 2', lambda: ts.run_script(bytes([1,1,1,92,2]))[1].list())
T('nop count 0x80', lambda: ts.run_script(bytes([1,1,1,255,0x80]))[1].list())
T('nop count 5 underflow', lambda: ts.run_script(bytes([1,255,5]))[1].list())
T('compile NOP255 d2', lambda: ts.compile_script('NOP255 d2').hex())
T('compile NOP92 d2', lambda: ts.compile_script('nop92 d2').hex())
T('compile NOP91', lambda: ts.compile_script('nop91 d2').hex())
T('decompile nop', lambda: ts.decompile_script(bytes([93,7])))
T('decompile nop neg', lambda: ts.decompile_script(bytes([93,0x85])))
# C04 merkle
tree = make_script_tree_balanced(['true', 'false', 'push d3'])
lock = tree.locking_script()
T('merkle pack/unpack root', lambda: ScriptNode.unpack(tree.pack()).root()==tree.root())
lk, unlocks = make_merklized_script_balanced(['true', 'push d1 push d1 equal', 'false'])
for u in unlocks: T('merkle bal', lambda: ts.run_auth_scripts([u, lk]))
lk, unlocks = make_merklized_script_prioritized(['true', 'push d1 push d1 equal', 'false', 'true'])
for u in unlocks: T('merkle prio', lambda: ts.run_auth_scripts([u, lk]))
lk, unlocks = make_merklized_script_prioritized(['true'])
for u in unlocks: T('merkle prio1', lambda: ts.run_auth_scripts([u, lk]))
# identical siblings -> xor root zero
lk, unlocks = make_merklized_script_prioritized(['true','true'])
print(lk.src)
# C05 native vs nonnative
sk=SigningKey(b'\x07'*32); pk=bytes(sk.verify_key)
cs = Script.from_src('true')
sf={'sigfield1':b'a1','sigfield2':b'b2'}
nat = make_taproot_lock(pk, cs); non = make_nonnative_taproot_lock(pk, cs)
wk = make_taproot_witness_keyspend(bytes(sk), sf, cs)
wsx = make_taproot_witness_scriptspend(pk, cs)
for nm,w in (('key',wk),('script',wsx)):
    T('taproot '+nm, lambda: (ts.run_auth_scripts([w,nat],sf), ts.run_auth_scripts([w,non],sf)))
# wrong script
ws2 = make_taproot_witness_scriptspend(pk, Script.from_src('true true pop0'))
T('taproot wrong script', lambda: (ts.run_auth_scripts([ws2,nat],sf), ts.run_auth_scripts([ws2,non],sf)))
# witness with invalid point key (32 bytes not on curve)
w3 = Script.from_src('push x01 push x'+'ff'*32)
T('taproot invalid pt', lambda: (ts.run_auth_scripts([w3,nat],sf), ts.run_auth_scripts([w3,non],sf)))
# witness: defines def 0 -> hijack nonnative's def 0? lock redefines def 0 itself. OK
# committed script false: native puts? verdict
cs2 = Script.from_src('false')
nat2 = make_taproot_lock(pk, cs2); non2 = make_nonnative_taproot_lock(pk, cs2)
ws3 = make_taproot_witness_scriptspend(pk, cs2)
T('taproot false script', lambda: (ts.run_auth_scripts([ws3,nat2],sf), ts.run_auth_scripts([ws3,non2],sf)))
