import sys; sys.path.insert(0,'/repo')
import tapescript as ts
from tapescript import functions as F
from tapescript.tools import *
import time
# C01: witness ending in RETURN then lock with IF
lock = ts.compile_script('if { true } verify false')   # must end false normally
wit = ts.compile_script('true true return')
print('C01 lock normally (wit true true):', ts.run_auth_scripts([ts.compile_script('true true'), lock]))
print('C01 with return witness:', ts.run_auth_scripts([wit, lock]))
# simpler: PTLC lock: if {push pk} else {...} check_sig
from nacl.signing import SigningKey
sk = SigningKey(b'\x01'*32); pk=bytes(sk.verify_key)
l = make_ptlc_lock(pk, pk)
w = ts.compile_script('true true return')  # stack: true true ; IF pops true, pushes pk -> then RETURN -> stack [true, pk]
print('ptlc:', ts.run_auth_scripts([w,l],{'sigfield1':b'abc'}))
# graftroot lock: '@= k [pk] if { dup swap.. } else {@k check_sig}'
# taproot nonnative: def 0 {push root} if (dup size push d32 equal) {...} else { call d0 check_sig }
# C10: int_to_bytes near powers of 2
bad=[]
for k in list(range(1,200))+[1023,1024,2047,4096,8191,16384]:
    for d in (-3,-2,-1,0,1,2,3):
        for s in (1,-1):
            n = s*(2**k+d)
            try:
                b = ts.int_to_bytes(n)
                if ts.bytes_to_int(b)!=n: bad.append((k,d,s,'mismatch'))
            except BaseException as e:
                bad.append((k,d,s,type(e).__name__))
print('C10 bad count', len(bad), bad[:12])
