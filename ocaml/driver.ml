(* Co-process driver for the extracted model (trusted glue: hex I/O, oracle round trips, printing).
   Protocol (one line each way):
     CFG ... | RUN fuel script cache | AUTH fuel cache s1 s2 .. | I2B z | B2I hex | U2B z | DEC hex | ENC ... | QUIT
   While a command runs the driver may print "? Prim arg.." and reads "ok r.." / "err Name".
   Every command ends with one line starting with "=". *)
type str = string
open Tsmodel

let rec pos_of_int i = if i = 1 then XH else if i land 1 = 1 then XI (pos_of_int (i lsr 1)) else XO (pos_of_int (i lsr 1))
let n_of_int i = if i = 0 then N0 else Npos (pos_of_int i)
let z_of_int i = if i = 0 then Z0 else if i > 0 then Zpos (pos_of_int i) else Zneg (pos_of_int (-i))
let rec int_of_pos = function XH -> 1 | XO p -> 2 * int_of_pos p | XI p -> 2 * int_of_pos p + 1
let int_of_n = function N0 -> 0 | Npos p -> int_of_pos p
let int_of_z = function Z0 -> 0 | Zpos p -> int_of_pos p | Zneg p -> - (int_of_pos p)
let rec nat_of_int i = if i <= 0 then O else S (nat_of_int (i - 1))
let int_of_nat n = let rec go acc = function O -> acc | S k -> go (acc + 1) k in go 0 n

let byte_tbl : byte array =
  Array.init 256 (fun i -> match of_N0 (n_of_int i) with Some b -> b | None -> failwith "byte")
let int_of_byte (b : byte) = int_of_n (to_N0 b)

let hexd = "0123456789abcdef"
let hex_of_bytes (l : bytes) : str =
  if l = [] then "-" else begin
    let b = Buffer.create 64 in
    List.iter (fun x -> let i = int_of_byte x in
      Buffer.add_char b hexd.[i lsr 4]; Buffer.add_char b hexd.[i land 15]) l;
    Buffer.contents b end
let hv c = match c with '0'..'9' -> Char.code c - 48 | 'a'..'f' -> Char.code c - 87
  | 'A'..'F' -> Char.code c - 55 | _ -> failwith "hex"
let bytes_of_hex (s : str) : bytes =
  if s = "-" then [] else begin
    let n = String.length s / 2 in
    let rec go i acc = if i < 0 then acc else go (i - 1) (byte_tbl.(hv s.[2*i] * 16 + hv s.[2*i+1]) :: acc) in
    go (n - 1) [] end

(* Z <-> sign + hex magnitude *)
let pos_of_hex (s : str) : positive option =
  (* bits most significant first *)
  let bits = ref [] in
  String.iter (fun c -> let v = hv c in
    bits := (v land 1 = 1) :: (v land 2 = 2) :: (v land 4 = 4) :: (v land 8 = 8) :: !bits) s;
  (* !bits is least significant first *)
  let rec strip = function [] -> [] | l -> l in
  let lsb_first = strip !bits in
  (* build positive from lsb-first list, dropping high zero bits *)
  let rec build = function
    | [] -> None
    | b :: rest -> (match build rest with
        | None -> if b then Some XH else None
        | Some p -> Some (if b then XI p else XO p)) in
  build lsb_first
let z_of_str (s : str) : z =
  let neg = String.length s > 0 && s.[0] = '-' in
  let h = if neg then String.sub s 1 (String.length s - 1) else s in
  match pos_of_hex h with None -> Z0 | Some p -> if neg then Zneg p else Zpos p
let hex_of_pos (p : positive) : str =
  let rec bits p = match p with XH -> [true] | XO q -> false :: bits q | XI q -> true :: bits q in
  let l = Array.of_list (bits p) in
  let n = Array.length l in
  let nd = (n + 3) / 4 in
  let b = Bytes.make nd '0' in
  for d = 0 to nd - 1 do
    let v = ref 0 in
    for k = 0 to 3 do let i = 4 * d + k in if i < n && l.(i) then v := !v lor (1 lsl k) done;
    Bytes.set b (nd - 1 - d) hexd.[!v]
  done; Bytes.to_string b
let str_of_z = function Z0 -> "0" | Zpos p -> hex_of_pos p | Zneg p -> "-" ^ hex_of_pos p

let string_of_coq (s : Tsmodel.string) : str =
  let b = Buffer.create 16 in
  List.iter (fun x -> Buffer.add_char b (Char.chr (int_of_byte x))) (list_byte_of_string s);
  Buffer.contents b
let ascii_of_char (c : char) : ascii =
  let n = Char.code c in
  let b k = (n lsr k) land 1 = 1 in
  Ascii (b 0, b 1, b 2, b 3, b 4, b 5, b 6, b 7)
let coq_of_string (s : str) : Tsmodel.string =
  let rec go i acc = if i < 0 then acc else go (i - 1) (String (ascii_of_char s.[i], acc)) in
  go (String.length s - 1) EmptyString
let ascii_of_bytes (l : bytes) = String.concat "" (List.map (fun x -> String.make 1 (Char.chr (int_of_byte x))) l)

let split c s = if s = "-" || s = "" then [] else String.split_on_char c s

(* ---- oracle ---- *)
let prim_name = function
  | PSha256 -> "Sha256" | PSha512 -> "Sha512" | PShake256 -> "Shake256" | PReduce -> "Reduce"
  | PBaseMult -> "BaseMult" | PMult -> "Mult" | PPointAdd -> "PointAdd" | PPointSub -> "PointSub"
  | PScalarAdd -> "ScalarAdd" | PScalarSub -> "ScalarSub" | PScalarMul -> "ScalarMul"
  | PValidPoint -> "ValidPoint" | PSign -> "Sign" | PVerify -> "Verify" | PRandom -> "Random"
  | PLog2 -> "Log2" | PUtf8Valid -> "Utf8Valid" | PStrLen -> "StrLen" | PStrSplit -> "StrSplit"
  | PFUnpack -> "FUnpack" | PFPack -> "FPack" | PFAdd -> "FAdd" | PFSub -> "FSub" | PFDiv -> "FDiv"
  | PFMod -> "FMod" | PFIsNan -> "FIsNan" | PFLt -> "FLt" | PFLe -> "FLe" | PI2F -> "I2F" | PF2I -> "F2I"
let exn_of_name = function
  | "ScriptExecutionError" -> ScriptExecutionError | "ValueError" -> ValueError | "TypeError" -> TypeError
  | "IndexError" -> IndexError | "KeyError" -> KeyError | "ZeroDivisionError" -> ZeroDivisionError
  | "OverflowError" -> OverflowError | "UnicodeDecodeError" -> UnicodeDecodeError
  | "AssertionError" -> AssertionError | "BadSignatureError" -> BadSignatureError
  | "CryptoError" -> CryptoError | "RuntimeError" -> RuntimeError | "error" -> StructError
  | _ -> OtherError
let cache_tbl : (str, ores) Hashtbl.t = Hashtbl.create 4096
let oracle_calls = ref 0
let orc (p : prim) (args : bytes list) : ores =
  let q = String.concat " " (prim_name p :: List.map hex_of_bytes args) in
  match (if p = PRandom then None else Hashtbl.find_opt cache_tbl q) with
  | Some r -> r
  | None ->
    incr oracle_calls;
    print_string "? "; print_string q; print_newline ();
    let line = input_line stdin in
    let toks = String.split_on_char ' ' line in
    let r = match toks with
      | "ok" :: rs -> OOk (List.map bytes_of_hex rs)
      | "err" :: n :: _ -> OErr (exn_of_name n)
      | _ -> failwith ("bad oracle reply: " ^ line) in
    if Hashtbl.length cache_tbl > 200000 then Hashtbl.reset cache_tbl;
    Hashtbl.replace cache_tbl q r; r

(* ---- parsing config / cache ---- *)
let parse_atom (s : str) : atom =
  let rest = String.sub s 1 (String.length s - 1) in
  match s.[0] with
  | 'b' -> ABytes (bytes_of_hex (if rest = "" then "-" else rest))
  | 's' -> AStr (bytes_of_hex (if rest = "" then "-" else rest))
  | 'i' -> AInt (z_of_str rest)
  | 'f' -> AFloat (bytes_of_hex rest)
  | 't' -> ABool (rest = "1")
  | 'a' -> AByteArr (bytes_of_hex (if rest = "" then "-" else rest))
  | _ -> AOther
let parse_val (s : str) : cval =
  if s.[0] = '[' then
    let inner = String.sub s 1 (String.length s - 2) in
    VMany (List.map parse_atom (split ';' inner))
  else VOne (parse_atom s)
let parse_key (s : str) : ckey =
  let rest = String.sub s 1 (String.length s - 1) in
  let b = bytes_of_hex (if rest = "" then "-" else rest) in
  if s.[0] = 's' then KStr b else KBytes b
let parse_cache (s : str) : cache =
  List.map (fun e -> match String.index_opt e '=' with
    | Some i -> (parse_key (String.sub e 0 i), parse_val (String.sub e (i + 1) (String.length e - i - 1)))
    | None -> failwith "cache entry") (split ',' s)

let parse_flags (s : str) : (fkey * fval) list =
  List.map (fun e -> match String.split_on_char ':' e with
    | [k; v] ->
      let kk = if k.[0] = 's' then FKStr (bytes_of_hex (String.sub k 1 (String.length k - 1)))
               else FKInt (z_of_str (String.sub k 1 (String.length k - 1))) in
      let vr = String.sub v 1 (String.length v - 1) in
      let vv = match v.[0] with 'i' -> FVInt (z_of_str vr) | 'b' -> FVBool (vr = "1") | _ -> FVOther in
      (kk, vv)
    | _ -> failwith "flag") (split ',' s)
let parse_ct = function "true" -> CtTrue | "false" -> CtFalse | "eq" -> CtEq | _ -> CtPrefix
let parse_contract = function "echo" -> CEcho | "none" -> CNone | "rev" -> CRev | "badret" -> CBadRet | _ -> CTransfer

let cfg = ref { c_max_items = nat_of_int 1024; c_max_item_size = nat_of_int 1024; c_limit = z_of_int 128;
                c_flags = []; c_sigext = []; c_ctplugins = []; c_contracts = []; c_now = Z0 }

(* ---- printing ---- *)
(* exception text "ClassName|message" is compared by class only: cut after the bar (both sides do this) *)
let canon_hex (h : str) : str =
  (* h is lower-case hex; look for "7c" at an even offset *)
  let n = String.length h / 2 in
  let rec find i = if i >= n then -1 else if h.[2*i] = '7' && h.[2*i+1] = 'c' then i else find (i + 1) in
  let k = find 0 in
  if k <= 0 then h else begin
    let name = Bytes.create k in
    let ok = ref true in
    for i = 0 to k - 1 do
      let c = Char.chr (hv h.[2*i] * 16 + hv h.[2*i+1]) in
      Bytes.set name i c;
      if not ((c >= 'a' && c <= 'z') || (c >= 'A' && c <= 'Z')) then ok := false
    done;
    let nm = Bytes.to_string name in
    let ends_error = k >= 5 && String.sub nm (k - 5) 5 = "Error" in
    if !ok && (ends_error || nm = "error") then String.sub h 0 (2 * k + 2) else h end
let atom_str = function
  | ABytes b -> "b" ^ (let h = hex_of_bytes b in if h = "-" then "" else canon_hex h)
  | AStr b -> "s" ^ (let h = hex_of_bytes b in if h = "-" then "" else h)
  | AInt z -> "i" ^ str_of_z z
  | AFloat b -> "f" ^ hex_of_bytes b
  | ABool b -> if b then "t1" else "t0"
  | AOther -> "o"
  | AByteArr b -> "a" ^ (let h = hex_of_bytes b in if h = "-" then "" else h)
let val_str = function
  | VOne a -> atom_str a
  | VMany l -> "[" ^ String.concat ";" (List.map atom_str l) ^ "]"
let key_str = function
  | KStr b -> "s" ^ (let h = hex_of_bytes b in if h = "-" then "" else h)
  | KBytes b -> "b" ^ (let h = hex_of_bytes b in if h = "-" then "" else h)
let cache_str (c : cache) =
  let l = List.sort compare (List.map (fun (k, v) -> key_str k ^ "=" ^ val_str v) c) in
  if l = [] then "-" else String.concat "," l
let stack_str (s : bytes list) =
  if s = [] then "-" else String.concat "," (List.rev_map (fun b -> let h = hex_of_bytes b in if h = "-" then "e" else canon_hex h) s)
let event_str = function
  | EvSigExt i -> "x" ^ string_of_int (int_of_nat i)
  | EvCt i -> "c" ^ string_of_int (int_of_nat i)
  | EvInvoke (cid, args) -> "v" ^ hex_of_bytes cid ^ ":" ^ String.concat ";" (List.map hex_of_bytes args)
  | EvAlloc z -> "a" ^ str_of_z z
  | EvEnter d -> "e" ^ string_of_int (int_of_nat d)
let is_alloc = function EvAlloc _ -> true | _ -> false
let log_str (l : event list) =
  let l = List.filter (fun e -> not (is_alloc e)) l in
  if l = [] then "-" else String.concat "," (List.rev_map event_str l)
let alloc_str (l : event list) =
  let l = List.filter is_alloc l in
  if l = [] then "-" else String.concat "," (List.rev_map event_str l)
let state_str (fr : frame option) (st : state) =
  let ptr = match fr with Some f -> string_of_int (int_of_nat f.fr_ptr) | None -> "-" in
  let count = match fr with
    | Some f -> str_of_z (nth_tape st f.fr_tid).to_count
    | None -> "-" in
  String.concat " | " [ptr; count; stack_str st.st_stack; cache_str st.st_cache; log_str st.st_log;
                       alloc_str st.st_log]
let outcome_str (o : unit outcome) = match o with
  | Done (_, fr, st) -> "done | " ^ state_str (Some fr) st
  | Raised (e, fr, st) -> "raised:" ^ ascii_of_bytes (exn_name e) ^ " | " ^ state_str (Some fr) st
  | OutOfFuel -> "fuel"
  | Unmodelled w -> "unmod:" ^ string_of_coq w

let fl2_oracle (a : z) : z =
  (* floor(log2 a) as Python computes it *)
  if int_of_z (fl2_exact a) < 32 then fl2_exact a else
  let len = nat_of_int (int_of_z (fl2_exact a) / 8 + 1) in
  match orc PLog2 [z_to_be len a] with
  | OOk [r] -> be_to_Z r
  | _ -> failwith "log2 oracle"

(* the run of a ~! { } comptime block: the extracted VM under the current configuration (the harness sets the default one),
   empty cache; top stack item / empty stack / raise / undecided *)
let ct_vm (code : bytes) : (bytes option) res =
  match run_script orc !cfg (nat_of_int 20000) code [] with
  | Done (_, _, st) -> (match st.st_stack with [] -> Ok None | top :: _ -> Ok (Some top))
  | Raised (_, _, _) -> Err
  | _ -> Unm

let () =
  (try while true do
    let line = input_line stdin in
    let toks = List.filter (fun s -> s <> "") (String.split_on_char ' ' line) in
    (try (match toks with
    | ["QUIT"] -> raise Exit
    | "CFG" :: mi :: ms :: lim :: now :: fl :: se :: ct :: co :: _ ->
      cfg := { c_max_items = nat_of_int (int_of_string mi); c_max_item_size = nat_of_int (int_of_string ms);
               c_limit = z_of_str lim; c_now = z_of_str now; c_flags = parse_flags fl;
               c_sigext = List.map (fun s -> nat_of_int (int_of_string s)) (split ',' se);
               c_ctplugins = List.map (fun e -> match String.split_on_char ':' e with
                   | [i; k] -> (nat_of_int (int_of_string i), parse_ct k) | _ -> failwith "ct") (split ',' ct);
               c_contracts = List.map (fun e -> match String.split_on_char ':' e with
                   | [i; k] -> (bytes_of_hex i, parse_contract k) | _ -> failwith "contract") (split ',' co) };
      print_string "= ok\n"
    | ["RUN"; fuel; script; cache] ->
      let o = run_script orc !cfg (nat_of_int (int_of_string fuel)) (bytes_of_hex script) (parse_cache cache) in
      print_string ("= " ^ outcome_str o ^ "\n")
    | ["AMHL"; n; seed] ->
      let hx = hex_of_bytes in
      let ob = function Some true -> "T" | Some false -> "F" | None -> "none" in
      let vw = function
        | Some (VFirst y) -> "first:" ^ hx y
        | Some (VMid (a, b, c)) -> "mid:" ^ hx a ^ ":" ^ hx b ^ ":" ^ hx c
        | Some (VLast (a, k)) -> "last:" ^ hx a ^ ":" ^ hx k
        | None -> "none" in
      (match amhl_all orc (nat_of_int (int_of_string n)) (bytes_of_hex seed) with
       | Some ((ys, ypts), views) ->
         print_string ("= ok " ^ String.concat "," (List.map hx ys) ^ " " ^ String.concat "," (List.map hx ypts) ^ " " ^
                       String.concat "," (List.map (fun (v, c) -> vw v ^ "=" ^ ob c) views) ^ "\n")
       | None -> print_string "= none\n")
    | ["AMHLREL"; w; sg; y] ->
      (match amhl_release_left orc (bytes_of_hex w) (bytes_of_hex sg) (bytes_of_hex y) with
       | Some k -> print_string ("= ok " ^ hex_of_bytes k ^ "\n") | None -> print_string "= none\n")
    | ["AMHLKEY"; l; k] ->
      (match amhl_verify_lock_key orc (bytes_of_hex l) (bytes_of_hex k) with
       | Some b -> print_string ("= ok " ^ (if b then "T" else "F") ^ "\n") | None -> print_string "= none\n")
    | "ASRC" :: syms ->
      (* symbols of a SOURCE (output of parsing.get_symbols), each hex-encoded utf-8 -> Assembler.assemble_r *)
      let unhex h = if h = "-" then "" else ascii_of_bytes (bytes_of_hex h) in
      (match assemble_r fl2_oracle ct_vm (List.map (fun h -> coq_of_string (unhex h)) syms) with
       | Ok b -> print_string ("= ok " ^ hex_of_bytes b ^ "\n")
       | Err -> print_string "= err\n"
       | Unm -> print_string "= unm\n")
    | ["CTXT"; h] ->
      (* SOURCE TEXT (hex of its utf-8 bytes) -> Tokenizer.get_symbols and Tokenizer.compile_text *)
      let txt = coq_of_string (if h = "-" then "" else ascii_of_bytes (bytes_of_hex h)) in
      let hexs s = let r = string_of_coq s in if r = "" then "-" else
        String.concat "" (List.map (fun c -> Printf.sprintf "%02x" (Char.code c)) (List.of_seq (String.to_seq r))) in
      let sy = (match get_symbols txt with
        | Ok l -> "ok:" ^ String.concat "," (List.map hexs l)
        | Err -> "err" | Unm -> "unm") in
      let cp = (match compile_text fl2_oracle ct_vm txt with
        | Ok b -> "ok:" ^ hex_of_bytes b
        | Err -> "err" | Unm -> "unm") in
      print_string ("= " ^ sy ^ " " ^ cp ^ "\n")
    | ["FLT"; h] ->
      let pos p = str_of_z (Zpos p) in
      let sg s = if s then "-" else "+" in
      (match classify_bytes (bytes_of_hex h), roundtrip_bytes (bytes_of_hex h) with
       | Some c, Some back ->
         let d = (match c with
           | FZero s -> "zero" ^ sg s
           | FInf s -> "inf" ^ sg s
           | FNan (s, pl) -> "nan" ^ sg s ^ ":" ^ pos pl
           | FFin (s, m, e) -> "fin" ^ sg s ^ ":" ^ pos m ^ ":" ^ str_of_z e) in
         print_string ("= ok " ^ d ^ " " ^ hex_of_bytes back ^ "\n")
       | _, _ -> print_string "= none\n")
    | "TB" :: kind :: nfill :: rest ->
      (* TB prioritized 0 leaf...   |   TB balanced <k> fill_1..fill_k leaf... *)
      let h b = (match orc PSha256 [b] with OOk [x] -> x | _ -> failwith "sha256 oracle") in
      let k = int_of_string nfill in
      let bs = List.map bytes_of_hex rest in
      let rec split n l = if n = 0 then ([], l) else (match l with x :: t -> let (a, b) = split (n - 1) t in (x :: a, b) | [] -> ([], [])) in
      let (fills, leaves) = split k bs in
      let r = if kind = "prioritized" then tb_prioritized h leaves else tb_balanced h fills leaves in
      (match r with
       | Some (lk, us) -> print_string ("= ok " ^ hex_of_bytes lk ^ " " ^ String.concat "," (List.map hex_of_bytes us) ^ "\n")
       | None -> print_string "= none\n")
    | ["MT"; packed; path] ->
      let h b = (match orc PSha256 [b] with OOk [x] -> x | _ -> failwith "sha256 oracle") in
      let p = List.filter_map (fun c -> match c with 'L' -> Some L | 'R' -> Some R | _ -> None) (List.of_seq (String.to_seq path)) in
      (match mt_check h (bytes_of_hex packed) p with
       | Some ((lk, un), pk) ->
         let o = function Some b -> hex_of_bytes b | None -> "none" in
         print_string ("= ok " ^ hex_of_bytes lk ^ " " ^ o un ^ " " ^ o pk ^ "\n")
       | None -> print_string "= none\n")
    | ["RUNF"; fuel; fcode; script; cache] ->
      let o = run_script_fork orc !cfg (nat_of_int (int_of_string fcode)) (nat_of_int (int_of_string fuel)) (bytes_of_hex script) (parse_cache cache) in
      print_string ("= " ^ outcome_str o ^ "\n")
    | "AUTHF" :: fuel :: fcode :: cache :: scripts ->
      let r = run_auth_fork orc !cfg (nat_of_int (int_of_string fcode)) (nat_of_int (int_of_string fuel)) (List.map bytes_of_hex scripts) (parse_cache cache) in
      (match r with
       | AuthVerdict (b, st) -> print_string ("= verdict:" ^ (if b then "1" else "0") ^ " | " ^ state_str None st ^ "\n")
       | AuthFuel -> print_string "= fuel\n"
       | AuthUnmod w -> print_string ("= unmod:" ^ string_of_coq w ^ "\n"))
    | "AUTH" :: fuel :: cache :: scripts ->
      let r = run_auth_scripts orc !cfg (nat_of_int (int_of_string fuel)) (List.map bytes_of_hex scripts) (parse_cache cache) in
      (match r with
       | AuthVerdict (b, st) -> print_string ("= verdict:" ^ (if b then "1" else "0") ^ " | " ^ state_str None st ^ "\n")
       | AuthFuel -> print_string "= fuel\n"
       | AuthUnmod w -> print_string ("= unmod:" ^ string_of_coq w ^ "\n"))
    | ["I2B"; z] ->
      (match int_to_bytes fl2_oracle (z_of_str z) with
       | Some b -> print_string ("= ok " ^ hex_of_bytes b ^ "\n") | None -> print_string "= err OverflowError\n")
    | ["U2B"; z] ->
      (match uint_to_bytes fl2_oracle (z_of_str z) with
       | Some b -> print_string ("= ok " ^ hex_of_bytes b ^ "\n") | None -> print_string "= err OverflowError\n")
    | ["DEC"; h] ->
      (* decompile: listing lines separated by '|' (leading spaces kept) *)
      (match decompile fl2_oracle (bytes_of_hex h) with
       | Some ls -> print_string ("= ok " ^ String.concat "|" (List.map string_of_coq ls) ^ "\n")
       | None -> print_string "= none\n")
    | "ASM" :: toks ->
      (* tokens of a listing in the decompiler's own format -> encode (parse_listing toks) *)
      (match parse_listing fl2_oracle (List.map coq_of_string toks) with
       | Some p -> print_string ("= ok " ^ hex_of_bytes (encode p) ^ " " ^ (if wf_prog p then "wf" else "notwf") ^ "\n")
       | None -> print_string "= none\n")
    | ["REG"; impl; known; ifs; als; ops] ->
      let ints s = List.map int_of_string (split ',' s) in
      let pairs s = List.map (fun e -> match String.split_on_char ':' e with
          | [a; b] -> (int_of_string a, b) | _ -> failwith "pair") (split ';' s) in
      let matrix = List.map (fun (k, v) -> (k, ints (String.concat "," (String.split_on_char '.' v)))) (pairs impl) in
      let implements k i = (match List.assoc_opt (int_of_nat k) matrix with Some l -> List.mem (int_of_nat i) l | None -> false) in
      let kn = ints known in
      let known_op o = List.mem (int_of_nat o) kn in
      let r0 = reg_init (List.map nat_of_int (ints ifs))
                 (List.map (fun (a, o) -> (nat_of_int a, nat_of_int (int_of_string o))) (pairs als)) in
      let n = nat_of_int in
      let parse_op t = (match String.split_on_char '.' t with
          | ["ap"; a; b] -> AddPlugin (n (int_of_string a), n (int_of_string b))
          | ["rp"; a; b] -> RemovePlugin (n (int_of_string a), n (int_of_string b))
          | ["rs"; a] -> ResetPlugins (n (int_of_string a))
          | ["ac"; a; b] -> AddContract (n (int_of_string a), n (int_of_string b))
          | ["rc"; a] -> RemoveContract (n (int_of_string a))
          | ["ai"; a] -> AddIface (n (int_of_string a))
          | ["ri"; a] -> RemoveIface (n (int_of_string a))
          | ["aa"; a; b] -> AddAlias (n (int_of_string a), n (int_of_string b))
          | _ -> failwith ("rop " ^ t)) in
      let (r, outs) = run_trace implements known_op r0 (List.map parse_op (split ',' ops)) in
      let il l = String.concat "." (List.map (fun x -> string_of_int (int_of_nat x)) l) in
      print_string ("= " ^ String.concat " | " [
        String.concat ";" (List.map (fun (sc, l) -> string_of_int (int_of_nat sc) ^ ":" ^ il l) r.r_plugins);
        String.concat ";" (List.map (fun (a, b) -> string_of_int (int_of_nat a) ^ ":" ^ string_of_int (int_of_nat b)) r.r_contracts);
        il r.r_ifaces;
        String.concat ";" (List.map (fun (a, b) -> string_of_int (int_of_nat a) ^ ":" ^ string_of_int (int_of_nat b)) r.r_aliases);
        String.concat "" (List.map (fun o -> match o with ROk -> "o" | RErr -> "e") outs);
        il (run_plugins_of r [] (n 0)) ] ^ "\n")
    | "BLD" :: name :: args ->
      let a i = bytes_of_hex (List.nth args i) in
      let b1 i = (match a i with [x] -> x | _ -> failwith "byte arg") in
      let bl i = (List.nth args i = "1") in
      let r = (match name with
        | "single_sig_lock" -> single_sig_lock (a 0) (b1 1)
        | "single_sig_witness" -> single_sig_witness (a 0)
        | "single_sig_lock2" -> single_sig_lock2 (a 0) (b1 1)
        | "single_sig_witness2" -> single_sig_witness2 (a 0) (a 1)
        | "multisig_lock" -> multisig_lock (List.map bytes_of_hex (split ',' (List.nth args 0))) (b1 1) (b1 2)
        | "ts_after_lock" -> ts_after_lock (a 0) (bl 1)
        | "ts_before_lock" -> ts_before_lock (a 0) (bl 1)
        | "ts_between_lock" -> ts_between_lock (a 0) (a 1) (bl 2)
        | "scripthash_lock" -> scripthash_lock (a 0) (b1 1)
        | "ptlc_lock" -> ptlc_lock (a 0) (a 1) (a 2) (b1 3)
        | "htlc_sha256_lock" -> htlc_sha256_lock (a 0) (a 1) (a 2) (a 3) (b1 4)
        | "htlc_shake256_lock" -> htlc_shake256_lock (b1 0) (a 1) (a 2) (a 3) (a 4) (b1 5)
        | "htlc2_sha256_lock" -> htlc2_sha256_lock (a 0) (a 1) (a 2) (a 3) (b1 4)
        | "htlc2_shake256_lock" -> htlc2_shake256_lock (b1 0) (a 1) (a 2) (a 3) (a 4) (b1 5)
        | "delegate_key_lock" -> delegate_key_lock (a 0) (b1 1)
        | "delegate_key_witness" -> delegate_key_witness (a 0) (a 1)
        | "graftroot_lock" -> graftroot_lock (a 0) (b1 1)
        | "taproot_lock" -> taproot_lock (a 0) (b1 1)
        | "nonnative_taproot_lock" -> nonnative_taproot_lock (a 0) (b1 1)
        | "delegate_key_chain_lock" -> delegate_key_chain_lock (a 0) (b1 1)
        | "delegate_key_chain_witness" ->
          (match List.map bytes_of_hex args with
           | sg :: c0 :: cs -> delegate_key_chain_witness sg c0 cs
           | _ -> failwith "chain witness args")
        | "merkle_lock" -> merkle_lock (a 0)
        | "adapter_check_lock" -> adapter_check_lock (b1 0) (a 1) (a 2)
        | "adapter_decrypt" -> adapter_decrypt (a 0)
        | _ -> failwith ("unknown builder " ^ name)) in
      print_string ("= ok " ^ hex_of_bytes r ^ "\n")
    | ["B2I"; h] ->
      (match bytes_to_int (bytes_of_hex h) with
       | Some z -> print_string ("= ok " ^ str_of_z z ^ "\n") | None -> print_string "= err ValueError\n")
    | _ -> print_string ("= error unknown command: " ^ line ^ "\n"))
     with Exit -> raise Exit | End_of_file -> raise End_of_file
        | Stack_overflow -> print_string "= crash Stack_overflow\n"
        | e -> print_string ("= crash " ^ Printexc.to_string e ^ "\n"));
    flush stdout
  done with Exit | End_of_file -> ())
