#!/bin/sh
# full build: Coq (.vo, proofs included) + extraction + OCaml driver
set -e
cd /verif/coq
[ -f Makefile ] || coq_makefile -f _CoqProject -o Makefile >/dev/null
timeout 3000 make -j16 2>&1 | grep -v "^COQDEP\|^COQC\|Not a truly recursive" || true
test -f model/Interp.vo
mkdir -p /verif/build && cd /verif/build
if [ ! -f tsmodel ] || [ ../coq/model/Interp.vo -nt tsmodel ] || [ ../ocaml/driver.ml -nt tsmodel ] || [ ../coq/extract/Extract.v -nt tsmodel ]; then
  timeout 600 coqc -Q ../coq/model TS -Q ../coq/gen TS ../coq/extract/Extract.v >/dev/null
  cp ../ocaml/driver.ml .
  timeout 600 ocamlfind ocamlopt -O2 -w -a tsmodel.mli tsmodel.ml driver.ml -o tsmodel
fi
