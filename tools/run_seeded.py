#!/usr/bin/env python3
"""Apply a seeded change to /repo, run checks, undo.  usage: run_seeded.py <seeded dir> [property ids ...]"""
import json, os, subprocess, sys
d = sys.argv[1]
d = os.path.abspath(d)
patch = os.path.join(d, 'patch.diff')
meta = json.load(open(os.path.join(d, 'meta.json'))) if os.path.exists(os.path.join(d, 'meta.json')) else {}
pids = sys.argv[2:] or [meta.get('property')]
assert subprocess.run(['git', '-C', '/repo', 'status', '--porcelain', '--untracked-files=no'], capture_output=True, text=True).stdout.strip() == '', '/repo not clean'
subprocess.run(['git', '-C', '/repo', 'apply', patch], check=True)
res = {}
try:
    for p in pids:
        r = subprocess.run(['./check', p], cwd='/verif', capture_output=True, text=True)
        lines = [l for l in r.stdout.splitlines() if l.startswith('VIOLATION') or 'quick:' in l]
        res[p] = dict(rc=r.returncode, lines=lines)
        print(p, r.returncode, ' | '.join(lines)[:400])
finally:
    subprocess.run(['git', '-C', '/repo', 'checkout', '--', '.'], check=True)
json.dump(res, open(os.path.join(d, 'last_run.json'), 'w'), indent=1)
