#!/usr/bin/env python3
"""Re-run every kept seeded change against the current checks WITHOUT touching /repo: the patch is applied to a scratch
worktree and the property's quick check runs with TS_REPO pointing at it.  usage: regress_seeded.py [ids...]
Writes seeded/REGRESSION.json."""
import json, os, subprocess, sys
V = '/verif'
WT = os.environ.get('RG_WT', '/tmp/rg_wt')
ids = sys.argv[1:] or sorted(d for d in os.listdir(V + '/seeded') if os.path.exists(V + '/seeded/%s/meta.json' % d))
out = {}
for sid in ids:
    d = V + '/seeded/' + sid
    meta = json.load(open(d + '/meta.json'))
    pid = meta['property']
    subprocess.run(['git', '-C', '/repo', 'worktree', 'remove', '--force', WT], capture_output=True)
    subprocess.run(['git', '-C', '/repo', 'worktree', 'prune'], capture_output=True)
    subprocess.run(['git', '-C', '/repo', 'worktree', 'add', '--detach', WT, 'HEAD', '-q'], check=True, capture_output=True)
    a = subprocess.run(['git', '-C', WT, 'apply', '--3way', d + '/patch.diff'], capture_output=True, text=True)
    if a.returncode != 0:
        a = subprocess.run(['git', '-C', WT, 'apply', '--reject', d + '/patch.diff'], capture_output=True, text=True)
    if a.returncode != 0:
        out[sid] = dict(property=pid, applied=False, note=a.stderr[-300:])
        print(sid, pid, 'PATCH DOES NOT APPLY to the current tree'); continue
    r = subprocess.run(['./check', pid], cwd=V, capture_output=True, text=True, env=dict(os.environ, TS_REPO=WT))
    lines = [l for l in r.stdout.splitlines() if l.startswith('VIOLATION') or 'quick:' in l]
    out[sid] = dict(property=pid, applied=True, rc=r.returncode, lines=lines)
    print(sid, pid, r.returncode, ' | '.join(lines)[:230], flush=True)
subprocess.run(['git', '-C', '/repo', 'worktree', 'remove', '--force', WT], capture_output=True)
subprocess.run(['git', '-C', '/repo', 'worktree', 'prune'], capture_output=True)
try:
    prev = json.load(open(V + '/seeded/REGRESSION.json'))
except Exception:
    prev = {}
prev.update(out)
json.dump(prev, open(V + '/seeded/REGRESSION.json', 'w'), indent=1, sort_keys=True)
subprocess.run(['git', '-C', V, 'checkout', '--', 'evidence'], capture_output=True)     # evidence belongs to runs on the unchanged tree
