#!/bin/sh
# MANIFEST.setup_cmd: build the framework from files on disk only (offline).
set -e
cd /verif
export PYTHONHASHSEED=0
/venv/bin/python harness/gen_tables.py
cd coq && coq_makefile -f _CoqProject -o Makefile >/dev/null && (timeout 3000 make -k -j16 2>&1 | grep -v "^COQDEP\|^COQC\|Closed under\|Not a truly" || true)
mkdir -p /verif/build && cd /verif/build
timeout 600 coqc -Q ../coq/model TS -Q ../coq/gen TS ../coq/extract/Extract.v >/dev/null
cp ../ocaml/driver.ml .
timeout 600 ocamlfind ocamlopt -O2 -w -a tsmodel.mli tsmodel.ml driver.ml -o tsmodel
echo setup done
