#!/bin/sh
# usage: collect_seeded.sh <worktree> <seed id> <property>   -- confirms the seeded change and stores it under seeded/<id>
WT=$1; ID=$2; P=$3
D=/verif/seeded/$ID
mkdir -p $D
cd $WT
git diff -- tapescript > $D/patch.diff
cp demo.py $D/demo.py; cp notes.txt $D/notes.txt 2>/dev/null
echo "== suite with change:"; /venv/bin/python -m pytest -q -p no:cacheprovider --timeout=900 2>&1 | tail -1
echo "== demo with change:"; /venv/bin/python demo.py > /tmp/demo_with.txt 2>&1; echo "exit=$?"; head -3 /tmp/demo_with.txt
git apply -R $D/patch.diff   # not git stash: the stash is shared between the worktrees of one repository
echo "== demo without change:"; /venv/bin/python demo.py > /tmp/demo_without.txt 2>&1; echo "exit=$?"; head -2 /tmp/demo_without.txt
git apply $D/patch.diff
