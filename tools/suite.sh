#!/bin/sh
# run pinned suite, print pass/fail counts and failing ids
cd /repo && /venv/bin/python -m pytest -q -p no:cacheprovider --timeout=900 2>&1 | grep -E "^(FAILED|ERROR)|passed|failed" 
