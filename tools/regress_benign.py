#!/usr/bin/env python3
"""Run the checks against every kept BEHAVIOUR-PRESERVING refactoring (benign/<id>/patch.diff) WITHOUT touching /repo: the patch is
applied to a scratch worktree and the listed quick checks run with TS_REPO pointing at it.  Every check must stay quiet (exit 0, no
VIOLATION line).  usage: regress_benign.py [ids...]   Writes benign/REGRESSION.json."""
import json, os, subprocess, sys
V = '/verif'
WT = '/tmp/bn_rg_wt'
ids = sys.argv[1:] or sorted(d for d in os.listdir(V + '/benign') if os.path.exists(V + '/benign/%s/meta.json' % d))
out = {}
for bid in ids:
    d = V + '/benign/' + bid
    meta = json.load(open(d + '/meta.json'))
    subprocess.run(['git', '-C', '/repo', 'worktree', 'remove', '--force', WT], capture_output=True)
    subprocess.run(['git', '-C', '/repo', 'worktree', 'prune'], capture_output=True)
    subprocess.run(['git', '-C', '/repo', 'worktree', 'add', '--detach', WT, 'HEAD', '-q'], check=True, capture_output=True)
    a = subprocess.run(['git', '-C', WT, 'apply', '--3way', d + '/patch.diff'], capture_output=True, text=True)
    if a.returncode != 0:
        out[bid] = dict(applied=False, note=a.stderr[-300:]); print(bid, 'PATCH DOES NOT APPLY to the current tree'); continue
    res = {}
    for pid in meta['checks']:
        r = subprocess.run(['./check', pid], cwd=V, capture_output=True, text=True, env=dict(os.environ, TS_REPO=WT))
        lines = [l for l in r.stdout.splitlines() if l.startswith('VIOLATION') or 'quick:' in l]
        res[pid] = dict(rc=r.returncode, lines=lines)
        print(bid, pid, r.returncode, ' | '.join(lines)[:200], flush=True)
    out[bid] = dict(applied=True, checks=res, quiet=all(v['rc'] == 0 for v in res.values()))
subprocess.run(['git', '-C', '/repo', 'worktree', 'remove', '--force', WT], capture_output=True)
subprocess.run(['git', '-C', '/repo', 'worktree', 'prune'], capture_output=True)
subprocess.run(['git', '-C', V, 'checkout', '--', 'evidence'], capture_output=True)     # evidence belongs to runs on the unchanged tree
try:
    prev = json.load(open(V + '/benign/REGRESSION.json')) if sys.argv[1:] else {}
except Exception:
    prev = {}
prev.update(out)
json.dump(prev, open(V + '/benign/REGRESSION.json', 'w'), indent=1, sort_keys=True)
