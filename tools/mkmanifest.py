#!/usr/bin/env python3
"""Writes MANIFEST.json from the table below (kept in one place so that it stays valid)."""
import json, os
V = os.path.dirname(os.path.dirname(os.path.abspath(__file__)))
props = [json.loads(l) for l in open(os.path.join(V, 'properties.jsonl'))]
ids = [p['id'] for p in props]

def C(text, note, ref, technique):
    return dict(text=text, note=note, ref=ref, technique=technique)

COMMON = ' Model tied to /repo on every run: tables regenerated from the live package, differential execution of implementation vs extracted model, direct property oracle on the implementation.'
CLAIMS = {
 'C01': C('Theorems for all script lists, caches, oracles, configurations, fuel: verdict True iff every script runs from its first instruction to a normal end and the stack is [ff]; False otherwise; no third outcome; RETURN-flag discipline (every fetch at every nesting sees a clear flag; every later script starts clear) so that no earlier script can make a later instruction be skipped.' + COMMON,
          'an embedder-supplied "returned" cache entry is outside the statement (D13); CPython recursion limit not modelled', '5/C01', 'Coq: characterisation + typing judgement over the action vocabulary (92 opcodes) lifted by induction over programs and fuel; correspondence'),
 'C02': C('Theorems: the message is the index-ordered concatenation of present sigfields with clear flag bit; excluded/absent fields irrelevant; the eight bit tests = subset test (all 65536 pairs, by computation); total case analysis of the check (lengths, flags, oracle verdict on exactly (key, message, first 64 bytes)); true only if all of that.' + COMMON,
          'Ed25519 is an oracle (PyNaCl in the correspondence run); unforgeability not claimed (..._partial: changed covered field => verify on another message)', '5/C02', 'Coq symbolic execution of the instruction bodies + finite sweep lifted with forallb_forall; correspondence'),
 'C03': C('Theorems: greedy matching sound (true => signatures pairwise distinct and injectively matched to key positions), never more signatures than keys, repeated signature false, complete and order-invariant under exclusivity; the program-level loop equals the pure matching; end-to-end OP_CHECK_MULTISIG theorem with the real check.' + COMMON,
          'completeness/order invariance need exclusivity (a signature verifies under at most one listed key): a counterexample without it is proved', '5/C03', 'Coq: combinatorial proof on the pure loop + refinement of the program-level loop; correspondence'),
 'C04': C('Theorem: OP_MERKLEVAL either raises (cache, heap, log untouched: no sub-tape exists, no instruction of the supplied script runs) or continues with EVAL of exactly that script, decided by sha256(sha256(script)) xor sha256(sibling) = root, for every hash oracle. Tree classes, builders, pack/unpack: differential + direct oracle with a recording contract.' + COMMON,
          'tree builders / pack-unpack are exercised, not modelled in Coq (partial)', '5/C04', 'Coq symbolic execution of OP_MERKLEVAL; correspondence on all builder kinds and random tree shapes'),
 'C05': C('Theorems: script path of OP_TAPROOT evaluates the supplied script iff base_mult(clamp(sha256(key||sha256(script))))+key = root, else pushes x00 with nothing else changed; key path = CHECK_SIG of C02 under the root after the plugins ran once. Root formula, builders, non-native equivalence: differential + direct oracle (PyNaCl recomputation).' + COMMON,
          'curve arithmetic and hashes are oracles; non-native equivalence decided by correspondence (partial)', '5/C05', 'Coq symbolic execution of OP_TAPROOT; correspondence'),
 'C06': C('Executable Coq model of every instruction (92 ops + NOP, sub-tape heap, RETURN flag) written as the formal reading of docs.md/language_spec.md; dispatch proved total against the generated opcode table; CALL and LOOP absorb RETURN; conformance of the implementation established by differential execution (a disagreement is reported as a failing input).' + COMMON,
          'model = formal semantics; crypto/hash/float/utf-8 primitives answered by an oracle backed by the real libraries; messages compared by exception class', '5/C06', 'Coq model + extraction; differential execution model vs implementation'),
 'C07': C('Theorems for all programs, limits, oracles and fuel: stack depth <= max_items and item size <= max_item_size in every final/raising state and after every action; tape bytes immutable, pointer monotone and within [0,len] per activation; reads in bounds.' + COMMON,
          'CPython recursion limit / allocator not modelled (D14 partial); call-depth/termination: see DESIGN', '5/C07', 'Coq invariant proofs by induction over programs and fuel + correspondence + per-instruction monitors'),
 'C08': C('Theorem for all programs, nestings, oracles, configurations: every str-keyed cache entry except the control flag keeps the embedder value, in final and raising states, for run_script and run_auth_scripts. D13 ("returned" key) proved as a refutation witness. Direct oracle: (type, repr) snapshot and directed aliasing probes over mutable embedder values.' + COMMON,
          'plugins/contracts modelled as recorders only (property is stated for none installed)', '5/C08', 'Coq relational invariant over the action vocabulary + correspondence'),
 'C09': C('Theorems: the configuration is one value read identically at any depth; sub-tapes run under the same configuration; signature extensions exactly once before GET_MESSAGE / CHECK_SIG; EVAL stays disallowed; flag instructions change nothing (D7 refuted form). Uniformity of the implementation over all nestings to depth 2/3 decided by the exhaustive correspondence stream.' + COMMON,
          'uniformity holds of the model by construction; the tie is the nesting-exhaustive correspondence', '5/C09', 'Coq theorems on the model + exhaustive nesting sweep'),
 'C10': C('Theorems for every integer n: int_to_bytes n exists, decodes back to n, top bit = sign, two\'s complement range; decode total and injective per length. Hypothesis fl2_ok about the float log2 estimate validated against math.log2 on every run. Float32 part decided by an exponent-exhaustive sweep.' + COMMON,
          'fl2_ok hypothesis (float log2 off by at most +1); float part partial', '5/C10', 'Coq arithmetic proofs (lia/nia) + exhaustive and boundary differential sweeps'),
 'C11': C('Theorems: decode(encode p) = p for well-formed p (unique decodability), encode is an in-order concatenation, encode injective, PUSH picks the smallest form. compile_script tied to encode by differential runs over spellings (aliases, case, END_/braces, hoisting, comments, value forms, variables, macros, comptime).' + COMMON,
          'text front-end below tokens, macros, comptime: exercised, not modelled', '5/C11', 'Coq encode/decode proofs + differential compile over spellings'),
 'C12': C('Theorems: the decoder is total with a fuel that provably suffices (termination), consumes >= 1 byte per instruction, decode sound (listing names exactly the instructions present), decompile(encode p) = print p, listing round trip parse(print p) = p. decompile_script vs model decompiler on all strings of length <= 2/3, compiler and builder outputs, mutated strings; compile(decompile(b)) = b.' + COMMON,
          'deep nesting: CPython RecursionError (D14)', '5/C12', 'Coq proofs about decode/print/parse + exhaustive short strings + differential'),
 'C13': C('Theorems on the REAL BYTES of the builders (Builders.v, tied to tools.py by correspondence): for all keys, signatures, flags, caches, oracles, run_auth_scripts [witness; lock] is True iff the flag is permitted and the oracle verifies the first 64 signature bytes over the flag-selected message (single-sig, both layouts incl. the SHAKE commitment), and = the greedy matching verdict for m-of-n over arbitrary key/signature lists. Script-hash, graftroot, graftap: differential + direct oracle (honest unlocks, every perturbation rejected).' + COMMON,
          'rejection of foreign keys = verify on another key (oracle); scripthash/graftroot/graftap pairs not yet theorems', '5/C13', 'Coq symbolic execution of the emitted bytecode through run_tape; correspondence of builder bytes and verdicts'),
 'C14': C('Theorems: the delegate-key lock (27 instructions) on its real bytes: True iff begin <= t within slack, t < end, the root verifies (D, begin, end, can) and the delegate verifies the sigfields (oracle), for all inputs; certificate pack/unpack round trip for all field values in range (exact log2 needed: counterexample with the +1 estimate proved). Chain lock: differential + direct oracle over chains 1-4 with every perturbation.' + COMMON,
          'chain lock is not yet a theorem (partial)', '5/C14', 'Coq symbolic execution of the lock bytecode + codec proofs; correspondence'),
 'C15': C('Theorems on the real bytes: PTLC claim (any time) and refund (deadline and slack), HTLC sha256 / shake256: True iff (digest matches and receiver signs) or (digest differs, deadline reached within slack, refund key signs); generic OP_IF_ELSE sub-tape execution lemma. htlc2 layouts and tweaked PTLC: differential + direct oracle on deadline boundaries and cross-pairings.' + COMMON,
          'htlc2 (key committed by hash) and ptlc tweak arithmetic not yet theorems (C17 algebra covers the tweak equation)', '5/C15', 'Coq symbolic execution incl. sub-tapes; correspondence'),
 'C16': C('Theorems: exact result of CHECK_TIMESTAMP / CHECK_EPOCH and _VERIFY forms for all inputs incl. error cases; verdict formula = documented window. Lock builders (after / between, plain and verify forms) exact on their real bytes; the before-lock theorem states exactly what it accepts (D11).' + COMMON,
          'clock = configuration value c_now (pinned in the harness)', '5/C16', 'Coq symbolic execution + lia; boundary-grid differential'),
 'C17': C('Theorems over any commutative ring acting on an abelian group: adapter passes its check, decrypts to a valid signature, t recovered, exact sensitivity characterisations, private variant refuted (D15). Instruction link (AdapterLink.v): for every oracle answering the ed25519 primitives according to the algebra, OP_MAKE_ADAPTER_SIG_PUBLIC/PRIVATE, OP_CHECK_ADAPTER_SIG, OP_DECRYPT_ADAPTER_SIG compute exactly the algebraic definitions (stack, cache writes, frame). Instructions and builders (with/without sigflags) tied by correspondence with real Ed25519.' + COMMON,
          'H-grp: scalars/points form a module (premises of the theorems); negative claims are iff-characterisations, not hardness', '5/C17', 'Coq algebra (ring) + symbolic execution of the adapter instructions against the algebra + correspondence with PyNaCl'),
 'C18': C('Theorems (same algebra): tweak points are prefix sums, every view passes check_setup, final key opens the last lock, release cascade right to left yields exactly the decrypting scalar, wrong hop iff partial sums coincide. setup_amhl / release_left_amhl_lock by correspondence.' + COMMON,
          'H-grp premises', '5/C18', 'Coq induction over the chain + correspondence'),
 'C19': C('Theorems: registry state machine refines sets (active = added and not since removed/reset), invariants (NoDup), order, reset clears, run uses exactly the active entries, errors change nothing. Real module registries vs the model on random histories; history independence of compile/run and immutability of caller dictionaries by direct oracle.' + COMMON,
          'aliases: character validation of add_alias not modelled', '5/C19', 'Coq refinement proof + history differential'),
 'C20': C('Theorems: every unassigned code dispatches to NOP; NOP exactly: signed count, negative -> error, count > depth -> IndexError, else removes count items and nothing else. Soft-fork simulation (SoftFork.v): a VM in which one unassigned code keeps NOP\'s operand and pops and may additionally raise agrees with the old VM on every run in which that op never raised, so whatever it authorises then the old VM authorises too; a raise is never forgotten. All codes x counts x depths by correspondence; (de)compilation as NOPn; fork stream: tools.add_soft_fork installed in the implementation vs the extracted forked model, and the theorem checked on two real runs.' + COMMON,
          'fork op restricted to the documented discipline (NOP operand/pops, then may only raise); premise is semantic (no raise recorded), not syntactic (no TRY)', '5/C20', 'Coq symbolic execution + simulation proof by induction over fuel and programs + exhaustive code/count sweep + fork differential stream'),
}
NA_REASON = 'builder-level theorem file still being proved in this revision; the correspondence stream exists (./check runs) but the property is not claimed yet'

checks = []
for pid in ids:
    if pid in CLAIMS:
        c = CLAIMS[pid]
        checks.append(dict(property_id=pid, quick_cmd='./check %s --tier quick' % pid,
                           thorough_cmd='./check %s --tier thorough' % pid,
                           evidence_file='evidence/%s.json' % pid,
                           replay_cmd_template='./check %s --replay {path}' % pid,
                           engine='coq-model', level_claimed=dict(category='proof', text=c['text'], design_ref=c['ref']),
                           level_note=c['note'], technique=c['technique']))
man = dict(version=1, setup_cmd='sh tools/setup.sh',
           hooks=dict(guard='TAPESCRIPT_VERIF', enable='no hooks are needed: primitives, clock and RNG are wrapped from the harness process',
                      baseline_off_cmd='cd /repo && /venv/bin/python -m pytest -ra -q -p no:cacheprovider --timeout=900 --continue-on-collection-errors',
                      source_commits=[], add_only=True),
           engines=[dict(name='coq-model', path='coq/', serves_properties=sorted(CLAIMS),
                         kind_free_text='Coq 8.16.1 model + theorems; extracted OCaml co-process compared with the implementation')],
           checks=checks,
           notes='See DESIGN.md. Fixes of genuine defects are separate "fix:" commits in /repo, listed in KNOWN_FINDINGS.jsonl.',
           not_applicable=[dict(property_id=p, reason=NA_REASON) for p in ids if p not in CLAIMS])
json.dump(man, open(os.path.join(V, 'MANIFEST.json'), 'w'), indent=1)
print('claimed', sorted(CLAIMS), 'not claimed', len(man['not_applicable']))
