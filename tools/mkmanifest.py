#!/usr/bin/env python3
"""Writes MANIFEST.json from the table below (kept in one place so that it stays valid)."""
import json, os
V = os.path.dirname(os.path.dirname(os.path.abspath(__file__)))
props = [json.loads(l) for l in open(os.path.join(V, 'properties.jsonl'))]
ids = [p['id'] for p in props]

CLAIMS = {
 'C06': dict(text='Executable Coq model of every instruction (92 ops + NOP, sub-tape heap, RETURN flag) written as the formal reading of docs.md/language_spec.md; dispatch proved total against the generated opcode table; conformance of the implementation to that semantics established by differential execution (any disagreement is reported as a failing input).',
             note='model = formal semantics; crypto/hash/float/utf-8 primitives answered by an oracle backed by the real libraries; messages compared by exception class', ref='5/C06',
             technique='Coq model + extraction; differential execution model vs implementation'),
 'C07': dict(text='Theorems for all programs, limits, oracles and fuel: stack depth <= max_items and item size <= max_item_size in every final/raising state and after every action (closure theorem over the action vocabulary); tape bytes immutable, pointer monotone and within [0,len] per activation; reads in bounds. Model tied to code by differential execution + per-instruction monitors on the implementation.',
             note='CPython recursion limit / allocator not modelled (D14 partial); call-depth/loop/termination theorems: see DESIGN', ref='5/C07',
             technique='Coq invariant proofs by induction over programs and fuel + correspondence'),
 'C08': dict(text='Theorem for all programs, nestings, oracles, configurations: every str-keyed cache entry except the control flag keeps the embedder value, in final and raising states, for run_script and run_auth_scripts; proved per action and lifted by the closure theorem. Known finding D13 ("returned" key) proved as a refutation witness.',
             note='plugins/contracts modelled as recorders only (property is stated for none installed)', ref='5/C08',
             technique='Coq relational invariant over the action vocabulary + correspondence'),
 'C10': dict(text='Theorems for every integer n: int_to_bytes n exists, decodes back to n, top bit = sign, two\'s complement range; decode total and injective per length. Hypothesis fl2_ok about the float log2 estimate is validated against math.log2 on every run. Float32 part decided by an exponent-exhaustive sweep (struct not modelled).',
             note='fl2_ok hypothesis (float log2 off by at most +1); float part partial', ref='5/C10',
             technique='Coq arithmetic proofs (lia/nia) + exhaustive and boundary differential sweeps'),
}
NA_REASON = 'check not built yet in this revision (model covers it; theorem file pending)'

checks = []
for pid in ids:
    if pid in CLAIMS:
        c = CLAIMS[pid]
        checks.append(dict(property_id=pid, quick_cmd='./check %s --tier quick' % pid,
                           thorough_cmd='./check %s --tier thorough' % pid,
                           evidence_file='evidence/%s.json' % pid,
                           replay_cmd_template='./check %s --replay {path}' % pid,
                           engine='coq-model', level_claimed=dict(category='proof', text=c['text'], design_ref=c['ref']),
                           level_note=c['note'], technique=c['technique']))
man = dict(version=1, setup_cmd='sh tools/setup.sh',
           hooks=dict(guard='TAPESCRIPT_VERIF', enable='no hooks are needed: primitives, clock and RNG are wrapped from the harness process',
                      baseline_off_cmd='cd /repo && /venv/bin/python -m pytest -ra -q -p no:cacheprovider --timeout=900 --continue-on-collection-errors',
                      source_commits=[], add_only=True),
           engines=[dict(name='coq-model', path='coq/', serves_properties=sorted(CLAIMS),
                         kind_free_text='Coq 8.16.1 model + theorems; extracted OCaml co-process compared with the implementation')],
           checks=checks,
           notes='See DESIGN.md. Fixes of genuine defects are separate "fix:" commits in /repo, listed in KNOWN_FINDINGS.jsonl.',
           not_applicable=[dict(property_id=p, reason=NA_REASON) for p in ids if p not in CLAIMS])
json.dump(man, open(os.path.join(V, 'MANIFEST.json'), 'w'), indent=1)
print('claimed', sorted(CLAIMS), 'not claimed', len(man['not_applicable']))
