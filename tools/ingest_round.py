#!/usr/bin/env python3
"""Take in the finished scratch worktrees of one round of seeded changes: confirm each (suite identical to the baseline, demo fails with /
passes without the change: tools/collect_seeded.sh), keep patch + demo + notes under seeded/<round>-<property>/, write meta.json, remove the
worktree, and run the property's quick check against the change (tools/regress_seeded.py).  usage: ingest_round.py <round> <wt-prefix> [Cxx ...]"""
import json, os, re, subprocess, sys
V = '/verif'
rnd, prefix = sys.argv[1], sys.argv[2]
pids = sys.argv[3:]
done = []
for pid in pids:
    wt = '%s%s' % (prefix, pid)
    if not os.path.exists(wt + '/patch.diff') or not os.path.exists(wt + '/demo.py'):
        print(pid, 'not finished (no patch.diff / demo.py in %s)' % wt); continue
    sid = '%s-%s' % (rnd, pid)
    r = subprocess.run(['sh', V + '/tools/collect_seeded.sh', wt, sid, pid], capture_output=True, text=True)
    out = r.stdout
    suite = re.search(r'== suite with change:\n(.*)', out)
    ex = re.findall(r'exit=(\d+)', out)
    ok = bool(suite) and suite.group(1).startswith('3 failed, 267 passed') and ex[:2] == ['1', '0']
    notes = ''
    try:
        notes = ' '.join(open(V + '/seeded/%s/notes.txt' % sid).read().split())
    except Exception:
        pass
    meta = {"id": sid, "property": pid, "change": notes[:420], "needs_to_manifest": "see notes.txt",
            "produced_by": "independent sub-agent (round %s) given only the property text and a scratch worktree" % rnd.lstrip('S'),
            "confirmed": {"suite": (suite.group(1).split(' in ')[0] if suite else '?') + ' with the change (baseline: 3 failed, 267 passed)',
                          "demo_with_change": "exit %s" % (ex[0] if ex else '?'), "demo_without_change": "exit %s" % (ex[1] if len(ex) > 1 else '?'),
                          "how": "tools/collect_seeded.sh in the scratch worktree"},
            "checks_run": "tools/regress_seeded.py (patch applied to a scratch worktree, ./check <property> with TS_REPO pointing at it; /repo untouched)",
            "result": "pending"}
    if not ok:
        print(sid, 'NOT CONFIRMED:', (suite.group(1) if suite else '?'), ex); meta['confirmed']['note'] = 'NOT CONFIRMED'
    json.dump(meta, open(V + '/seeded/%s/meta.json' % sid, 'w'), indent=1)
    subprocess.run(['git', '-C', '/repo', 'worktree', 'remove', '--force', wt], capture_output=True)
    if ok:
        done.append(sid)
    print(sid, 'confirmed' if ok else 'kept but not confirmed')
if done:
    subprocess.run([sys.executable, V + '/tools/regress_seeded.py'] + done)
    reg = json.load(open(V + '/seeded/REGRESSION.json'))
    for sid in done:
        m = json.load(open(V + '/seeded/%s/meta.json' % sid))
        e = reg.get(sid, {})
        m['result'] = 'first run: ' + (' | '.join(e.get('lines', [])) or 'no output')
        json.dump(m, open(V + '/seeded/%s/meta.json' % sid, 'w'), indent=1)
