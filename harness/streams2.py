"""Scenario-family runner (builders) and the dedicated streams for C01, C02, C03, C09, C20."""
import collections, hashlib, os, random, sys, time

sys.path.insert(0, os.path.dirname(os.path.abspath(__file__)))
import vmstream


def _init():
    global tsh, gen, builders, F, C, T
    import tsh as _t, gen as _g, builders as _b
    tsh, gen, builders = _t, _g, _b
    F, C, T = tsh.F, tsh.C, tsh.T


def _case(scripts, cache, cfg):
    return dict(scripts=[s.hex() for s in scripts], cache=tsh.cache_str(cache, False), cfg=cfg.to_json())


def _norm_label(label):
    import re
    return re.sub(r'byte [0-9a-f#]{1,2}', 'byte #', re.sub(r'[0-9a-f]{6,}', '#', re.sub(r'[+-]?\d+', '#', label)))[:100]


def fam_task(task):
    """task = (family name, seed, rounds)"""
    name, seed, rounds = task
    _init()
    rng = random.Random(seed)
    model = tsh.Model()
    fam = getattr(builders, name)
    stats = collections.Counter()
    labels = collections.Counter()
    dis, viol, samples = [], [], []
    n = 0
    digests = set()
    tagged = collections.Counter()

    def add_viol(d):
        f = d.get('finding')
        if f:
            tagged[f] += 1
            if tagged[f] <= 2:
                viol.append(d)
        elif sum(1 for v in viol if not v.get('finding')) < 8:
            viol.append(d)
    history = []          # (label, scripts, cache, cfg, first result) for the history-independence replay
    for _ in range(rounds):
        try:
            scs = fam(rng)
        except BaseException as e:
            # the scenarios are built with the real builders / helper classes on valid inputs: a raise there is itself a failing input
            import traceback
            stats['scenario-construction-raised'] += 1
            calls_ = [f_.line for f_ in traceback.extract_tb(e.__traceback__) if f_.filename.endswith('builders.py') and f_.name != 'call']
            add_viol(dict(what='building the %s scenarios with the real builders on valid inputs raised %s: %s | the call: %s | %s' %
                          (name, type(e).__name__, str(e)[:200], (calls_[-1] if calls_ else '?')[:300],
                           ' <- '.join(l.strip() for l in traceback.format_exc().splitlines()[-8:] if '^^^' not in l)[:700])))
            continue
        for sc in scs:
            if sc[0] == 'MT':           # model command with the implementation's expected answer
                n += 1
                stats['classes-vs-model:' + sc[1].split(' ', 1)[0]] += 1
                got = model.cmd(sc[1])
                if got != sc[2]:
                    stats['classes-vs-model-differ'] += 1
                    if len(dis) < 5:
                        dis.append(dict(label='helper classes vs model (MerkleTree.v / AMHL.v)', cmd=sc[1][:400], impl=sc[2][:400], model=got[:400]))
                continue
            label, scripts, cache, cfg, exp = sc[:5]
            finding = sc[5] if len(sc) > 5 else None
            explog = sc[6] if len(sc) > 6 else None
            n += 1
            labels[_norm_label(label)] += 1
            if scripts is None:
                stats['direct'] += 1
                if not exp:
                    stats['direct-fail'] += 1
                    add_viol(dict(what='direct fact does not hold: ' + label, finding=finding))
                digests.add(label)
                continue
            if label.startswith('run_script:'):
                # in front of witness + lock a stack-neutral prelude: nothing, a TRY whose body raised (caught), a LOOP that ran once, a
                # definition called once, an IF body — the per-call flags must still govern what follows
                o_ = lambda nm_: bytes([F.opcodes_inverse['OP_' + nm_][0]])
                prelude = rng.choice([b'', b'',
                                      o_('TRY_EXCEPT') + b'\x00\x02\x00' + o_('VERIFY') + b'\x00\x02\x01' + o_('POP0'),
                                      b'\x01' + o_('LOOP') + b'\x00\x02' + o_('POP0') + b'\x00' + o_('POP0'),
                                      o_('DEF') + b'\x09\x00\x02\x01' + o_('POP0') + o_('CALL') + b'\x09',
                                      b'\x01' + o_('IF') + b'\x00\x02\x01' + o_('POP0')])
                scripts = [prelude] + list(scripts)
                stats['run_script-prelude-%d' % len(prelude)] += 1
                st, iline, mline = tsh.compare_script(model, b''.join(scripts), cache, cfg)
                stats[st] += 1
                f__ = iline.split(' | ')
                v = f__[0] == 'done' and len(f__) > 3 and f__[3] == 'ff'
                stats['verdict-true' if v else 'verdict-false'] += 1
                if st == 'differ' and len(dis) < 5:
                    dis.append(dict(label=label, case=dict(script=b''.join(scripts).hex(), cache=tsh.cache_str(cache, False), cfg=cfg.to_json()), impl=iline[:600], model=mline[:600]))
                if exp is not None and v != exp:
                    stats['expectation-fail'] += 1
                    add_viol(dict(what='%s: the run ended with [ff] = %s, the property requires %s' % (label, v, exp),
                                  case=dict(script=b''.join(scripts).hex(), cache=tsh.cache_str(cache, False), cfg=cfg.to_json()), finding=finding))
                continue
            st, iline, mline = tsh.compare_auth(model, scripts, cache, cfg)
            stats[st] += 1
            digests.add(hashlib.sha256(b''.join(scripts) + tsh.cache_str(cache, False).encode()).digest()[:8])
            v = iline.startswith('verdict:1')
            stats['verdict-true' if v else 'verdict-false'] += 1
            if iline.startswith('verdict') and (len(history) < 60 or rng.random() < 0.05):
                history.append((label, scripts, cache, cfg, iline, finding))
            if st == 'differ' and len(dis) < 5:
                dis.append(dict(label=label, case=_case(scripts, cache, cfg), impl=iline[:600], model=mline[:600]))
            if exp is not None and v != exp:
                stats['expectation-fail'] += 1
                add_viol(dict(what='%s: run_auth_scripts gave %s, the property requires %s' % (label, v, exp),
                              case=_case(scripts, cache, cfg), finding=finding))
            if explog is not None and explog != 'maybe':
                log = iline.split(' | ')[5]
                log = '' if log == '-' else log
                if log != explog:
                    stats['log-fail'] += 1
                    add_viol(dict(what='%s: leaf bodies that started %r, expected %r' % (label, log, explog),
                                  case=_case(scripts, cache, cfg), finding=finding))
            if len(samples) < 2:
                samples.append(dict(label=label, case=_case(scripts, cache, cfg), impl=iline[:200]))
            # an embedder may keep ONE dictionary (sigfields + timestamp) for several verifications: after another verification has used it
            # (one that ends through RETURN) it must come back unchanged, and this scenario must give what it gives with a fresh copy
            if rng.random() < 0.12 and iline.startswith('verdict') and 'returned' not in cache:
                import copy as _copy
                shared = _copy.deepcopy(cache)
                shared.setdefault('timestamp', tsh.Pins.now)
                fresh = _copy.deepcopy(shared)
                snap_ = lambda d_: sorted((repr(k_), type(v_).__name__, repr(v_)) for k_, v_ in d_.items())
                s0 = snap_(shared)
                ret_ = bytes([F.opcodes_inverse['OP_RETURN'][0]])
                tsh.impl_run_auth([b'\x01' + ret_], shared, cfg, share=True)
                s1 = snap_(shared)
                r_sh = tsh.impl_run_auth(scripts, shared, cfg, share=True)
                r_fr = tsh.impl_run_auth(scripts, fresh, cfg)
                stats['shared-dict-chains'] += 1
                if s1 != s0:
                    add_viol(dict(what='%s: a verification changed the caller\'s cache dictionary: %s -> %s' % (label, s0[:5], s1[:5]),
                                  case=_case([b'\x01' + ret_], cache, cfg), finding=finding))
                elif r_sh != r_fr and r_sh.startswith('verdict') and r_fr.startswith('verdict'):
                    add_viol(dict(what='%s: %s with the dictionary an earlier verification had used, %s with a fresh copy of the same values'
                                       % (label, r_sh[:100], r_fr[:100]), case=_case(scripts, cache, cfg), finding=finding))
    # history independence: the verdict is a function of (scripts, cache, configuration) — the same inputs run again
    # at the end of the task (after everything else this process has executed) must give the same result
    for label, scripts, cache, cfg, first, finding in history:
        again = tsh.impl_run_auth(scripts, cache, cfg)
        stats['history-replays'] += 1
        if again != first and again.startswith('verdict'):
            stats['history-fail'] += 1
            add_viol(dict(what='%s: the same scripts, cache and configuration gave a different result when run again later '
                               'in the same process: first %s / later %s' % (label, first[:160], again[:160]),
                          case=_case(scripts, cache, cfg), finding=finding))
    # bytes of the real builders vs model/Builders.v (the definitions the builder theorems are about)
    pid = {'c13': 'C13', 'c14': 'C14', 'c15': 'C15', 'c16': 'C16', 'c04': 'C04', 'c05': 'C05', 'c17': 'C17'}.get(name)
    if pid:
        for _ in range(max(1, rounds // 2)):
            try:
                cases_ = builders.bld_cases(rng, only=pid)
            except BaseException as e_:
                # a builder of this property refused arguments its documentation allows (the call is in the traceback)
                import traceback as _tb
                fr_ = [f_ for f_ in _tb.extract_tb(e_.__traceback__) if f_.name == 'bld_cases']
                stats['builder-raised'] += 1
                add_viol(dict(what='a builder of tapescript.tools raised %s: %s on documented arguments; the call: %s'
                              % (type(e_).__name__, str(e_)[:120], (fr_[-1].line if fr_ else '?')[:300])))
                continue
            for p_, cmd, real in cases_:
                if p_ != pid:
                    continue
                n += 1
                stats['builder-bytes'] += 1
                m = model.cmd(cmd)
                if m != 'ok ' + tsh.hx(real):
                    stats['builder-bytes-differ'] += 1
                    if len(dis) < 5:
                        dis.append(dict(label='builder bytes', cmd=cmd[:300], impl=real.hex()[:300], model=m[:300]))
    model.close()
    return dict(n=n, stats=dict(stats), labels=dict(labels), disagreements=dis, violations=viol, samples=samples,
                distinct=len(digests), oracle_calls=model.oracle_calls)


def run_families(names, seed, rounds, nproc):
    tasks = []
    per = max(1, rounds // max(1, nproc // len(names)))
    for nm in names:
        left, k = rounds, 0
        while left > 0:
            c = min(per, left)
            tasks.append((nm, seed * 7919 + hash(nm) % 1000 + k * 104729, c))
            left -= c
            k += 1
    res = vmstream.run_parallel(tasks, nproc, fam_task)
    tot = dict(n=0, stats=collections.Counter(), labels=collections.Counter(), disagreements=[], violations=[],
               samples=[], distinct=0, oracle_calls=0)
    for r in res:
        tot['n'] += r['n']; tot['stats'].update(r['stats']); tot['labels'].update(r['labels'])
        tot['disagreements'] += r['disagreements']; tot['violations'] += r['violations']
        tot['samples'] += r['samples'][:1]; tot['distinct'] += r['distinct']; tot['oracle_calls'] += r['oracle_calls']
    tot['stats'] = dict(tot['stats']); tot['labels'] = dict(tot['labels'])
    return tot


# ------------------------------------------------------------------------------------------- C01
class AuthTrace:
    """Traces a real run_auth_scripts call: per top-level script the executed top-level instruction
    spans, raises, and RETURN instructions executed anywhere during that script."""
    def __init__(self):
        self.scripts = []      # list of dict(spans=[(start,end)], returns=int, raised=bool, tape=Tape)

    def install(self):
        self.saved = (dict(F.opcodes), dict(F.nopcodes), F.run_tape)
        tr = self
        orig_wrapper = F.run_tape

        def rt(tape, stack, cache, additional_flags={}):
            top = tsh._Capture.depth == 0
            if top:
                tr.scripts.append(dict(spans=[], returns=0, raised=False, tape=tape, n=len(tape.data),
                                       count0=tape.callstack_count, defs=tape.definitions, limit=tape.callstack_limit))
            try:
                r = orig_wrapper(tape, stack, cache, additional_flags=additional_flags)
                if top:
                    tr.scripts[-1]['stack_after'] = stack.list()
                    tr.scripts[-1]['count1'] = tape.callstack_count
                return r
            except BaseException:
                if top:
                    tr.scripts[-1]['raised'] = True
                raise
        F.run_tape = rt

        tr.opstack = []
        tr.deep = []

        def wrap(name, fn):
            def w(tape, stack, cache):
                cur = tr.scripts[-1] if tr.scripts else None
                is_top = cur is not None and tape is cur['tape']
                p0 = tape.pointer - 1
                r0 = cur['returns'] if cur is not None else 0
                if cur is not None and name == 'OP_RETURN':
                    cur['returns'] += 1
                    # a RETURN whose enclosing instructions are only IF / IF_ELSE / TRY_EXCEPT bodies (which hand it on) ends the script
                    if all(fr_['name'] in ('OP_IF', 'OP_IF_ELSE', 'OP_TRY_EXCEPT') for fr_ in tr.opstack):
                        cur['must_end'] = True
                    # ... and, at any depth, it ends every tape on the way out as far as the bodies around it hand it on
                    for fr_ in reversed(tr.opstack):
                        if fr_['name'] in ('OP_IF', 'OP_IF_ELSE', 'OP_TRY_EXCEPT'):
                            fr_['must_end'] = True
                        else:
                            break
                if is_top:
                    cur['must_end'] = cur.get('must_end', False) if name == 'OP_RETURN' else False
                fr = dict(name=name, must_end=False)
                tr.opstack.append(fr)
                ok_ = False
                try:
                    r_ = fn(tape, stack, cache)
                    ok_ = True
                    return r_
                finally:
                    tr.opstack.pop()
                    if ok_ and fr['must_end'] and tape.pointer != len(tape.data) and len(tr.deep) < 3:
                        tr.deep.append('a RETURN executed inside %s (offset %d of the tape %s) with nothing but IF / IF_ELSE / TRY / EXCEPT bodies between them, '
                                       'yet that tape went on at offset %d of %d' % (name, p0, tape.data.hex()[:80], tape.pointer, len(tape.data)))
                    if is_top:
                        cur['spans'].append((p0, tape.pointer, name, r0, cur['returns'], bool(cur.get('must_end'))))
            return w
        for k, (n, fn) in list(F.opcodes.items()):
            F.opcodes[k] = (n, wrap(n, fn))
        for k, (n, fn) in list(F.nopcodes.items()):
            F.nopcodes[k] = (n, wrap(n, fn))

    def uninstall(self):
        F.opcodes.clear(); F.opcodes.update(self.saved[0])
        F.nopcodes.clear(); F.nopcodes.update(self.saved[1])
        F.run_tape = self.saved[2]


def _enc_end(name, data, a):
    """end offset of the encoding of a control instruction starting at a (None: not a control instruction)"""
    u16 = lambda o: int.from_bytes(data[o:o + 2], 'big')
    try:
        if name in ('OP_IF', 'OP_LOOP'):
            return a + 3 + u16(a + 1)
        if name in ('OP_IF_ELSE', 'OP_TRY_EXCEPT'):
            l1 = u16(a + 1)
            return a + 5 + l1 + u16(a + 3 + l1)
        if name == 'OP_EVAL':
            return a + 1
        if name == 'OP_MERKLEVAL':
            return a + 33
        if name == 'OP_TAPROOT':
            return a + 2
        if name == 'OP_CALL':
            return a + 2
    except Exception:
        return None
    return None


def c01_direct(scripts, cache_vals, cfg):
    """the property's own statement evaluated on a traced real run; returns list of violation texts"""
    import copy
    cache_vals = copy.deepcopy(cache_vals)
    log = tsh.Log()
    tsh.Pins.ridx = 0
    tsh.Pins.now = cfg.now
    tsh._Capture.top = None
    tsh._Capture.depth = 0
    tr = AuthTrace()
    del tsh.WatchDeque.drops[:]
    tr.install()
    v = None
    try:
        with tsh.Watch():
            try:
                v = F.run_auth_scripts(list(scripts), cache_vals, cfg.contract_objs(log), cfg.plugins(log),
                                       cfg.max_items, cfg.max_item_size, cfg.limit)
            except tsh.ImplTimeout:
                raise
            except BaseException as e:
                return ['run_auth_scripts raised ' + type(e).__name__]
    finally:
        tr.uninstall()
    if tsh.Watch.fired or v is None:
        return ['run_auth_scripts did not finish within the per-case watchdog']
    out = []
    if type(v) is not bool:
        out.append('run_auth_scripts returned a non-bool')
    if tsh.WatchDeque.drops:
        out.append('the verdict %s was computed on a stack that silently lost items: %s' % (v, tsh.WatchDeque.drops[0]))
    stack = tsh._Capture.top[1] if tsh._Capture.top else None
    ran_all = len(tr.scripts) == len(scripts) and not any(s['raised'] for s in tr.scripts)
    for k, s in enumerate(tr.scripts):
        if s['raised']:
            continue
        data = s['tape'].data
        pos = 0
        for a, b, name, r0, r1, must_end in s['spans']:
            if must_end and b != s['n'] and not s['raised']:
                out.append('script %d: a RETURN executed inside %s at offset %d with nothing but IF / IF_ELSE / TRY / EXCEPT bodies around it, '
                           'yet the script went on at offset %d of %d' % (k, name, a, b, s['n']))
                break
            if a != pos:
                out.append('script %d: top-level execution not contiguous at offset %d (expected %d)' % (k, a, pos))
                break
            pos = b
            end = _enc_end(name, data, a)
            if end is not None and b != end and r1 == r0:
                # the pointer left the instruction's own encoding although no RETURN instruction ran inside it
                out.append('script %d: %s at offset %d ended the script (pointer %d, instruction ends at %d) although '
                           'no RETURN executed inside it: the rest of the script was skipped' % (k, name, a, b, end))
                break
        else:
            if pos != s['n']:
                out.append('script %d: stopped at offset %d of %d' % (k, pos, s['n']))
    out += [t_ for t_ in getattr(tr, 'deep', []) if not any(t_[:60] == o_[:60] for o_ in out)][:2]
    # what a later script inherits: the call budget already spent, the definitions, the limit
    for k in range(1, len(tr.scripts)):
        a, b = tr.scripts[k - 1], tr.scripts[k]
        if 'count1' in a and b['count0'] != a['count1']:
            out.append('script %d starts with call count %s, but script %d ended with %s: the call budget spent so far '
                       'is not carried over' % (k, b['count0'], k - 1, a['count1']))
        # (compared key by key on the tape objects' identity and bytes: a definition may call itself, so == on Tape objects may not end)
        if b['defs'] is not a['defs'] and (set(b['defs']) != set(a['defs']) or
                                           any(b['defs'][h_] is not a['defs'][h_] and b['defs'][h_].data != a['defs'][h_].data for h_ in a['defs'])):
            out.append('script %d does not see the definitions of script %d' % (k, k - 1))
        if b['limit'] != a['limit']:
            out.append('script %d runs under callstack limit %s, script %d under %s' % (k, b['limit'], k - 1, a['limit']))
    # verdict exactness
    expected = ran_all and tr.scripts[-1].get('stack_after') == [b'\xff']
    if bool(v) != expected:
        out.append('verdict %s but every-script-ran-without-raising=%s and final stack=%s'
                   % (v, ran_all, [x.hex() for x in (tr.scripts[-1].get('stack_after') or [])][:4] if tr.scripts else None))
    return out, v, tr


def c01_task(task):
    seed, n = task
    _init()
    rng = random.Random(seed)
    model = tsh.Model()
    stats = collections.Counter()
    dis, viol, samples = [], [], []
    digests = set()
    contracts = vmstream.CONTRACTS
    ret = bytes([F.opcodes_inverse['OP_RETURN'][0]])
    t0 = time.time()
    for i in range(n):
        if time.time() - t0 > float(os.environ.get('VERIF_STREAM_BUDGET', '150')):
            stats['stopped-on-time-budget'] += 1
            break
        cfg = tsh.Cfg(max_items=rng.choice([1024, 1024, 8]), max_item_size=rng.choice([1024, 1024, 40]),
                      limit=rng.choice([128, 128, 4]), contracts=contracts,
                      sigext=rng.choice([(), (), (1,)]))
        g = gen.Gen(rng, contracts=contracts, max_depth=3)
        k = rng.choice([1, 2, 2, 2, 3, 4])
        style = rng.random()
        scripts = []
        for j in range(k):
            if style < 0.55:
                s = g.program(0, 5)
                # witnesses that return early at some nesting depth, define functions, burn call budget, leave junk
                if j < k - 1 and rng.random() < 0.5:
                    d = rng.randint(0, 3)
                    body = ret
                    for _ in range(d):
                        kind = rng.choice(['IF', 'TRY', 'LOOP', 'EVAL', 'IFELSE', 'DEFCALL'])
                        if kind == 'IF': body = b'\x01' + gen.op('IF') + gen.u16(len(body)) + body
                        elif kind == 'IFELSE': body = b'\x00' + gen.op('IF_ELSE') + gen.u16(0) + gen.u16(len(body)) + body
                        elif kind == 'TRY': body = gen.op('TRY_EXCEPT') + gen.u16(len(body)) + body + gen.u16(0)
                        elif kind == 'LOOP': body = b'\x01' + gen.op('LOOP') + gen.u16(len(body)) + body
                        elif kind == 'EVAL': body = gen.push(body) + gen.op('EVAL')
                        else: body = gen.op('DEF') + b'\x05' + gen.u16(len(body)) + body + gen.op('CALL') + b'\x05'
                    s = s + body + (g.program(0, 2) if rng.random() < 0.5 else b'')
                if j == k - 1 and rng.random() < 0.6:
                    # a lock whose tail must run: IF/TRY body then verify-style tail
                    s = s + rng.choice([b'\x01' + gen.op('IF') + gen.u16(1) + b'\x01' + gen.op('VERIFY') + b'\x00',
                                        gen.op('TRY_EXCEPT') + gen.u16(1) + b'\x01' + gen.u16(0) + gen.op('VERIFY') + b'\x01',
                                        b'\x01', b'\x01\x01' + gen.op('EQUAL'), b''])
            elif style < 0.75:
                s = g.raw_program(12)
            else:
                s = rng.choice([b'\x01', b'\x00', b'\x01' + ret, b'', b'\x01\x01', gen.push(b'\xff'), gen.push(b'\xff\x00')])
            scripts.append(s)
        if not scripts[0] and rng.random() < 0.5:
            scripts[0] = b'\x01'
        cv = g.cache_vals()
        if rng.random() < 0.08:
            cv['returned'] = rng.choice([True, True, False, 0, 1, b'', b'x', ''])      # an entry under the VM's own control key, of any truth value
        if i % 20 == 7:
            # directed: a lock whose IF / TRY is followed by the instructions that decide, behind scripts that contain no control flow at
            # all or that end through RETURN, with and without an embedder entry under the control key -- the tail of the lock must run
            op_ = gen.op
            tails = [b'\x01' + op_('IF') + gen.u16(1) + b'\x01' + b'\x00' + op_('VERIFY'),                      # true if { true } false verify
                     op_('IF') + gen.u16(0) + op_('POP0') + b'\x00',                                            # if { } pop0 false
                     op_('TRY_EXCEPT') + gen.u16(1) + b'\x01' + gen.u16(0) + op_('POP0') + op_('POP0') + b'\x00',    # try { true } except { } pop0 pop0 false
                     b'\x01' + op_('IF_ELSE') + gen.u16(1) + b'\x01' + gen.u16(1) + b'\x00' + op_('NOT')]        # true if { true } else { false } not
            plain = [gen.push(b'\x01') + op_('POP0'), b'\x01\x01', gen.push(b'junk'), b'\x01']
            mids = [b'\x01' + ret, b'\x01\x01' + op_('IF') + gen.u16(1) + ret, b'\x01' + op_('TRY_EXCEPT') + gen.u16(1) + ret + gen.u16(0)]
            scripts = [rng.choice(plain)] + ([rng.choice(mids)] if rng.random() < 0.6 else []) + ([rng.choice(plain + mids)] if rng.random() < 0.3 else []) + [rng.choice(tails)]
            cv = dict(cv)
            cv.pop('returned', None)
            if rng.random() < 0.5:
                cv['returned'] = rng.choice([False, 0, b'', '', None, True, 1])
            cfg = tsh.Cfg(contracts=contracts)
        st, iline, mline = tsh.compare_auth(model, scripts, cv, cfg)
        stats[st] += 1
        stats['verdict-true' if iline.startswith('verdict:1') else 'verdict-false'] += 1
        digests.add(hashlib.sha256(b'|'.join(scripts)).digest()[:8])
        case = _case(scripts, cv, cfg)
        if st == 'differ' and len(dis) < 5:
            dis.append(dict(case=case, impl=iline[:500], model=mline[:500]))
        if st == 'differ' and iline.startswith('verdict:') and mline.startswith('verdict:') and iline[:9] != mline[:9]:
            # the Coq model is the formal reading of the documented instruction semantics: when the two VERDICTS differ on a concrete
            # list of scripts, that list is a failing input of "the verdict is True exactly when every script ran to its end ..."
            stats['verdict-differs-from-formal-semantics'] += 1
            if len(viol) < 8:
                viol.append(dict(what='run_auth_scripts gives %s, the documented semantics (formal model) gives %s on these scripts' % (iline[:9], mline[:9]), case=case))
        r = c01_direct(scripts, cv, cfg)
        if isinstance(r, list):
            texts, v = r, None
        else:
            texts, v, tr = r
        if 'returned' in cv:
            texts = [t for t in texts if 'skipped' not in t]      # embedder supplied the control flag itself (D13)
        if texts:
            stats['direct-fail'] += 1
            if len(viol) < 8:
                viol.append(dict(what='; '.join(texts)[:400], case=case))
        if len(samples) < 2:
            samples.append(dict(case=case, impl=iline[:160]))
        # an embedder may keep ONE cache dictionary (sigfields + timestamp) and hand it to several verifications: the second
        # verification must give what it gives with a fresh copy, and the dictionary must come back unchanged
        if i % 4 == 0 and 'returned' not in cv and not iline.startswith(('timeout', 'recursion')):
            import copy as _copy
            base = _copy.deepcopy(cv)
            if rng.random() < 0.7:
                base['timestamp'] = tsh.Pins.now + rng.choice([0, 1, -5])
            first = rng.choice([[b'\x01' + ret], [b'\x01', ret + b'\x00'], [gen.push(b'x') + ret], scripts])
            shared = _copy.deepcopy(base)
            snap = lambda d: sorted((repr(k), type(v).__name__, repr(v)) for k, v in d.items())
            s0 = snap(shared)
            tsh.impl_run_auth(first, shared, cfg, share=True)
            s1 = snap(shared)
            second = scripts if first is not scripts else [b'\x01' + gen.op('IF') + gen.u16(1) + b'\x01' + gen.op('POP0') + b'\x00']
            r_shared = tsh.impl_run_auth(second, shared, cfg, share=True)
            r_fresh = tsh.impl_run_auth(second, base, cfg)
            stats['shared-dict-chains'] += 1
            bad = []
            if s1 != s0:
                bad.append('run_auth_scripts changed the caller\'s cache dictionary: %s -> %s' % (s0[:6], s1[:6]))
            if r_shared != r_fresh and not r_shared.startswith(('timeout', 'recursion')) and not r_fresh.startswith(('timeout', 'recursion')):
                bad.append('a verification gave %s with the dictionary an earlier verification had used, %s with a fresh copy of the same values'
                           % (r_shared[:120], r_fresh[:120]))
            if bad:
                stats['direct-fail'] += 1
                if len(viol) < 8:
                    viol.append(dict(what='; '.join(bad)[:600], case=dict(first_scripts=[x.hex() for x in first], scripts=[x.hex() for x in second],
                                     cache=tsh.cache_str(base, False), cfg=cfg.to_json())))
    model.close()
    return dict(n=n, stats=dict(stats), disagreements=dis, violations=viol, samples=samples, distinct=len(digests),
                oracle_calls=model.oracle_calls, labels={})


def run_tasks(fn, seed, total, nproc, chunk):
    tasks, k, left = [], 0, total
    while left > 0:
        c = min(chunk, left)
        tasks.append((seed * 1000003 + k, c))
        left -= c; k += 1
    return run_parallel_tasks(fn, tasks, nproc)


def run_parallel_tasks(fn, tasks, nproc):
    res = vmstream.run_parallel(tasks, nproc, fn)
    tot = dict(n=0, stats=collections.Counter(), labels=collections.Counter(), disagreements=[], violations=[],
               samples=[], distinct=0, oracle_calls=0)
    for r in res:
        tot['n'] += r['n']; tot['stats'].update(r['stats']); tot['labels'].update(r.get('labels', {}))
        tot['disagreements'] += r['disagreements']; tot['violations'] += r['violations']
        tot['samples'] += r['samples'][:1]; tot['distinct'] += r['distinct']; tot['oracle_calls'] += r['oracle_calls']
    tot['stats'] = dict(tot['stats']); tot['labels'] = dict(tot['labels'])
    return tot


# ------------------------------------------------------------------------------------------- C09
def _ctxs():
    """nesting contexts: name -> function(body bytes) -> bytes"""
    op, u16, push = gen.op, gen.u16, gen.push
    from builders import PUBS
    P = PUBS[0]

    def merk(b):
        sib = b'sibling'
        c = hashlib.sha256(hashlib.sha256(b).digest()).digest()
        h = hashlib.sha256(sib).digest()
        root = bytes(x ^ y for x, y in zip(c, h))
        return push(sib) + push(b) + op('MERKLEVAL') + root

    def tap(b):
        t = F.clamp_scalar(hashlib.sha256(P + hashlib.sha256(b).digest()).digest())
        root = tsh.nb.crypto_core_ed25519_add(tsh.nb.crypto_scalarmult_ed25519_base_noclamp(t), P)
        return push(b) + push(P) + push(root) + op('TAPROOT') + b'\x00'
    return {
        'if': lambda b: b'\x01' + op('IF') + u16(len(b)) + b,
        'if_else:if': lambda b: b'\x01' + op('IF_ELSE') + u16(len(b)) + b + u16(0),
        'if_else:else': lambda b: b'\x00' + op('IF_ELSE') + u16(0) + u16(len(b)) + b,
        'try': lambda b: op('TRY_EXCEPT') + u16(len(b)) + b + u16(0),
        'except': lambda b: op('TRY_EXCEPT') + u16(2) + b'\x00' + op('VERIFY') + u16(len(b)) + b,
        'loop': lambda b: b'\x01' + op('LOOP') + u16(len(b) + 1) + b + b'\x00',
        'def/call': lambda b: op('DEF') + b'\x07' + u16(len(b)) + b + op('CALL') + b'\x07',
        # self-recursion: the calling tape IS the definition being called; the probe runs exactly once
        'recursion:second-activation': lambda b: b'\x00' + op('DEF') + b'\x07' + u16(len(b) + 7) +
            (op('IF') + u16(len(b) + 1) + b + op('RETURN') + b'\x01' + op('CALL') + b'\x07') + op('CALL') + b'\x07',
        'recursion:after-inner-call': lambda b: b'\x00' + op('DEF') + b'\x07' + u16(len(b) + 7) +
            (op('IF') + u16(1) + op('RETURN') + b'\x01' + op('CALL') + b'\x07' + b) + op('CALL') + b'\x07',
        'recursion:from-loop': lambda b: b'\x00' + op('DEF') + b'\x07' + u16(len(b) + 11) +
            (op('IF') + u16(len(b) + 1) + b + op('RETURN') + b'\x01' + op('LOOP') + u16(3) + op('CALL') + b'\x07' + b'\x00') +
            op('CALL') + b'\x07',
        'eval': lambda b: push(b) + op('EVAL'),
        'merkleval': merk,
        'taproot-script': tap,
    }


def _probes():
    op, push, pushi = gen.op, gen.push, gen.pushi
    from builders import SEEDS, PUBS
    mark = lambda k: b'\x01' + op('WRITE_CACHE') + bytes([len(k)]) + k + b'\x01'     # true -> cache[k] = [ff]
    sig0 = tsh.SigningKey(SEEDS[1]).sign(b'abc').signature
    return {
        # name: (bytes, flag key controlling a cache write or None, cache key written, sig-ops executed)
        'derive_point(flag2)': (push(bytes(range(32))) + op('DERIVE_POINT') + op('POP0'), 2, b'X', 0),
        'derive_scalar(flag1)': (push(SEEDS[0]) + op('DERIVE_SCALAR') + op('POP0'), 1, b'x', 0),
        'sign_stack(flag9)': (push(b'msg') + push(SEEDS[0]) + op('SIGN_STACK') + op('POP0'), 9, b's', 0),
        'invoke(flag0)': (push(b'a') + pushi(1) + push(b'c1') + op('INVOKE') + op('POP0'), 0, b'IR', 0),
        'adapter(flags3,4,6,8)': (push(SEEDS[0]) + push(b'm') + push(PUBS[2]) + op('MAKE_ADAPTER_SIG_PUBLIC') + op('POP1') + b'\x02', 8, b'sa', 0),
        'get_message': (op('GET_MESSAGE') + b'\x00' + op('POP0') + mark(b'm1'), None, None, 1),
        'sign+check_sig': (push(SEEDS[0]) + op('SIGN') + b'\x00' + push(PUBS[0]) + op('CHECK_SIG') + b'\x00' + op('POP0') + mark(b'm2'), None, None, 2),
        'check_sig_verify': (push(sig0) + push(PUBS[1]) + op('CHECK_SIG_VERIFY') + b'\x00' + mark(b'm3'), None, None, 1),
        'multisig': (push(sig0) + push(PUBS[1]) + push(PUBS[2]) + op('CHECK_MULTISIG') + b'\x00\x01\x02' + op('POP0') + mark(b'm4'), None, None, 1),
        'check_template(flag10)': (push(b'abc') + op('CHECK_TEMPLATE') + b'\x01' + op('POP0') + mark(b'm5'), 10, None, 1),
        # the RESULT is stored (cache[m6] / cache[m7]), so a threshold that differs at some depth changes the final state
        'check_timestamp': (push((tsh.Pins.now - 5).to_bytes(5, 'big')) + op('CHECK_TIMESTAMP') + op('WRITE_CACHE') + b'\x02m6\x01', None, None, 0),
        'check_epoch': (push((tsh.Pins.now + 30).to_bytes(5, 'big')) + op('CHECK_EPOCH') + op('WRITE_CACHE') + b'\x02m7\x01', None, None, 0),
        'eval': (push(b'\x01') + op('EVAL') + op('POP0') + mark(b'm8'), None, None, 0),
        'taproot-keypath': (push(sig0) + push(PUBS[1]) + op('TAPROOT') + b'\x00' + op('POP0') + mark(b'm9'), None, None, 1),
        'set_flag': (op('SET_FLAG') + b'\x01\x02' + mark(b'mA'), None, None, 0),
        'unset_flag': (op('UNSET_FLAG') + b'\x01\x02' + push(bytes(range(32))) + op('DERIVE_POINT') + op('POP0') + mark(b'mB'), None, None, 0),
    }


def c09_cases(depth):
    ctx = _ctxs()
    names = list(ctx)
    combos = [()]
    for d in range(1, depth + 1):
        combos += [c + (n,) for c in combos if len(c) == d - 1 for n in names]
    return combos


C09_CFGS = [
    dict(), dict(flags={2: False}), dict(flags={1: False, 9: False, 0: False}), dict(flags={8: False, 3: False, 10: False}),
    dict(sigext=(1,)), dict(sigext=(1, 2), flags={10: False}), dict(flags={'disallow_OP_EVAL': True}),
    dict(flags={'eval_return': True}), dict(flags={'ts_threshold': 3, 'epoch_threshold': 3}),
    dict(sigext=(4,), ctplugins=((1, 'eq'),), flags={2: False, 9: False}),
    # the same plugins registered VM-wide (add_plugin at start-up) instead of being passed to the call
    dict(sigext=(1,), vmwide=True), dict(sigext=(1, 2), ctplugins=((1, 'eq'),), vmwide=True, flags={10: True}),
]


def c09_task(task):
    seed, combos = task
    _init()
    model = tsh.Model()
    ctx = _ctxs()
    probes = _probes()
    stats = collections.Counter()
    dis, viol, samples = [], [], []
    n = 0
    rng = random.Random(seed)
    # the execution timestamp is 10 s ahead of the verifier clock: inside the default slack (60), outside a slack of 3
    sf = {'sigfield1': b'abc', 'sigfield2': b'xyz', 'timestamp': tsh.Pins.now + 10}
    top_level = {}
    # callbacks that act on the registries or on their tape while a run is in progress (once per task)
    for v_ in tsh.reentrancy_probes():
        stats['direct-fail'] += 1
        viol.append(v_)
    stats['reentrancy-probes'] += 1

    def result_keys(line):
        f = line.split(' | ')
        return sorted(e for e in (f[4].split(',') if len(f) > 4 else []) if e.startswith(('b6d36=', 'b6d37=')))
    for combo in combos:
        for pname, (pb, fkey, ckey, nsig) in probes.items():
            for cd in (C09_CFGS if len(combo) <= 1 else rng.sample(C09_CFGS, 3)):
                cfg = tsh.Cfg(contracts=vmstream.CONTRACTS, **cd)
                body = pb
                for c in reversed(combo):
                    body = ctx[c](body)
                if len(body) > 1000:
                    continue
                n += 1
                st, iline, mline = tsh.compare_script(model, body, sf, cfg)
                stats[st] += 1
                case = dict(script=body.hex(), cache=tsh.cache_str(sf, False), cfg=cfg.to_json(), nesting='/'.join(combo) or 'top', probe=pname)
                if st == 'differ' and len(dis) < 5:
                    dis.append(dict(case=case, impl=iline[:500], model=mline[:500]))
                f = iline.split(' | ')
                if len(f) < 6:
                    continue
                # (e) time constraints give the same result at every depth as at top level under the same configuration
                if pname in ('check_timestamp', 'check_epoch') and combo:
                    key = (pname, repr(sorted(cd.items(), key=repr)))
                    if key not in top_level:
                        top_level[key] = result_keys(tsh.impl_run_script(pb, sf, cfg))
                    got_r = result_keys(iline)
                    if got_r and got_r != top_level[key]:
                        stats['direct-fail'] += 1
                        if len(viol) < 8:
                            viol.append(dict(what='%s inside %s gives %s, at top level under the same configuration %s'
                                             % (pname, '/'.join(combo), got_r, top_level[key]), case=case))
                cache_f, log_f = f[4], f[5]
                keys = set(e.split('=')[0] for e in cache_f.split(','))
                evalish = any(c in ('eval', 'merkleval', 'taproot-script') for c in combo) or pname == 'eval'
                # (a) a flag the embedder turned off stays off at every nesting level
                if fkey is not None and ckey is not None and cfg.flags.get(fkey, True) is False:
                    if ('b' + ckey.hex()) in keys:
                        stats['direct-fail'] += 1
                        if len(viol) < 8:
                            viol.append(dict(what='flag %r is off but %r was written inside %s' % (fkey, ckey, '/'.join(combo) or 'top'), case=case))
                # (b) the signature-extension plugin runs exactly once before every signature-related instruction
                marker = {'get_message': 'm1', 'sign+check_sig': 'm2', 'check_sig_verify': 'm3', 'multisig': 'm4',
                          'check_template(flag10)': 'm5', 'taproot-keypath': 'm9'}.get(pname)
                if marker and ('b' + marker.encode().hex()) in keys and 'loop' not in combo:
                    want = nsig * len(cfg.sigext)
                    if pname == 'check_template(flag10)' and cfg.flags.get(10, True) is False:
                        want = 0
                    got = sum(1 for e in log_f.split(',') if e.startswith('x'))
                    if got != want:
                        stats['direct-fail'] += 1
                        if len(viol) < 8:
                            viol.append(dict(what='signature-extension plugins ran %d times for %d signature instruction(s) inside %s (expected %d)'
                                             % (got, nsig, '/'.join(combo) or 'top', want), case=case))
                # (c) a disallowed instruction stays disallowed
                if 'disallow_OP_EVAL' in cfg.flags and evalish:
                    m8 = 'b' + b'm8'.hex()
                    inner_ran = any(('b' + mk.encode().hex()) in keys for mk in ('m1', 'm2', 'm3', 'm4', 'm5', 'm6', 'm7', 'm8', 'm9', 'mA', 'mB')) \
                        or (ckey is not None and ('b' + ckey.hex()) in keys)
                    # the probe sits inside (or is) an EVAL-like construct: it must not have run unless an outer
                    # non-eval context swallowed nothing; only check when every context is eval-like or the probe is eval
                    if inner_ran and (pname == 'eval' or (combo and combo[-1] in ('eval', 'merkleval', 'taproot-script'))):
                        stats['direct-fail'] += 1
                        if len(viol) < 8:
                            viol.append(dict(what='OP_EVAL is disallowed but code ran through it inside %s' % ('/'.join(combo) or 'top'), case=case))
                # (f) a registered contract stays reachable: wherever the probe runs, OP_INVOKE reaches contract c1 (whatever kind of
                # object the embedder registered under that id)
                if pname == 'invoke(flag0)' and not ('disallow_OP_EVAL' in cfg.flags and evalish):
                    if not any(e.startswith('v6331:') for e in log_f.split(',')):
                        stats['direct-fail'] += 1
                        if len(viol) < 8:
                            viol.append(dict(what='contract c1 is registered (%s object) but OP_INVOKE did not reach it inside %s: %s'
                                             % (type(cfg.contract_objs(tsh.Log())[b'c1']).__name__, '/'.join(combo) or 'top', f[0]), case=case))
                # (d) documented flag instructions (known finding D7)
                if pname == 'set_flag' and ('b' + b'mA'.hex()) not in keys and not combo:
                    viol.append(dict(what='OP_SET_FLAG x02 raised instead of setting integer flag 2', case=case, finding='D7'))
                if len(samples) < 2:
                    samples.append(dict(case=case, impl=iline[:160]))
    model.close()
    return dict(n=n, stats=dict(stats), disagreements=dis, violations=viol, samples=samples, distinct=n,
                oracle_calls=model.oracle_calls, labels={})


def run_c09(seed, depth, nproc):
    _init()
    combos = c09_cases(depth)
    chunks = [combos[i::nproc] for i in range(nproc)]
    tasks = [(seed + i, ch) for i, ch in enumerate(chunks) if ch]
    res = vmstream.run_parallel(tasks, nproc, c09_task)
    tot = dict(n=0, stats=collections.Counter(), labels={}, disagreements=[], violations=[], samples=[], distinct=0, oracle_calls=0)
    for r in res:
        tot['n'] += r['n']; tot['stats'].update(r['stats'])
        tot['disagreements'] += r['disagreements']; tot['violations'] += r['violations']
        tot['samples'] += r['samples'][:1]; tot['distinct'] += r['distinct']; tot['oracle_calls'] += r['oracle_calls']
    tot['stats'] = dict(tot['stats'])
    tot['contexts'] = len(combos)
    return tot


# ------------------------------------------------------------------------------------------- C02
def msg_spec(flag, cache):
    m = b''
    for i in range(1, 9):
        k = 'sigfield%d' % i
        if k in cache and not (flag >> (i - 1)) & 1:
            m += cache[k]
    return m


def nacl_valid(key, msg, sig):
    try:
        tsh.VerifyKey(key).verify(msg, sig)
        return True
    except BaseException:
        return False


def c02_task(task):
    seed, n = task
    _init()
    from builders import SEEDS, PUBS
    rng = random.Random(seed)
    model = tsh.Model()
    op, push = gen.op, gen.push
    stats = collections.Counter()
    dis, viol, samples = [], [], []
    digests = set()
    cfg = tsh.Cfg()
    # "all single-bit corruptions of key / signature / covered field": one honest (key, signature, fields) triple per task, every
    # bit of the key, of the 64 signature bytes and of a covered field flipped in turn — CHECK_SIG must not answer true
    k0 = rng.randrange(len(SEEDS))
    sf0 = {'sigfield1': bytes(rng.getrandbits(8) for _ in range(5)), 'sigfield3': bytes(rng.getrandbits(8) for _ in range(3))}
    sig0 = tsh.SigningKey(SEEDS[k0]).sign(msg_spec(0, sf0)).signature

    def accepted(sig_, key_, cache_):
        try:
            _, st_, _ = tsh.F.run_script(push(sig_) + push(key_) + op('CHECK_SIG') + b'\x00', dict(cache_))
            return st_.get() == b'\xff'
        except BaseException:
            return False
    stats['bit-sweep: honest accepted'] += accepted(sig0, PUBS[k0], sf0)
    bad = [] if accepted(sig0, PUBS[k0], sf0) else ['honest triple rejected']
    for nm_, v_ in (('key', PUBS[k0]), ('signature', sig0), ('sigfield1', sf0['sigfield1'])):
        for bit in range(len(v_) * 8):
            w_ = bytearray(v_); w_[bit // 8] ^= 1 << (bit % 8); w_ = bytes(w_)
            stats['bit-sweep'] += 1
            if accepted(w_ if nm_ == 'signature' else sig0, w_ if nm_ == 'key' else PUBS[k0], dict(sf0, sigfield1=w_) if nm_ == 'sigfield1' else sf0):
                bad.append('%s bit %d' % (nm_, bit))
    if bad:
        stats['direct-fail'] += 1
        viol.append(dict(what='single-bit corruption accepted by CHECK_SIG: %s (key %s, signature %s, sigfield1 %s, sigfield3 %s)' %
                         (bad[:6], PUBS[k0].hex(), sig0.hex(), sf0['sigfield1'].hex(), sf0['sigfield3'].hex()),
                         case=dict(key=PUBS[k0].hex(), signature=sig0.hex(), cache=tsh.cache_str(sf0, False))))
    def _ext(tape, stack, cache):          # a signature extension an embedder passes for ONE call: it rewrites the covered fields
        for k_ in list(cache):
            if isinstance(k_, str) and k_.startswith('sigfield'):
                cache[k_] = b'EXT:' + bytes(cache[k_])
    plug0 = {k_: list(v_) for k_, v_ in tsh.F._plugins.items()}
    for it in range(n):
        if it % 40 == 0:
            # ... such a call happens now and then in the life of the process; the cases that follow pass no plugins
            try:
                tsh.F.run_script(op('GET_MESSAGE') + b'\x00', {'sigfield1': b'abc'}, plugins={'signature_extensions': [_ext]})
                tsh.F.run_auth_scripts([op('GET_MESSAGE') + b'\x00' + op('POP0') + b'\x01'], {'sigfield1': b'abc'}, plugins={'signature_extensions': [_ext]})
            except BaseException:
                pass
            now_ = {k_: list(v_) for k_, v_ in tsh.F._plugins.items()}
            stats['per-call-plugin-runs'] += 1
            if now_ != plug0:
                stats['direct-fail'] += 1
                if len(viol) < 8:
                    viol.append(dict(what='a plugin passed to ONE run_script / run_auth_scripts call is still registered afterwards: module plugin table %r -> %r'
                                     % ({k_: len(v_) for k_, v_ in plug0.items()}, {k_: len(v_) for k_, v_ in now_.items()}),
                                     case=dict(script=(op('GET_MESSAGE') + b'\x00').hex(), cache='s7369676669656c6431=b616263', note='run with plugins={signature_extensions: [ext]}, then look at functions._plugins')))
        if it % 10 == 5:
            # a signature extension that REWRITES the covered fields (not idempotent) in force, passed to the call or registered VM-wide:
            # GET_MESSAGE, SIGN and CHECK_SIG (each in a run of its own, on a fresh copy of the fields) must still cover the same bytes
            vmw_ = rng.random() < 0.5
            fl_ = rng.choice([0, 1, 0x82, rng.getrandbits(8) & 0x7f])
            ce_ = {'sigfield%d' % i_: bytes(rng.getrandbits(8) for _ in range(rng.choice([0, 2, 5]))) for i_ in rng.sample(range(1, 9), 3)}
            ke_ = rng.randrange(len(SEEDS))
            def run_ext(script_):
                if vmw_:
                    tsh.F.add_signature_extension(_ext)
                    try:
                        return tsh.F.run_script(script_, dict(ce_))[1].list()
                    finally:
                        tsh.F.remove_signature_extension(_ext)
                return tsh.F.run_script(script_, dict(ce_), plugins={'signature_extensions': [_ext]})[1].list()
            stats['rewriting-extension'] += 1
            try:
                m_ = run_ext(op('GET_MESSAGE') + bytes([fl_]))[-1]
                s_ = run_ext(push(SEEDS[ke_]) + op('SIGN') + bytes([fl_]))[-1]
                ok1_ = nacl_valid(PUBS[ke_], m_, s_[:64])
                ext_sig_ = tsh.SigningKey(SEEDS[ke_]).sign(m_).signature + (bytes([fl_]) if fl_ else b'')
                ok2_ = run_ext(push(ext_sig_) + push(PUBS[ke_]) + op('CHECK_SIG') + bytes([fl_]))[-1] == b'\xff'
                ok3_ = run_ext(push(s_) + push(PUBS[ke_]) + op('CHECK_SIG') + bytes([fl_]))[-1] == b'\xff'
                want_m_ = msg_spec(fl_, {k_: b'EXT:' + v_ for k_, v_ in ce_.items()})
                prob_ = None
                if m_ != want_m_: prob_ = 'GET_MESSAGE gave %s, the fields as rewritten once by the extension give %s' % (m_.hex(), want_m_.hex())
                elif not ok1_: prob_ = 'the signature made by SIGN does not cover the bytes GET_MESSAGE gives'
                elif not ok2_: prob_ = 'CHECK_SIG rejects a signature over the bytes GET_MESSAGE gives'
                elif not ok3_: prob_ = 'CHECK_SIG rejects the signature made by SIGN'
            except BaseException as e_:
                prob_ = 'raised %s: %s' % (type(e_).__name__, str(e_)[:100])
            if prob_:
                stats['direct-fail'] += 1
                if len(viol) < 8:
                    viol.append(dict(what='with a field-rewriting signature extension %s: %s' % ('registered VM-wide' if vmw_ else 'passed to the call', prob_),
                                     case=dict(flag=fl_, cache=tsh.cache_str(ce_, False), key=PUBS[ke_].hex(), extension="cache[k] = b'EXT:' + cache[k] for every sigfield")))
        if it % 40 == 15:
            # an extension that RAISES (an exception of any class, StopIteration from a bare next() included) fails the instruction: no
            # message, no signature, no verdict may come out of a run whose extension did not complete
            exc_ = rng.choice([StopIteration, StopIteration, KeyError, ZeroDivisionError, RuntimeError])
            def _raising(tape, stack, cache, exc_=exc_):
                raise exc_('extension cannot complete')
            kx_ = rng.randrange(len(SEEDS))
            cx_ = {'sigfield1': b'abc', 'sigfield2': b'xyz'}
            sx_ = tsh.SigningKey(SEEDS[kx_]).sign(b'abcxyz').signature
            for scr_, nm_ in ((op('GET_MESSAGE') + b'\x00', 'GET_MESSAGE'), (push(SEEDS[kx_]) + op('SIGN') + b'\x00', 'SIGN'),
                              (push(sx_) + push(PUBS[kx_]) + op('CHECK_SIG') + b'\x00', 'CHECK_SIG'),
                              (push(sx_) + push(PUBS[kx_]) + op('CHECK_MULTISIG') + b'\x00\x01\x01', 'CHECK_MULTISIG')):
                stats['raising-extension'] += 1
                for plugs_ in ([_raising], [_ext, _raising]):
                    try:
                        r_ = tsh.F.run_script(scr_, dict(cx_), plugins={'signature_extensions': list(plugs_)})[1].list()
                    except BaseException:
                        r_ = None
                    if r_ is not None:
                        stats['direct-fail'] += 1
                        if len(viol) < 8:
                            viol.append(dict(what='a signature extension raised %s, yet OP_%s went on and left %s' % (exc_.__name__, nm_, [x_.hex()[:40] for x_ in r_]),
                                             case=dict(script=scr_.hex(), cache=tsh.cache_str(cx_, False), extension='raise %s(...)' % exc_.__name__)))
        present = rng.getrandbits(8) if rng.random() < 0.7 else rng.choice([0, 1, 0xff, 3])
        cache = {'sigfield%d' % i: bytes(rng.getrandbits(8) for _ in range(rng.choice([0, 1, 3, 9])))
                 for i in range(1, 9) if (present >> (i - 1)) & 1}
        if rng.random() < 0.5:     # insertion order of the embedder's dict is arbitrary
            items = list(cache.items()); rng.shuffle(items); cache = dict(items)
        k = rng.randrange(len(SEEDS))
        seed_, key = SEEDS[k], PUBS[k]
        mode = rng.random()
        flag = rng.getrandbits(8) if rng.random() < 0.5 else rng.choice([0, 1, 2, 4, 0x80, 0xff, 3])
        allowed = rng.choice([flag, 0xff, 0, flag | rng.getrandbits(8), flag & rng.getrandbits(8), rng.getrandbits(8)])
        what = None
        if mode < 0.45:
            # explicit signature item, checked by CHECK_SIG(_VERIFY)
            signed_flag = flag if rng.random() < 0.8 else rng.getrandbits(8)
            sig = tsh.SigningKey(seed_).sign(msg_spec(signed_flag, cache)).signature
            kind = rng.random()
            item = sig + (bytes([flag]) if (flag or rng.random() < 0.3) else b'')
            if kind < 0.15:
                j = rng.randrange(len(item)); item = item[:j] + bytes([item[j] ^ (1 << rng.randrange(8))]) + item[j + 1:]
            elif kind < 0.22:
                item = item[:rng.choice([0, 31, 63])] if rng.random() < 0.5 else item + b'\x00\x00'
            usekey = key if rng.random() < 0.8 else rng.choice([PUBS[(k + 1) % len(PUBS)], key[:31], key + b'\x00', b''])
            cache2 = dict(cache)
            if rng.random() < 0.25 and cache2:
                fk = rng.choice(list(cache2))
                cache2[fk] = cache2[fk] + b'!'
            ver = rng.random() < 0.3
            script = push(item) + push(usekey) + op('CHECK_SIG_VERIFY' if ver else 'CHECK_SIG') + bytes([allowed])
            # expectation
            f = 0 if len(item) == 64 else (item[-1] if len(item) == 65 else None)
            if len(usekey) != 32 or f is None:
                exp = 'raise'
            elif f & ~allowed & 0xff:
                exp = 'raise'
            else:
                okv = nacl_valid(usekey, msg_spec(f, cache2), item[:64])
                exp = ('empty' if okv else 'raise') if ver else okv
            cache = cache2
            what = 'check_sig'
        elif mode < 0.75:
            # sign then check: must succeed for every flag the checker allows
            ver = rng.random() < 0.3
            script = push(seed_) + op('SIGN') + bytes([flag]) + push(key) + op('CHECK_SIG_VERIFY' if ver else 'CHECK_SIG') + bytes([allowed])
            exp = 'raise' if (flag & ~allowed & 0xff) else ('empty' if ver else True)
            what = 'sign-then-check'
        elif mode < 0.9:
            # GET_MESSAGE + SIGN_STACK + CHECK_SIG_STACK cover the same bytes
            script = (op('GET_MESSAGE') + bytes([flag]) + op('DUP') + push(seed_) + op('SIGN_STACK') +
                      op('SWAP2') + push(key) + op('CHECK_SIG_STACK'))
            exp = True
            what = 'message+sign_stack+check_sig_stack'
            if rng.random() < 0.4:
                # the same signature checked again over a different message (after it verified once) must fail
                script = (op('GET_MESSAGE') + bytes([flag]) + op('DUP') + push(seed_) + op('SIGN_STACK') + op('DUP') +
                          op('SWAP') + b'\x00\x02' + push(key) + op('CHECK_SIG_STACK') + op('VERIFY') +
                          push(b'another message') + push(key) + op('CHECK_SIG_STACK'))
                exp = False
                what = 'check_sig_stack: verified signature re-presented over another message'
        else:
            script = op('GET_MESSAGE') + bytes([flag])
            exp = ('item', msg_spec(flag, cache))
            what = 'get_message'
        st, iline, mline = tsh.compare_script(model, script, cache, cfg)
        stats[st] += 1
        stats[what] += 1
        digests.add(hashlib.sha256(script + tsh.cache_str(cache, False).encode()).digest()[:8])
        case = dict(script=script.hex(), cache=tsh.cache_str(cache, False), cfg=cfg.to_json(), kind=what)
        if st == 'differ' and len(dis) < 5:
            dis.append(dict(case=case, impl=iline[:500], model=mline[:500]))
        f_ = iline.split(' | ')
        top = f_[3].split(',')[-1] if len(f_) > 3 else None
        if exp == 'raise': ok = f_[0].startswith('raised:')
        elif exp == 'empty': ok = f_[0] == 'done' and f_[3] == '-'
        elif isinstance(exp, tuple): ok = f_[0] == 'done' and top == (exp[1].hex() if exp[1] else 'e')
        else: ok = f_[0] == 'done' and top == ('ff' if exp else '00')
        stats['exp-' + str(exp if not isinstance(exp, tuple) else 'item')] += 1
        if not ok:
            stats['direct-fail'] += 1
            if len(viol) < 8:
                viol.append(dict(what='%s: expected %s, implementation gave %s' % (what, exp, iline[:120]), case=case))
        if len(samples) < 2:
            samples.append(dict(case=case, impl=iline[:160]))
    model.close()
    return dict(n=n, stats=dict(stats), disagreements=dis, violations=viol, samples=samples, distinct=len(digests),
                oracle_calls=model.oracle_calls, labels={})


# ------------------------------------------------------------------------------------------- C03
def c03_task(task):
    seed, n = task
    _init()
    import itertools
    from builders import SEEDS, PUBS
    rng = random.Random(seed)
    model = tsh.Model()
    op, push = gen.op, gen.push
    stats = collections.Counter()
    dis, viol, samples = [], [], []
    digests = set()
    for it in range(n):
        # roomy but unequal stack limits now and then (depth limit below / above the size of the message and of a signature, item limit
        # well above both): the verdict may not depend on them
        cfg = tsh.Cfg() if rng.random() < 0.8 else tsh.Cfg(max_items=rng.choice([64, 96, 200, 1024, 2048]), max_item_size=rng.choice([200, 512, 1024, 4096]))
        if rng.random() < 0.15:       # signature extensions in force (per call or VM-wide): they run once per CHECK_MULTISIG, not once per attempt
            cfg = tsh.Cfg(max_items=cfg.max_items, max_item_size=cfg.max_item_size, sigext=rng.choice([(1,), (1, 2)]), vmwide=rng.random() < 0.4)
        sf = {'sigfield1': bytes(rng.getrandbits(8) for _ in range(rng.choice([4, 4, 4, 40, 120]))), 'sigfield2': b'zz'}
        if cfg.max_item_size >= 4096 and rng.random() < 0.6:
            sf['sigfield2'] = bytes(rng.getrandbits(8) for _ in range(rng.choice([1100, 1500, 3000])))      # a message above the DEFAULT item limit
        nk = rng.randint(1, 4)
        ks = rng.sample(range(len(SEEDS)), nk)
        if rng.random() < 0.1 and nk >= 2:
            ks[1] = ks[0]                         # duplicate key in the list (raw bytecode only)
        m = rng.randint(0, nk)
        allowed = rng.choice([0, 0, 1, 0xff, 0x7f, 0x80, 2, 3, rng.getrandbits(8)])
        sigs = []
        for _ in range(m):
            r = rng.random()
            signer = rng.choice(ks) if r < 0.8 else rng.randrange(len(SEEDS))
            # flag variants: mostly permitted subsets of the allowed byte, now and then a flag the operand does not permit (every bit)
            fl = rng.choice([1, 2, 0x40, 0x80, 3, 0x81, rng.getrandbits(8)])
            fl = 0 if rng.random() < 0.5 else (fl if rng.random() < 0.25 else fl & allowed)
            s = tsh.SigningKey(SEEDS[signer]).sign(msg_spec(fl, sf)).signature
            if fl: s += bytes([fl])
            elif rng.random() < 0.15: s += b'\x00'           # 65-byte form with flag 0
            sigs.append(s)
        if m >= 2 and rng.random() < 0.15:
            sigs[1] = sigs[0]
        if rng.random() < 0.3:
            rng.shuffle(sigs)
        keys = [PUBS[k] for k in ks]
        ver = rng.random() < 0.25
        below = b''.join(push(rng.choice([b'\x01', b'\xff', b'\x00'])) for _ in range(rng.randint(1, max(1, m * nk)))) if rng.random() < 0.3 else b''
        short = m >= 1 and rng.random() < 0.08      # fewer signatures on the stack than the operand m asks for: never true
        script = below + b''.join(push(s) for s in (sigs[:-1] if short else sigs)) + b''.join(push(k) for k in keys) + \
            op('CHECK_MULTISIG_VERIFY' if ver else 'CHECK_MULTISIG') + bytes([allowed, m, nk])
        # the property: each of the m signatures valid under a different one of the n keys (positions)
        val = [[nacl_valid(keys[j], msg_spec(0 if len(s) == 64 else s[-1], sf), s[:64]) and
                not ((0 if len(s) == 64 else s[-1]) & ~allowed & 0xff) for j in range(nk)] for s in sigs]
        bad_flag = any((0 if len(s) == 64 else s[-1]) & ~allowed & 0xff for s in sigs) or short      # 'short' shares the expectation: never true
        match = any(all(val[i][p[i]] for i in range(m)) for p in itertools.permutations(range(nk), m))
        distinct = len(set(sigs)) == len(sigs)
        exp = match and distinct
        second = None
        if m >= 1 and not ver and not bad_flag and rng.random() < 0.15:
            # the same signatures and keys checked a SECOND time in the same run, under an operand that permits nothing, or over
            # changed fields: what the first check found must not be remembered
            if any(len(s_) == 65 and s_[-1] for s_ in sigs) and rng.random() < 0.6:
                second = ('flags', op('POP0') + b''.join(push(s_) for s_ in sigs) + b''.join(push(k_) for k_ in keys) + op('CHECK_MULTISIG') + bytes([0, m, nk]))
            else:
                second = ('fields', op('POP0') + push(b'changed') + op('WRITE_CACHE') + b'\x01Z\x01' + b''.join(push(s_) for s_ in sigs) +
                          b''.join(push(k_) for k_ in keys) + op('CHECK_MULTISIG') + bytes([allowed, m, nk]))
            script = script + second[1]
        st, iline, mline = tsh.compare_script(model, script, sf, cfg)
        stats[st] += 1
        digests.add(hashlib.sha256(script).digest()[:8])
        case = dict(script=script.hex(), cache=tsh.cache_str(sf, False), cfg=cfg.to_json(), m=m, n=nk)
        if cfg.sigext and second is None and iline.split(' | ')[0] == 'done':
            # the extensions ran exactly once (each) for the one CHECK_MULTISIG of this run
            ran_ = sum(1 for e_ in iline.split(' | ')[5].split(',') if e_.startswith('x'))
            stats['multisig-with-extensions'] += 1
            if ran_ != len(cfg.sigext):
                stats['direct-fail'] += 1
                if len(viol) < 8:
                    viol.append(dict(what='the signature extensions ran %d time(s) during one CHECK_MULTISIG (%d signature(s), %d key(s)); %d extension(s) are registered and '
                                          'each runs once per instruction' % (ran_, m, nk, len(cfg.sigext)), case=case))
        if second is not None:
            f2 = iline.split(' | ')
            stats['second-check-' + second[0]] += 1
            if second[0] == 'flags' and f2[0] == 'done' and f2[3].split(',')[-1] == 'ff':
                stats['direct-fail'] += 1
                if len(viol) < 8:
                    viol.append(dict(what='the same flagged signatures checked again under allowed flags 00 gave true (expected an error: never true)', case=case))
            if second[0] == 'fields' and (f2[0] == 'done') and (f2[3].split(',')[-1] == 'ff') != bool(exp):
                stats['direct-fail'] += 1
                if len(viol) < 8:
                    viol.append(dict(what='the second CHECK_MULTISIG of one run gave %s, the first %s (same signatures, keys, fields)' % (f2[3].split(',')[-1], exp), case=case))
            if st == 'differ' and len(dis) < 5:
                dis.append(dict(case=case, impl=iline[:500], model=mline[:500]))
            continue
        if st == 'differ' and len(dis) < 5:
            dis.append(dict(case=case, impl=iline[:500], model=mline[:500]))
        f_ = iline.split(' | ')
        if bad_flag:
            ok = f_[0].startswith('raised:') or (f_[0] == 'done' and f_[3].split(',')[-1] != 'ff')   # never true
            stats['exp-not-true(flag)'] += 1
        elif ver:
            ok = (f_[0] == 'done' and (f_[3] == '-' or bool(below))) if exp else f_[0].startswith('raised:')
            stats['exp-verify-' + str(exp)] += 1
        else:
            ok = f_[0] == 'done' and f_[3].split(',')[-1] == ('ff' if exp else '00')
            stats['exp-' + str(exp)] += 1
        if not ok:
            stats['direct-fail'] += 1
            if len(viol) < 8:
                viol.append(dict(what='m=%d n=%d distinct-signatures=%s injective-matching=%s: expected %s, got %s'
                                 % (m, nk, distinct, match, exp, iline[:100]), case=case))
        if len(samples) < 2:
            samples.append(dict(case=case, impl=iline[:160]))
    model.close()
    return dict(n=n, stats=dict(stats), disagreements=dis, violations=viol, samples=samples, distinct=len(digests),
                oracle_calls=model.oracle_calls, labels={})


# ------------------------------------------------------------------------------------------- C20
def c20_task(task):
    seed, codes, counts, depths = task
    _init()
    model = tsh.Model()
    stats = collections.Counter()
    dis, viol, samples = [], [], []
    cfg = tsh.Cfg()
    n = 0
    for code in codes:
        for cb in counts:
            for d in depths:
                pre = b''.join(gen.push(bytes([i % 251, 7])) for i in range(d))
                script = pre + bytes([code, cb])
                n += 1
                st, iline, mline = tsh.compare_script(model, script, {}, cfg)
                stats[st] += 1
                case = dict(script=script.hex(), cache='-', cfg=cfg.to_json(), code=code, count_byte=cb, depth=d)
                if st == 'differ' and len(dis) < 5:
                    dis.append(dict(case=case, impl=iline[:300], model=mline[:300]))
                c = cb if cb < 128 else cb - 256
                f = iline.split(' | ')
                if c < 0: ok = f[0] == 'raised:ScriptExecutionError' and f[3].count(',') + (f[3] != '-') == d
                elif c > d: ok = f[0] == 'raised:IndexError'
                else:
                    left = d - c
                    items = [] if f[3] == '-' else f[3].split(',')
                    ok = f[0] == 'done' and items == [bytes([i % 251, 7]).hex() for i in range(left)] and f[4].count('=') == 1
                if not ok:
                    stats['direct-fail'] += 1
                    if len(viol) < 8:
                        viol.append(dict(what='code %d count byte %d depth %d: not "remove count items or error": %s' % (code, cb, d, iline[:100]), case=case))
                # compiles and decompiles as NOPn
                if d == 0:
                    try:
                        lst = tsh.P.decompile_script(bytes([code, cb]))
                        back = tsh.P.compile_script(' '.join(lst))
                        if lst != ['NOP%d d%d' % (code, c)] or back != bytes([code, cb]):
                            raise ValueError('listing %r recompiles to %s' % (lst, back.hex()))
                    except BaseException as e:
                        stats['direct-fail'] += 1
                        if len(viol) < 8:
                            viol.append(dict(what='code %d count byte %d does not (de)compile as NOPn: %s' % (code, cb, str(e)[:120]), case=case))
                if len(samples) < 2:
                    samples.append(dict(case=case, impl=iline[:120]))
    model.close()
    return dict(n=n, stats=dict(stats), disagreements=dis, violations=viol, samples=samples, distinct=n,
                oracle_calls=model.oracle_calls, labels={})


def run_c20(seed, tier, nproc):
    _init()
    codes = [c for c in range(256) if c not in F.opcodes]
    counts = list(range(256)) if tier == 'thorough' else [0, 1, 2, 3, 5, 126, 127, 128, 129, 200, 254, 255]
    depths = [0, 1, 2, 3, 6, 130] if tier == 'thorough' else [0, 1, 3, 5]
    chunks = [codes[i::nproc] for i in range(nproc)]
    tasks = [(seed, ch, counts, depths) for ch in chunks if ch]
    res = vmstream.run_parallel(tasks, nproc, c20_task)
    tot = dict(n=0, stats=collections.Counter(), labels={}, disagreements=[], violations=[], samples=[], distinct=0, oracle_calls=0)
    for r in res:
        tot['n'] += r['n']; tot['stats'].update(r['stats'])
        tot['disagreements'] += r['disagreements']; tot['violations'] += r['violations']
        tot['samples'] += r['samples'][:1]; tot['distinct'] += r['distinct']; tot['oracle_calls'] += r['oracle_calls']
    tot['stats'] = dict(tot['stats'])
    tot['exhaustive'] = (tier == 'thorough')
    tot['codes'] = len(codes)
    # whole-interpreter soft-fork compatibility (model/SoftFork.v, theorem C20_soft_fork_simulation)
    import forkstream
    fk = forkstream.run_fork(seed + 20, 6000 if tier != 'thorough' else 200000, nproc)
    tot['n'] += fk['n']; tot['distinct'] += fk['distinct']; tot['oracle_calls'] += fk['oracle_calls']
    tot['disagreements'] += fk['disagreements']; tot['violations'] += fk['violations']
    tot['samples'] += fk['samples'][:1]
    tot['fork_stream'] = dict(stats=fk['stats'], outcomes=fk['outcomes'], n=fk['n'])
    cv, cn = forkstream.compile_level(seed + 21, tier == 'thorough')
    tot['violations'] += cv
    tot['n'] += cn
    tot['fork_stream']['compile_level_sources'] = cn
    return tot
