"""Scenario generators for the lock / witness builders of tapescript.tools (C04, C05, C13-C18).

Each scenario is (label, scripts, cache_vals, cfg, expected) where expected is True / False / None
(None: no direct expectation, correspondence only). `expected` is the property's own statement evaluated
by the harness (the direct oracle): honest witnesses unlock, every single perturbation is rejected.
"""
import hashlib, random, struct
import tsh
from tsh import F, T, SigningKey, nb, Pins

T.time = lambda: Pins.now          # builders embed int(time()) + timeout
from tapescript import AMHL as _AM
_AM.token_bytes = tsh._token_bytes

Script = T.Script
SEEDS = [bytes([i]) * 32 for i in range(1, 9)]
PUBS = [bytes(SigningKey(s).verify_key) for s in SEEDS]


def bs(x):
    return x.bytes if hasattr(x, 'bytes') else bytes(x)


def fields(rng, n=None):
    n = rng.randint(1, 3) if n is None else n
    idx = rng.sample(range(1, 9), n)
    return {'sigfield%d' % i: bytes(rng.getrandbits(8) for _ in range(rng.randint(0, 12))) for i in idx}


def perturb_fields(rng, sf, covered_only_flag=0):
    """change one covered field (bit clear in flag)"""
    ks = [k for k in sf if not (covered_only_flag >> (int(k[-1]) - 1)) & 1]
    if not ks:
        return None
    k = rng.choice(ks)
    out = dict(sf)
    out[k] = sf[k] + b'!'
    return out


def c13(rng):
    cfg = tsh.Cfg()
    a, b = rng.sample(range(len(SEEDS)), 2)
    sf = fields(rng)
    fl = rng.choice([0, 0, 1 << (int(rng.choice(list(sf))[-1]) - 1), 0x80])
    flh = '%02x' % fl
    allowed = rng.choice([fl, 0xff, fl | 0x10])
    alh = '%02x' % allowed
    out = []
    # single sig, both layouts
    for lock_f, wit_f, nm in ((T.make_single_sig_lock, T.make_single_sig_witness, 'single_sig'),
                              (T.make_single_sig_lock2, T.make_single_sig_witness2, 'single_sig2')):
        lock = lock_f(PUBS[a], alh)
        w = wit_f(SEEDS[a], sf, flh)
        out.append((nm + ':honest', [bs(w), bs(lock)], sf, cfg, True))
        out.append((nm + ':other-key', [bs(wit_f(SEEDS[b], sf, flh)), bs(lock)], sf, cfg, False))
        pf = perturb_fields(rng, sf, fl)
        if pf:
            out.append((nm + ':covered-field-changed', [bs(w), bs(lock)], pf, cfg, False))
        # excluded fields are irrelevant
        if fl and fl != 0x80:
            ex = dict(sf)
            for k in sf:
                if (fl >> (int(k[-1]) - 1)) & 1:
                    ex[k] = sf[k] + b'?'
            out.append((nm + ':excluded-field-changed', [bs(w), bs(lock)], ex, cfg, True))
        bad = next((f for f in (1, 2, 4, 8, 0x40) if f & ~allowed), None)
        if bad is not None:
            out.append((nm + ':flag-not-permitted', [bs(wit_f(SEEDS[a], sf, '%02x' % bad)), bs(lock)], sf, cfg, False))
    # multisig
    n = rng.randint(1, 4)
    ks = rng.sample(range(len(SEEDS)), n)
    m = rng.randint(1, n)
    lock = T.make_multisig_lock([PUBS[k] for k in ks], m, alh)
    signers = rng.sample(ks, m)
    w = b''.join(bs(T.make_single_sig_witness(SEEDS[s], sf, flh)) for s in signers)
    out.append(('multisig:honest %d-of-%d' % (m, n), [w, bs(lock)], sf, cfg, True))
    if m >= 1:
        outsider = next(i for i in range(len(SEEDS)) if i not in ks)
        bad = signers[:-1] + [outsider]
        w2 = b''.join(bs(T.make_single_sig_witness(SEEDS[s], sf, flh)) for s in bad)
        out.append(('multisig:outsider', [w2, bs(lock)], sf, cfg, False))
    if m >= 2:
        w3 = b''.join(bs(T.make_single_sig_witness(SEEDS[s], sf, flh)) for s in ([signers[0]] * m))
        out.append(('multisig:repeated-signature', [w3, bs(lock)], sf, cfg, False))
    # script hash
    inner_ok = rng.random() < 0.7
    script = Script.from_src('true' if inner_ok else rng.choice(['false', 'true true', 'true return false']))
    lock = T.make_scripthash_lock(script)
    out.append(('scripthash:honest', [bs(T.make_scripthash_witness(script)), bs(lock)], {}, cfg,
                F.run_auth_scripts([script.bytes])))
    out.append(('scripthash:other-script', [bs(T.make_scripthash_witness(Script.from_src('true dup verify'))), bs(lock)], {}, cfg, False))
    # graftroot
    lock = T.make_graftroot_lock(PUBS[a], alh)
    out.append(('graftroot:keyspend', [bs(T.make_graftroot_witness_keyspend(SEEDS[a], sf, flh)), bs(lock)], sf, cfg, True))
    out.append(('graftroot:keyspend-other-key', [bs(T.make_graftroot_witness_keyspend(SEEDS[b], sf, flh)), bs(lock)], sf, cfg, False))
    sur = Script.from_src('true')
    out.append(('graftroot:surrogate', [bs(T.make_graftroot_witness_surrogate(SEEDS[a], sur)), bs(lock)], sf, cfg, True))
    out.append(('graftroot:surrogate-signed-by-other', [bs(T.make_graftroot_witness_surrogate(SEEDS[b], sur)), bs(lock)], sf, cfg, False))
    w = T.make_graftroot_witness_surrogate(SEEDS[a], sur)
    swapped = bs(w).replace(bs(Script.from_src('push x' + sur.bytes.hex())), bs(Script.from_src('push x0101')), 1) if False else None
    # graftap
    lock = T.make_graftap_lock(PUBS[a], alh)
    out.append(('graftap:keyspend', [bs(T.make_graftap_witness_keyspend(SEEDS[a], sf, flh)), bs(lock)], sf, cfg, True))
    out.append(('graftap:keyspend-other-key', [bs(T.make_graftap_witness_keyspend(SEEDS[b], sf, flh)), bs(lock)], sf, cfg, False))
    out.append(('graftap:scriptspend', [bs(T.make_graftap_witness_scriptspend(SEEDS[a], sur)), bs(lock)], sf, cfg, True))
    out.append(('graftap:scriptspend-other-key', [bs(T.make_graftap_witness_scriptspend(SEEDS[b], sur)), bs(lock)], sf, cfg, False))
    return out


def c14(rng):
    out = []
    now = Pins.now
    cfg = tsh.Cfg()
    root, d1, d2, d3 = rng.sample(range(len(SEEDS)), 4)
    sf = fields(rng)
    begin = now + rng.choice([-100, -10, -1, 0])
    end = now + rng.choice([1, 10, 50, 100])
    for dt in (begin - now - 1, begin - now, 0, end - now - 1, end - now, end - now + 1, 59, 60):
        t = now + dt
        cache = dict(sf, timestamp=t)
        cert = T.make_delegate_key_cert(SEEDS[root], PUBS[d1], begin, end)
        w = T.make_delegate_key_witness(SEEDS[d1], cert, sf)
        lock = T.make_delegate_key_lock(PUBS[root])
        exp = (begin <= t < end) and (t - now < 60)
        out.append(('delegate:t=now%+d window[%+d,%+d)' % (dt, begin - now, end - now), [bs(w), bs(lock)], cache, cfg, exp))
    t = now
    cache = dict(sf, timestamp=t)
    cert = T.make_delegate_key_cert(SEEDS[root], PUBS[d1], now - 10, now + 10)
    lock = T.make_delegate_key_lock(PUBS[root])
    out.append(('delegate:cert-by-other-root', [bs(T.make_delegate_key_witness(SEEDS[d1], T.make_delegate_key_cert(SEEDS[d2], PUBS[d1], now - 10, now + 10), sf)), bs(lock)], cache, cfg, False))
    out.append(('delegate:sig-by-other-delegate', [bs(T.make_delegate_key_witness(SEEDS[d2], cert, sf)), bs(lock)], cache, cfg, False))
    packed = bytearray(cert.pack())
    i = rng.randrange(len(packed))
    packed[i] ^= 1 << rng.randrange(8)
    out.append(('delegate:cert-bit-flipped@%d' % i, [bs(T.make_delegate_key_witness(SEEDS[d1], bytes(packed), sf)), bs(lock)], cache, cfg, False))
    pf = perturb_fields(rng, sf)
    out.append(('delegate:covered-field-changed', [bs(T.make_delegate_key_witness(SEEDS[d1], cert, sf)), bs(lock)], dict(pf, timestamp=t), cfg, False))
    # chains
    L = rng.randint(1, 4)
    ids = [root] + rng.sample([i for i in range(len(SEEDS)) if i != root], L)
    good = []
    for j in range(L):
        good.append(T.make_delegate_key_cert(SEEDS[ids[j]], PUBS[ids[j + 1]], now - 10, now + 10, can_further_delegate=(j < L - 1)))
    clock = T.make_delegate_key_chain_lock(PUBS[root])
    w = T.make_delegate_key_chain_witness(SEEDS[ids[-1]], list(reversed(good)), sf)
    out.append(('chain:honest len=%d' % L, [bs(w), bs(clock)], cache, cfg, True))
    if L >= 2:
        j = rng.randrange(L - 1)
        bad = list(good)
        bad[j] = T.make_delegate_key_cert(SEEDS[ids[j]], PUBS[ids[j + 1]], now - 10, now + 10, can_further_delegate=False)
        out.append(('chain:non-final-cert-forbids-delegation@%d' % j, [bs(T.make_delegate_key_chain_witness(SEEDS[ids[-1]], list(reversed(bad)), sf)), bs(clock)], cache, cfg, False))
        bad = list(good)
        bad[j + 1] = T.make_delegate_key_cert(SEEDS[ids[-1]], PUBS[ids[j + 2]], now - 10, now + 10, can_further_delegate=(j + 1 < L - 1))
        out.append(('chain:cert-signed-by-wrong-key@%d' % (j + 1), [bs(T.make_delegate_key_chain_witness(SEEDS[ids[-1]], list(reversed(bad)), sf)), bs(clock)], cache, cfg, False))
    j = rng.randrange(L)
    bad = list(good)
    bad[j] = T.make_delegate_key_cert(SEEDS[ids[j]], PUBS[ids[j + 1]], now + 1, now + 10, can_further_delegate=(j < L - 1))
    out.append(('chain:cert-not-yet-valid@%d' % j, [bs(T.make_delegate_key_chain_witness(SEEDS[ids[-1]], list(reversed(bad)), sf)), bs(clock)], cache, cfg, False))
    bad = list(good)
    bad[j] = T.make_delegate_key_cert(SEEDS[ids[j]], PUBS[ids[j + 1]], now - 10, now, can_further_delegate=(j < L - 1))
    out.append(('chain:cert-expired-at-t=end@%d' % j, [bs(T.make_delegate_key_chain_witness(SEEDS[ids[-1]], list(reversed(bad)), sf)), bs(clock)], cache, cfg, False))
    other = next(i for i in range(len(SEEDS)) if i not in ids)
    out.append(('chain:final-sig-by-other', [bs(T.make_delegate_key_chain_witness(SEEDS[other], list(reversed(good)), sf)), bs(clock)], cache, cfg, False))
    # certificate serialisation round trip (direct)
    c = T.Certificate(PUBS[d1], rng.choice([0, 1, 127, 128, 255, 256, 2**31 - 1, rng.getrandbits(31)]),
                      rng.choice([0, 2**31 - 1, rng.getrandbits(31)]), rng.random() < 0.5, bytes(64))
    u = T.Certificate.unpack(c.pack())
    ok = (u.delegate_pubkey, u.begin_ts, u.end_ts, u.can_further_delegate, u.signature) == \
         (c.delegate_pubkey, c.begin_ts, c.end_ts, c.can_further_delegate, c.signature)
    out.append(('cert-roundtrip begin=%d end=%d' % (c.begin_ts, c.end_ts), None, None, None, ok))
    return out


def c15(rng):
    out = []
    now = Pins.now
    cfg = tsh.Cfg()
    rcv, ref, other = rng.sample(range(len(SEEDS)), 3)
    sf = fields(rng)
    pre = bytes(rng.getrandbits(8) for _ in range(rng.randint(1, 40)))
    timeout = rng.choice([10, 30, 59])
    deadline = now + timeout
    builders = [(T.make_htlc_sha256_lock, T.make_htlc_witness, {}), (T.make_htlc_shake256_lock, T.make_htlc_witness, {'hash_size': rng.choice([16, 20, 32])}),
                (T.make_htlc2_sha256_lock, T.make_htlc2_witness, {}), (T.make_htlc2_shake256_lock, T.make_htlc2_witness, {'hash_size': rng.choice([16, 20])})]
    lock_f, wit_f, kw = rng.choice(builders)
    lock = lock_f(PUBS[rcv], PUBS[ref], preimage=pre, timeout=timeout, **kw)
    nm = lock_f.__name__[5:-5]
    for dt in (0, timeout - 1, timeout, timeout + 1):
        cache = dict(sf, timestamp=now + dt)
        out.append((nm + ':claim t=now%+d' % dt, [bs(wit_f(SEEDS[rcv], pre, sf)), bs(lock)], cache, cfg, True))
        exp = (now + dt >= deadline) and (dt < 60)
        out.append((nm + ':refund t=now%+d deadline=now%+d' % (dt, timeout), [bs(wit_f(SEEDS[ref], b'\x00', sf)), bs(lock)], cache, cfg, exp))
    cache = dict(sf, timestamp=now + timeout)
    out.append((nm + ':claim-wrong-preimage', [bs(wit_f(SEEDS[rcv], pre + b'x', sf)), bs(lock)], dict(sf, timestamp=now), cfg, False))
    out.append((nm + ':claim-by-refund-key-before-timeout', [bs(wit_f(SEEDS[ref], pre, sf)), bs(lock)], dict(sf, timestamp=now), cfg, False))
    out.append((nm + ':claim-by-other-key', [bs(wit_f(SEEDS[other], pre, sf)), bs(lock)], cache, cfg, False))
    out.append((nm + ':refund-by-other-key', [bs(wit_f(SEEDS[other], b'\x00', sf)), bs(lock)], cache, cfg, False))
    out.append((nm + ':refund-by-receiver-key', [bs(wit_f(SEEDS[rcv], b'\x00', sf)), bs(lock)], cache, cfg, False))
    # PTLC
    tw = bytes(rng.getrandbits(8) for _ in range(32)) if rng.random() < 0.6 else None
    t = F.clamp_scalar(tw) if tw else None
    Tp = F.derive_point_from_scalar(t) if tw else None
    lock = T.make_ptlc_lock(PUBS[rcv], PUBS[ref], tweak_point=Tp, timeout=timeout)
    for dt in (0, timeout - 1, timeout, timeout + 1):
        cache = dict(sf, timestamp=now + dt)
        out.append(('ptlc:claim tweak=%s t=now%+d' % (bool(tw), dt), [bs(T.make_ptlc_witness(SEEDS[rcv], sf, tweak_scalar=t)), bs(lock)], cache, cfg, True))
        out.append(('ptlc:refund t=now%+d' % dt, [bs(T.make_ptlc_refund_witness(SEEDS[ref], sf)), bs(lock)], cache, cfg, (dt >= timeout) and dt < 60))
    cache = dict(sf, timestamp=now + timeout)
    out.append(('ptlc:claim-other-key', [bs(T.make_ptlc_witness(SEEDS[other], sf, tweak_scalar=t)), bs(lock)], cache, cfg, False))
    if tw:
        out.append(('ptlc:claim-without-tweak', [bs(T.make_ptlc_witness(SEEDS[rcv], sf)), bs(lock)], cache, cfg, False))
        t2 = F.clamp_scalar(bytes(rng.getrandbits(8) for _ in range(32)))
        out.append(('ptlc:claim-wrong-tweak', [bs(T.make_ptlc_witness(SEEDS[rcv], sf, tweak_scalar=t2)), bs(lock)], cache, cfg, False))
    out.append(('ptlc:refund-other-key', [bs(T.make_ptlc_refund_witness(SEEDS[other], sf)), bs(lock)], cache, cfg, False))
    return out


def c16(rng):
    """lock builders on the boundary grid (default ts_threshold, as run_auth_scripts has no flags
    argument); D11 cases are labelled finding=D11. Tuples carry a 6th element (finding id or None)."""
    out = []
    now = Pins.now
    thr = 60
    cfg = tsh.Cfg()
    for d_ts in (-70, -1, 0, 1, 30, 70):
        ts = now + d_ts
        for d_t in sorted({d_ts - 1, d_ts, d_ts + 1, thr - 1, thr, thr + 1, 0}):
            t = now + d_t
            within = t - now < thr
            for ver in (False, True):
                pre = [b'\x01'] if ver else []     # 'true' first so that the VERIFY forms end with [ff]
                lock = bs(T.make_timestamp_after_lock(ts, ver))
                out.append(('after ts=now%+d t=now%+d verify=%s' % (d_ts, d_t, ver), pre + [lock], {'timestamp': t}, cfg, (t >= ts) and within, None))
                lock = bs(T.make_timestamp_before_lock(ts, ver))
                finding = 'D11' if (t >= ts and not within) else None
                out.append(('before ts=now%+d t=now%+d verify=%s' % (d_ts, d_t, ver), pre + [lock], {'timestamp': t}, cfg, t < ts, finding))
        for d_e in (d_ts + 1, d_ts + 40):
            end = now + d_e
            for d_t in sorted({d_ts - 1, d_ts, d_e - 1, d_e, d_e + 1, 59, 60}):
                t = now + d_t
                within = t - now < thr
                lock = bs(T.make_timestamp_between_lock(ts, end, False))
                out.append(('between [now%+d,now%+d) t=now%+d' % (d_ts, d_e, d_t), [lock], {'timestamp': t}, cfg, (ts <= t < end) and within, None))
    return out


def c16_instr(rng):
    """instruction level: (label, script, cache, cfg, expected top-of-stack bool or 'raise')"""
    out = []
    now = Pins.now
    for thr in (60, 0, -5, 1, 7):
        cfg = tsh.Cfg(flags={} if thr == 60 else {'ts_threshold': thr, 'epoch_threshold': max(thr, 0)})
        ethr = 60 if thr == 60 else max(thr, 0)
        for dc in (-3, -1, 0, 1, thr - 1, thr, thr + 1, 100):
            c = now + dc
            encs = [c.to_bytes(n, 'big') for n in (5, 6, 9)] + [F.int_to_bytes(c)]
            for enc in encs[:2] if rng.random() < 0.7 else encs:
                for dt in (dc - 1, dc, dc + 1, thr - 1, thr, thr + 1):
                    t = now + dt
                    exp = (t >= c) and (thr <= 0 or t - now < thr)
                    for opn, ver in (('CHECK_TIMESTAMP', False), ('CHECK_TIMESTAMP_VERIFY', True)):
                        script = bytes([3, len(enc)]) + enc + bytes([tsh.F.opcodes_inverse['OP_' + opn][0]])
                        out.append(('%s c=now%+d(%dB) t=now%+d thr=%d' % (opn, dc, len(enc), dt, thr), script,
                                    {'timestamp': t}, cfg, ('raise' if not exp else 'empty') if ver else exp))
                expe = (c - now) < ethr
                for opn, ver in (('CHECK_EPOCH', False), ('CHECK_EPOCH_VERIFY', True)):
                    script = bytes([3, len(enc)]) + enc + bytes([tsh.F.opcodes_inverse['OP_' + opn][0]])
                    out.append(('%s c=now%+d ethr=%d' % (opn, dc, ethr), script, {}, cfg,
                                ('raise' if not expe else 'empty') if ver else expe))
    return out
