"""Scenario generators for the lock / witness builders of tapescript.tools (C04, C05, C13-C18).

Each scenario is (label, scripts, cache_vals, cfg, expected) where expected is True / False / None
(None: no direct expectation, correspondence only). `expected` is the property's own statement evaluated
by the harness (the direct oracle): honest witnesses unlock, every single perturbation is rejected.
"""
import hashlib, json, os, random, struct
import tsh
from tsh import F, T, SigningKey, nb, Pins

T.time = lambda: Pins.now + Pins.frac          # builders embed int(time()) + timeout; the clock has a fractional part
from tapescript import AMHL as _AM
_AM.token_bytes = tsh._token_bytes

import inspect as _inspect
_RealT = T
_DOC_ORDER = json.load(open(os.path.join(os.path.dirname(os.path.abspath(__file__)), 'doc_signatures.json')))
_ITER_OK = json.load(open(os.path.join(os.path.dirname(os.path.abspath(__file__)), 'iterable_params.json')))


class _ToolsProxy:
    """tapescript.tools seen through the argument forms its signatures allow: a parameter annotated bytes|VerifyKey
    (bytes|SigningKey) randomly receives the PyNaCl object instead of the 32 bytes.  The builders must not care."""
    _rng = random.Random(99)
    _sigs = {}

    def __getattr__(self, name):
        obj = getattr(_RealT, name)
        if not callable(obj) or _inspect.isclass(obj) or not name.startswith(('make_', 'setup_amhl', 'decrypt_')):
            return obj
        if name not in self._sigs:
            try:
                self._sigs[name] = _inspect.signature(obj)
            except (TypeError, ValueError):
                self._sigs[name] = None
        sig = self._sigs[name]
        if sig is None:
            return obj
        rng = self._rng

        def conv(pname, val):
            ann = str(sig.parameters[pname].annotation) if pname in sig.parameters else ''
            if type(val) is bytes and len(val) == 32 and rng.random() < 0.3:
                if 'VerifyKey' in ann:
                    return tsh.VerifyKey(val)
                if 'SigningKey' in ann:
                    return SigningKey(val)
            # a script given as source text where a Script object is also allowed, and the other way round; a certificate as
            # object or as its packed bytes; a witness as Script or as its bytes
            if rng.random() < 0.3:
                try:
                    if type(val) is str and 'ScriptProtocol' in ann and 'str' in ann:
                        return _RealT.Script.from_src(val)
                    if isinstance(val, _RealT.Script) and 'str' in ann and ('Script' in ann):
                        return val.src
                    if isinstance(val, _RealT.Certificate) and 'bytes' in ann and 'Certificate' in ann:
                        return val.pack()
                    if type(val) is bytes and len(val) == 105 and 'Certificate' in ann and 'bytes' in ann:
                        c_ = _RealT.Certificate.unpack(val)      # only a certificate that is its own packing (a corrupted one may
                        return c_ if c_.pack() == val else val   # unpack to field values that cannot be packed again)
                    if isinstance(val, _RealT.Script) and 'bytes' in ann and 'ScriptProtocol' in ann:
                        return val.bytes
                except Exception:
                    return val
            return val

        def call(*a, **kw):
            try:
                b = sig.bind(*a, **kw)
            except TypeError:
                return obj(*a, **kw)
            for k in list(b.arguments):
                v = b.arguments[k]
                if type(v) in (list, tuple) and any(w_ in str(sig.parameters[k].annotation) for w_ in ('VerifyKey', 'ScriptProtocol', 'Certificate')):
                    b.arguments[k] = type(v)(conv(k, x) for x in v)
                    # the sequence in another shape the pinned release accepts for this parameter with the same result (frozen in
                    # iterable_params.json: tuple / iterator / generator / map object)
                    shp = _ITER_OK.get('%s.%s' % (name, k), [])
                    if shp and type(v) is list and rng.random() < 0.4:
                        w_ = list(b.arguments[k])
                        b.arguments[k] = {'tuple': tuple, 'iter': iter, 'gen': (lambda l_: (x_ for x_ in l_)), 'map': (lambda l_: map(lambda x_: x_, l_))}[rng.choice(shp)](w_)
                else:
                    b.arguments[k] = conv(k, v)
            # positionally in the DOCUMENTED parameter order (docs.md of the pinned release, frozen in doc_signatures.json), or every
            # argument by name: callers written against the documentation use either
            doc = _DOC_ORDER.get(name)
            if doc is not None and all(p_.kind == p_.POSITIONAL_OR_KEYWORD for p_ in sig.parameters.values()):
                b.apply_defaults()
                if sorted(doc) == sorted(b.arguments):
                    if rng.random() < 0.5:
                        return obj(*[b.arguments[p_] for p_ in doc])
                    return obj(**dict(b.arguments))
            return obj(*b.args, **b.kwargs)
        return call

    def __setattr__(self, name, value):
        setattr(_RealT, name, value)


T = _ToolsProxy()
Script = _RealT.Script
SEEDS = [bytes([i]) * 32 for i in range(1, 13)]
PUBS = [bytes(SigningKey(s).verify_key) for s in SEEDS]


def bs(x):
    return x.bytes if hasattr(x, 'bytes') else bytes(x)


def fields(rng, n=None):
    n = rng.randint(1, 3) if n is None else n
    idx = rng.sample(range(1, 9), n)
    return {'sigfield%d' % i: bytes(rng.getrandbits(8) for _ in range(rng.randint(0, 12))) for i in idx}


def perturb_fields(rng, sf, covered_only_flag=0):
    """change one covered field (bit clear in flag)"""
    ks = [k for k in sf if not (covered_only_flag >> (int(k[-1]) - 1)) & 1]
    if not ks:
        return None
    k = rng.choice(ks)
    out = dict(sf)
    out[k] = sf[k] + b'!'
    return out


_BIG = []


def big_keys(n):
    """n (seed, public key) pairs outside the small SEEDS pool"""
    while len(_BIG) < n:
        sd = hashlib.sha256(b'big key %d' % len(_BIG)).digest()
        _BIG.append((sd, bytes(tsh.SigningKey(sd).verify_key)))
    return _BIG[:n]


def c13(rng):
    cfg = tsh.Cfg()
    a, b = rng.sample(range(len(SEEDS)), 2)
    sf = fields(rng)
    fl = rng.choice([0, 0, 1 << (int(rng.choice(list(sf))[-1]) - 1), 0x80])
    flh = '%02x' % fl
    allowed = rng.choice([fl, 0xff, fl | 0x10])
    alh = '%02x' % allowed
    out = []
    # single sig, both layouts
    for lock_f, wit_f, nm in ((T.make_single_sig_lock, T.make_single_sig_witness, 'single_sig'),
                              (T.make_single_sig_lock2, T.make_single_sig_witness2, 'single_sig2')):
        lock = lock_f(PUBS[a], alh)
        w = wit_f(SEEDS[a], sf, flh)
        out.append((nm + ':honest', [bs(w), bs(lock)], sf, cfg, True))
        out.append((nm + ':other-key', [bs(wit_f(SEEDS[b], sf, flh)), bs(lock)], sf, cfg, False))
        pf = perturb_fields(rng, sf, fl)
        if pf:
            out.append((nm + ':covered-field-changed', [bs(w), bs(lock)], pf, cfg, False))
        # excluded fields are irrelevant
        if fl and fl != 0x80:
            ex = dict(sf)
            for k in sf:
                if (fl >> (int(k[-1]) - 1)) & 1:
                    ex[k] = sf[k] + b'?'
            out.append((nm + ':excluded-field-changed', [bs(w), bs(lock)], ex, cfg, True))
        cand = [f for f in (1, 2, 4, 8, 0x10, 0x20, 0x40, 0x80) if f & ~allowed]
        bad = rng.choice(cand) if cand else None
        if bad is not None:
            out.append((nm + ':flag-not-permitted', [bs(wit_f(SEEDS[a], sf, '%02x' % bad)), bs(lock)], sf, cfg, False))
    # multisig
    n = rng.randint(1, 4)
    ks = rng.sample(range(len(SEEDS)), n)
    m = rng.randint(1, n)
    lock = T.make_multisig_lock([PUBS[k] for k in ks], m, alh)
    signers = rng.sample(ks, m)
    w = b''.join(bs(T.make_single_sig_witness(SEEDS[s], sf, flh)) for s in signers)
    out.append(('multisig:honest %d-of-%d' % (m, n), [w, bs(lock)], sf, cfg, True))
    if m >= 1:
        outsider = next(i for i in range(len(SEEDS)) if i not in ks)
        bad = signers[:-1] + [outsider]
        w2 = b''.join(bs(T.make_single_sig_witness(SEEDS[s], sf, flh)) for s in bad)
        out.append(('multisig:outsider', [w2, bs(lock)], sf, cfg, False))
    # fewer signatures than the quorum asks for (m - 1 honest ones; none at all): refused
    wshort = b''.join(bs(T.make_single_sig_witness(SEEDS[s_], sf, flh)) for s_ in signers[:-1])
    out.append(('multisig:%d of the %d signatures the quorum asks for' % (m - 1, m), [wshort, bs(lock)], sf, cfg, False))
    if m >= 2:
        out.append(('multisig:a single signature against a quorum of %d' % m, [bs(T.make_single_sig_witness(SEEDS[signers[0]], sf, flh)), bs(lock)], sf, cfg, False))
    if m >= 2:
        w3 = b''.join(bs(T.make_single_sig_witness(SEEDS[s], sf, flh)) for s in ([signers[0]] * m))
        out.append(('multisig:repeated-signature', [w3, bs(lock)], sf, cfg, False))
    # many keys: the one-byte m / n operands on both sides of 127 / 128 and at 255
    if rng.random() < 0.35:
        nb_ = rng.choice([127, 128, 129, 200, 255])
        big = big_keys(nb_)
        lkb = T.make_multisig_lock([pk_ for _, pk_ in big], 2, alh)
        i1, i2 = 0, nb_ - 1
        wb_ = bs(T.make_single_sig_witness(big[i1][0], sf, flh)) + bs(T.make_single_sig_witness(big[i2][0], sf, flh))
        out.append(('multisig: 2-of-%d (first and last holder)' % nb_, [wb_, bs(lkb)], sf, tsh.Cfg(), True))
        wo_ = bs(T.make_single_sig_witness(big[i1][0], sf, flh)) + bs(T.make_single_sig_witness(SEEDS[a], sf, flh))
        out.append(('multisig: 2-of-%d (one holder and an outsider)' % nb_, [wo_, bs(lkb)], sf, tsh.Cfg(), False))
    # script hash
    inner_ok = rng.random() < 0.7
    script = Script.from_src('true' if inner_ok else rng.choice(['false', 'true true', 'true return false']))
    lock = T.make_scripthash_lock(script)
    out.append(('scripthash:honest', [bs(T.make_scripthash_witness(script)), bs(lock)], {}, cfg,
                F.run_auth_scripts([script.bytes])))
    out.append(('scripthash:other-script', [bs(T.make_scripthash_witness(Script.from_src('true dup verify'))), bs(lock)], {}, cfg, False))
    u1_ = Script.from_src('true'); T.make_scripthash_lock(u1_); u1_.commitment()
    u2_ = u1_ + Script.from_src('push d5 push d5 equal verify')
    out.append(('scripthash:honest (script summed from used Script objects)', [bs(T.make_scripthash_witness(u2_)), bs(T.make_scripthash_lock(u2_))], {}, cfg, True))
    out.append(('scripthash:first summand only against the lock of the sum', [bs(T.make_scripthash_witness(u1_)), bs(T.make_scripthash_lock(u2_))], {}, cfg, False))
    # a key listed twice (a weighted vote): one holder still counts once per signature it can really give
    c_ = next(i for i in range(len(SEEDS)) if i not in (a, b))
    lkr = T.make_multisig_lock([PUBS[a], PUBS[a], PUBS[b]], 2, alh)
    wa = bs(T.make_single_sig_witness(SEEDS[a], sf, flh)); wb = bs(T.make_single_sig_witness(SEEDS[b], sf, flh))
    out.append(('multisig[A,A,B] 2-of-3: A twice (the same signature)', [wa + wa, bs(lkr)], sf, cfg, False))
    out.append(('multisig[A,A,B] 2-of-3: A and B', [wa + wb, bs(lkr)], sf, cfg, True))
    # one holder signing the same fields twice under two different permitted flags must not meet a quorum of two
    f2 = 1 << (int(rng.choice(list(sf))[-1]) - 1)
    lk2 = T.make_multisig_lock([PUBS[a], PUBS[b], PUBS[c_]], 2, '%02x' % f2)
    wa0 = bs(T.make_single_sig_witness(SEEDS[a], sf, '00')); wa1 = bs(T.make_single_sig_witness(SEEDS[a], sf, '%02x' % f2))
    wb0 = bs(T.make_single_sig_witness(SEEDS[b], sf, '00'))
    out.append(('multisig[A,B,C] 2-of-3: A twice under two different permitted flags', [wa0 + wa1, bs(lk2)], sf, cfg, False))
    out.append(('multisig[A,B,C] 2-of-3: A twice under two different permitted flags (other order)', [wa1 + wa0, bs(lk2)], sf, cfg, False))
    out.append(('multisig[A,B,C] 2-of-3: A (flagged) and B', [wa1 + wb0, bs(lk2)], sf, cfg, True))
    lk3 = T.make_multisig_lock([PUBS[a], PUBS[b], PUBS[c_]], 3, '%02x' % f2)
    out.append(('multisig[A,B,C] 3-of-3: A twice under two flags and B', [wa0 + wa1 + wb0, bs(lk3)], sf, cfg, False))
    out.append(('multisig[A,A,B] 2-of-3: B and an outsider', [wb + bs(T.make_single_sig_witness(SEEDS[c_], sf, flh)), bs(lkr)], sf, cfg, False))
    # graftroot
    lock = T.make_graftroot_lock(PUBS[a], alh)
    out.append(('graftroot:keyspend', [bs(T.make_graftroot_witness_keyspend(SEEDS[a], sf, flh)), bs(lock)], sf, cfg, True))
    out.append(('graftroot:keyspend-other-key', [bs(T.make_graftroot_witness_keyspend(SEEDS[b], sf, flh)), bs(lock)], sf, cfg, False))
    sur = Script.from_src('true')
    out.append(('graftroot:surrogate', [bs(T.make_graftroot_witness_surrogate(SEEDS[a], sur)), bs(lock)], sf, cfg, True))
    out.append(('graftroot:surrogate-signed-by-other', [bs(T.make_graftroot_witness_surrogate(SEEDS[b], sur)), bs(lock)], sf, cfg, False))
    # the signature of an accepted surrogate presented with another surrogate script
    w = bs(T.make_graftroot_witness_surrogate(SEEDS[a], sur))
    ssig = w[2:66]
    other = Script.from_src(rng.choice(['true true verify', 'push d1 push d1 equal', 'false not']))
    out.append(('graftroot:surrogate-signature-reused-for-another-script',
                [gpush(ssig) + gpush(other.bytes) + bytes([F.opcodes_inverse['OP_TRUE'][0]]), bs(lock)], sf, cfg, False))
    # graftap
    lock = T.make_graftap_lock(PUBS[a], alh)
    out.append(('graftap:keyspend', [bs(T.make_graftap_witness_keyspend(SEEDS[a], sf, flh)), bs(lock)], sf, cfg, True))
    out.append(('graftap:keyspend-other-key', [bs(T.make_graftap_witness_keyspend(SEEDS[b], sf, flh)), bs(lock)], sf, cfg, False))
    out.append(('graftap:scriptspend', [bs(T.make_graftap_witness_scriptspend(SEEDS[a], sur)), bs(lock)], sf, cfg, True))
    out.append(('graftap:scriptspend-other-key', [bs(T.make_graftap_witness_scriptspend(SEEDS[b], sur)), bs(lock)], sf, cfg, False))
    # committed / surrogate scripts whose length sits on the one-byte / two-byte size boundaries of the PUSH forms the builders write
    if rng.random() < 0.4:
        for L in rng.sample([9, 254, 255, 256, 257, 258, 300, 511, 512, 513, 1000, 1024], 4):
            if L >= 8:
                body = bytes(rng.getrandbits(8) for _ in range(L - (6 if L - 5 < 256 else 7)))
                sc = Script.from_bytes(gpush(body) + bytes([F.opcodes_inverse['OP_POP0'][0], F.opcodes_inverse['OP_TRUE'][0]]))
                sc = Script.from_bytes(sc.bytes + bytes([F.opcodes_inverse['OP_TRUE'][0], F.opcodes_inverse['OP_VERIFY'][0]]) * ((L - len(sc.bytes)) // 2))
            else:
                sc = Script.from_bytes(bytes([F.opcodes_inverse['OP_TRUE'][0]]) * L)
            nmL = ' (%d-byte script)' % len(sc.bytes)
            lkh = T.make_scripthash_lock(sc)
            out.append(('scripthash:honest' + nmL, [bs(T.make_scripthash_witness(sc)), bs(lkh)], {}, cfg, len(sc.bytes) <= 1024))
            out.append(('graftroot:surrogate' + nmL, [bs(T.make_graftroot_witness_surrogate(SEEDS[a], sc)), bs(T.make_graftroot_lock(PUBS[a], alh))], sf, cfg, len(sc.bytes) <= 1024))
            out.append(('graftroot:surrogate-signed-by-other' + nmL, [bs(T.make_graftroot_witness_surrogate(SEEDS[b], sc)), bs(T.make_graftroot_lock(PUBS[a], alh))], sf, cfg, False))
            out.append(('graftap:scriptspend' + nmL, [bs(T.make_graftap_witness_scriptspend(SEEDS[a], sc)), bs(T.make_graftap_lock(PUBS[a], alh))], sf, cfg, len(sc.bytes) <= 1024))
    # cross-pairings of witnesses and locks across builders and keys: what each pair must give follows from the exact lock theorems
    # (e.g. a single-sig witness opens the key path of a graftroot lock of the same key), so the model decides
    locks = [('single_sig', T.make_single_sig_lock(PUBS[a], alh)), ('single_sig2', T.make_single_sig_lock2(PUBS[a], alh)),
             ('multisig 1-of-[A,B]', T.make_multisig_lock([PUBS[a], PUBS[b]], 1, alh)), ('scripthash', T.make_scripthash_lock(script)),
             ('graftroot', T.make_graftroot_lock(PUBS[a], alh)), ('graftap', T.make_graftap_lock(PUBS[a], alh))]
    for who, sd in (('A', SEEDS[a]), ('B', SEEDS[b])):
        wits = [('single_sig', T.make_single_sig_witness(sd, sf, flh)), ('single_sig2', T.make_single_sig_witness2(sd, sf, flh)),
                ('scripthash', T.make_scripthash_witness(script)), ('graftroot-keyspend', T.make_graftroot_witness_keyspend(sd, sf, flh)),
                ('graftroot-surrogate', T.make_graftroot_witness_surrogate(sd, sur)), ('graftap-keyspend', T.make_graftap_witness_keyspend(sd, sf, flh)),
                ('graftap-scriptspend', T.make_graftap_witness_scriptspend(sd, sur))]
        for wn, w in rng.sample(wits, 3):
            for ln, lk in rng.sample(locks, 3):
                out.append(('cross: %s witness by %s against the %s lock of A' % (wn, who, ln), [bs(w), bs(lk)], sf, cfg, None))
    return out


def c14(rng):
    out = []
    now = Pins.now
    cfg = tsh.Cfg()
    root, d1, d2, d3 = rng.sample(range(len(SEEDS)), 4)
    sf = fields(rng)
    flh = '%02x' % rng.choice([0, 0, 1 << (int(rng.choice(list(sf))[-1]) - 1), 0x80])
    begin = now + rng.choice([-100, -10, -1, 0])
    end = now + rng.choice([1, 10, 50, 100])
    for dt in (begin - now - 1, begin - now, 0, end - now - 1, end - now, end - now + 1, 59, 60):
        t = now + dt
        cache = dict(sf, timestamp=t)
        cert = T.make_delegate_key_cert(SEEDS[root], PUBS[d1], begin, end)
        w = T.make_delegate_key_witness(SEEDS[d1], cert, sf, flh)
        lock = T.make_delegate_key_lock(PUBS[root], flh)
        exp = (begin <= t < end) and (t - now < 60)
        out.append(('delegate:t=now%+d window[%+d,%+d)' % (dt, begin - now, end - now), [bs(w), bs(lock)], cache, cfg, exp))
    # the lower end of the timestamp domain: t = 0 is a timestamp like any other (not "no timestamp")
    for (b0, e0, t0) in rng.sample([(0, 100, 0), (0, 100, 1), (now - 10, now + 10, 0), (0, 1, 0), (1, 100, 0)], 2):
        cert0 = T.make_delegate_key_cert(SEEDS[root], PUBS[d1], b0, e0)
        w0 = T.make_delegate_key_witness(SEEDS[d1], cert0, sf, flh)
        out.append(('delegate:t=%d window[%d,%d) (absolute)' % (t0, b0, e0), [bs(w0), bs(T.make_delegate_key_lock(PUBS[root], flh))],
                    dict(sf, timestamp=t0), cfg, (b0 <= t0 < e0) and (t0 - now < 60)))
        wc0 = T.make_delegate_key_chain_witness(SEEDS[d1], [cert0], sf, flh)
        out.append(('chain:len=1 t=%d window[%d,%d) (absolute)' % (t0, b0, e0), [bs(wc0), bs(T.make_delegate_key_chain_lock(PUBS[root], flh))],
                    dict(sf, timestamp=t0), cfg, (b0 <= t0 < e0) and (t0 - now < 60)))
    t = now
    cache = dict(sf, timestamp=t)
    cert = T.make_delegate_key_cert(SEEDS[root], PUBS[d1], now - 10, now + 10)
    lock = T.make_delegate_key_lock(PUBS[root])
    out.append(('delegate:cert-by-other-root', [bs(T.make_delegate_key_witness(SEEDS[d1], T.make_delegate_key_cert(SEEDS[d2], PUBS[d1], now - 10, now + 10), sf)), bs(lock)], cache, cfg, False))
    out.append(('delegate:sig-by-other-delegate', [bs(T.make_delegate_key_witness(SEEDS[d2], cert, sf)), bs(lock)], cache, cfg, False))
    # every single-field corruption: one bit in each field of the certificate (model-checked scenarios), and once per worker
    # process every single bit of the 105 bytes (direct runs)
    for fname, lo, hi in (('delegate-key', 0, 32), ('begin', 32, 36), ('end', 36, 40), ('may-delegate', 40, 41), ('signature', 41, 105)):
        packed = bytearray(cert.pack())
        i = rng.randrange(lo, hi)
        packed[i] ^= 1 << rng.randrange(8)
        out.append(('delegate:cert-bit-flipped in %s' % fname, [bs(T.make_delegate_key_witness(SEEDS[d1], bytes(packed), sf)), bs(lock)], cache, cfg, False))
    global _C14_SWEPT
    if not _C14_SWEPT:
        _C14_SWEPT = True
        base = cert.pack()
        honest = F.run_auth_scripts([bs(T.make_delegate_key_witness(SEEDS[d1], base, sf)), bs(lock)], dict(cache))
        acc = []
        for bit in range(len(base) * 8):
            w_ = bytearray(base); w_[bit // 8] ^= 1 << (bit % 8)
            if F.run_auth_scripts([bs(T.make_delegate_key_witness(SEEDS[d1], bytes(w_), sf)), bs(lock)], dict(cache)):
                acc.append(bit)
        out.append(('delegate: honest certificate accepted (bit sweep baseline)', None, None, None, honest is True))
        out.append(('delegate: every single-bit corruption of the certificate is refused (%d bits)%s' % (len(base) * 8,
                    (' -- ACCEPTED with bit(s) %s flipped; certificate %s lock %s cache %s' % (acc[:8], base.hex(), bs(lock).hex(), tsh.cache_str(cache, False))) if acc else ''),
                    None, None, None, not acc))
    pf = perturb_fields(rng, sf)
    out.append(('delegate:covered-field-changed', [bs(T.make_delegate_key_witness(SEEDS[d1], cert, sf)), bs(lock)], dict(pf, timestamp=t), cfg, False))
    # a Certificate OBJECT has a history: packed once (a witness was made from it), then a field is edited in place — with or without the
    # root signing again — and it is packed again: the second packing must describe the object as it is now
    cobj = T.make_delegate_key_cert(SEEDS[root], PUBS[d1], now - 10, now + 10)
    if isinstance(cobj, _RealT.Certificate):
        first = cobj.pack()
        out.append(('delegate: certificate object, first use', [bs(T.make_delegate_key_witness(SEEDS[d1], cobj, sf)), bs(lock)], cache, cfg, True))
        which = rng.choice(['end_ts', 'begin_ts', 'can_further_delegate', 'delegate_pubkey'])
        if which == 'end_ts': cobj.end_ts = now + 100000
        elif which == 'begin_ts': cobj.begin_ts = now - 100000
        elif which == 'can_further_delegate': cobj.can_further_delegate = not cobj.can_further_delegate
        else: cobj.delegate_pubkey = PUBS[d2]
        try:
            second = cobj.pack()
            rt_ = _RealT.Certificate.unpack(second)
            out.append(('delegate: certificate object edited in place (%s) packs to its present fields' % which, None, None, None,
                        second != first and getattr(rt_, which) == getattr(cobj, which)))
            signer_ = SEEDS[d2] if which == 'delegate_pubkey' else SEEDS[d1]
            out.append(('delegate: certificate object edited in place (%s), root signature kept: refused' % which,
                        [bs(T.make_delegate_key_witness(signer_, cobj, sf)), bs(lock)], cache, cfg, False))
        except BaseException as e:
            out.append(('delegate: packing an edited certificate object raised %s' % type(e).__name__, None, None, None, False))
        # narrowed by the root (signed again) to a window that ends now: refused at t = now
        c2_ = T.make_delegate_key_cert(SEEDS[root], PUBS[d1], now - 10, now + 10)
        c2_.pack()
        c3_ = T.make_delegate_key_cert(SEEDS[root], PUBS[d1], now - 10, now)
        c2_.end_ts, c2_.signature = c3_.end_ts, c3_.signature
        out.append(('delegate: certificate object narrowed to end == t and signed again by the root: refused',
                    [bs(T.make_delegate_key_witness(SEEDS[d1], c2_, sf)), bs(lock)], cache, cfg, False))
    # the slack threshold given per call: run_script(witness + lock, cache, additional_flags={'ts_threshold': X}) — the chain lock checks
    # its windows inside a definition it calls, the single lock at top level; both must apply X
    for thr_, dt_ in ((10, 30), (300, 150), (0, 500), (60, 30)):
        certw = T.make_delegate_key_cert(SEEDS[root], PUBS[d1], now - 10, now + 1000)
        cfgp = tsh.Cfg(flags={'ts_threshold': thr_})
        exp_ = thr_ <= 0 or dt_ < thr_
        out.append(('run_script: delegate lock, per-call ts_threshold=%d, t=now+%d' % (thr_, dt_),
                    [bs(T.make_delegate_key_witness(SEEDS[d1], certw, sf)), bs(T.make_delegate_key_lock(PUBS[root]))], dict(sf, timestamp=now + dt_), cfgp, exp_))
        out.append(('run_script: chain lock, per-call ts_threshold=%d, t=now+%d' % (thr_, dt_),
                    [bs(T.make_delegate_key_chain_witness(SEEDS[d1], [certw], sf)), bs(T.make_delegate_key_chain_lock(PUBS[root]))], dict(sf, timestamp=now + dt_), cfgp, exp_))
    # chains
    L = rng.randint(1, 4)
    ids = [root] + rng.sample([i for i in range(len(SEEDS)) if i != root], L)
    good = []
    for j in range(L):
        good.append(T.make_delegate_key_cert(SEEDS[ids[j]], PUBS[ids[j + 1]], now - 10, now + 10, can_further_delegate=(j < L - 1)))
    clock = T.make_delegate_key_chain_lock(PUBS[root], flh)
    w = T.make_delegate_key_chain_witness(SEEDS[ids[-1]], list(reversed(good)), sf, flh)
    out.append(('chain:honest len=%d' % L, [bs(w), bs(clock)], cache, cfg, True))
    if L >= 2:
        j = rng.randrange(L - 1)
        bad = list(good)
        bad[j] = T.make_delegate_key_cert(SEEDS[ids[j]], PUBS[ids[j + 1]], now - 10, now + 10, can_further_delegate=False)
        out.append(('chain:non-final-cert-forbids-delegation@%d' % j, [bs(T.make_delegate_key_chain_witness(SEEDS[ids[-1]], list(reversed(bad)), sf)), bs(clock)], cache, cfg, False))
        bad = list(good)
        bad[j + 1] = T.make_delegate_key_cert(SEEDS[ids[-1]], PUBS[ids[j + 2]], now - 10, now + 10, can_further_delegate=(j + 1 < L - 1))
        out.append(('chain:cert-signed-by-wrong-key@%d' % (j + 1), [bs(T.make_delegate_key_chain_witness(SEEDS[ids[-1]], list(reversed(bad)), sf)), bs(clock)], cache, cfg, False))
    j = rng.randrange(L)
    bad = list(good)
    bad[j] = T.make_delegate_key_cert(SEEDS[ids[j]], PUBS[ids[j + 1]], now + 1, now + 10, can_further_delegate=(j < L - 1))
    out.append(('chain:cert-not-yet-valid@%d' % j, [bs(T.make_delegate_key_chain_witness(SEEDS[ids[-1]], list(reversed(bad)), sf)), bs(clock)], cache, cfg, False))
    bad = list(good)
    bad[j] = T.make_delegate_key_cert(SEEDS[ids[j]], PUBS[ids[j + 1]], now - 10, now, can_further_delegate=(j < L - 1))
    out.append(('chain:cert-expired-at-t=end@%d' % j, [bs(T.make_delegate_key_chain_witness(SEEDS[ids[-1]], list(reversed(bad)), sf)), bs(clock)], cache, cfg, False))
    other = next(i for i in range(len(SEEDS)) if i not in ids)
    out.append(('chain:final-sig-by-other', [bs(T.make_delegate_key_chain_witness(SEEDS[other], list(reversed(good)), sf)), bs(clock)], cache, cfg, False))
    # certificate serialisation round trip (direct)
    c = T.Certificate(PUBS[d1], rng.choice([0, 1, 127, 128, 255, 256, 2**31 - 1, rng.getrandbits(31)]),
                      rng.choice([0, 2**31 - 1, rng.getrandbits(31)]), rng.random() < 0.5, bytes(64))
    u = T.Certificate.unpack(c.pack())
    ok = (u.delegate_pubkey, u.begin_ts, u.end_ts, u.can_further_delegate, u.signature) == \
         (c.delegate_pubkey, c.begin_ts, c.end_ts, c.can_further_delegate, c.signature)
    out.append(('cert-roundtrip begin=%d end=%d' % (c.begin_ts, c.end_ts), None, None, None, ok))
    return out


def c15(rng):
    out = []
    now = Pins.now
    cfg = tsh.Cfg()
    rcv, ref, other = rng.sample(range(len(SEEDS)), 3)
    sf = fields(rng)
    fl = rng.choice([0, 0, 1 << (int(rng.choice(list(sf))[-1]) - 1), 0x80, 0x03])
    flh = '%02x' % fl
    pre = bytes(rng.getrandbits(8) for _ in range(rng.choice([1, 1, 2, 16, 20, 31, 32, 33, 63, 64, rng.randint(1, 64)])))
    # the refund path is taken with a one-byte non-preimage (the builders' documented convention); it must differ from
    # the real preimage, or the claim branch is the one that runs (a false alarm of this harness in the thorough tier)
    dummy = b'\x00' if pre != b'\x00' else b'\x01'
    timeout = rng.choice([10, 30, 59, 0, 1])       # 0 is a timeout: the refund is open from the moment the lock is made
    deadline = now + timeout
    builders = [(T.make_htlc_sha256_lock, T.make_htlc_witness, {}), (T.make_htlc_shake256_lock, T.make_htlc_witness, {'hash_size': rng.choice([16, 20, 32])}),
                (T.make_htlc2_sha256_lock, T.make_htlc2_witness, {}), (T.make_htlc2_shake256_lock, T.make_htlc2_witness, {'hash_size': rng.choice([16, 20])})]
    lock_f, wit_f, kw = rng.choice(builders)
    lock = lock_f(PUBS[rcv], PUBS[ref], preimage=pre, timeout=timeout, sigflags=flh, **kw)
    nm = lock_f.__name__[5:-5]
    for dt in (0, timeout - 1, timeout, timeout + 1):
        cache = dict(sf, timestamp=now + dt)
        out.append((nm + ':claim t=now%+d' % dt, [bs(wit_f(SEEDS[rcv], pre, sf, flh)), bs(lock)], cache, cfg, True))
        exp = (now + dt >= deadline) and (dt < 60)
        out.append((nm + ':refund t=now%+d deadline=now%+d' % (dt, timeout), [bs(wit_f(SEEDS[ref], dummy, sf, flh)), bs(lock)], cache, cfg, exp))
    cache = dict(sf, timestamp=now + timeout)
    out.append((nm + ':claim-wrong-preimage', [bs(wit_f(SEEDS[rcv], pre + b'x', sf, flh)), bs(lock)], dict(sf, timestamp=now), cfg, False))
    out.append((nm + ':claim-by-refund-key-before-timeout', [bs(wit_f(SEEDS[ref], pre, sf, flh)), bs(lock)], dict(sf, timestamp=now), cfg, False))
    out.append((nm + ':claim-by-other-key', [bs(wit_f(SEEDS[other], pre, sf, flh)), bs(lock)], cache, cfg, False))
    out.append((nm + ':refund-by-other-key', [bs(wit_f(SEEDS[other], dummy, sf, flh)), bs(lock)], cache, cfg, False))
    out.append((nm + ':refund-by-receiver-key', [bs(wit_f(SEEDS[rcv], dummy, sf, flh)), bs(lock)], cache, cfg, False))
    # PTLC
    tw = bytes(rng.getrandbits(8) for _ in range(32)) if rng.random() < 0.6 else None
    t = F.clamp_scalar(tw) if tw else None
    Tp = F.derive_point_from_scalar(t) if tw else None
    lock = T.make_ptlc_lock(PUBS[rcv], PUBS[ref], tweak_point=Tp, timeout=timeout, sigflags=flh)
    for dt in (0, timeout - 1, timeout, timeout + 1):
        cache = dict(sf, timestamp=now + dt)
        out.append(('ptlc:claim tweak=%s t=now%+d' % (bool(tw), dt), [bs(T.make_ptlc_witness(SEEDS[rcv], sf, tweak_scalar=t, sigflags=flh)), bs(lock)], cache, cfg, True))
        out.append(('ptlc:refund t=now%+d' % dt, [bs(T.make_ptlc_refund_witness(SEEDS[ref], sf, flh)), bs(lock)], cache, cfg, (dt >= timeout) and dt < 60))
    cache = dict(sf, timestamp=now + timeout)
    out.append(('ptlc:claim-other-key', [bs(T.make_ptlc_witness(SEEDS[other], sf, tweak_scalar=t, sigflags=flh)), bs(lock)], cache, cfg, False))
    if tw:
        out.append(('ptlc:claim-without-tweak', [bs(T.make_ptlc_witness(SEEDS[rcv], sf, sigflags=flh)), bs(lock)], cache, cfg, False))
        t2 = F.clamp_scalar(bytes(rng.getrandbits(8) for _ in range(32)))
        out.append(('ptlc:claim-wrong-tweak', [bs(T.make_ptlc_witness(SEEDS[rcv], sf, tweak_scalar=t2, sigflags=flh)), bs(lock)], cache, cfg, False))
    out.append(('ptlc:refund-other-key', [bs(T.make_ptlc_refund_witness(SEEDS[other], sf, flh)), bs(lock)], cache, cfg, False))
    # the verifier's slack threshold (functions.flags['ts_threshold']) changes between verifications of one process: a long contract
    # (timeout 3600) refunded exactly at its deadline is 3600 s ahead of the clock — refused under the default slack of 60, accepted
    # when the slack check is disabled (0), refused again under 10; and a refund 25 s ahead is accepted under 60, refused under 10
    for lf_, wf_, kw_ in (rng.choice(builders), (None, None, None)):
        if lf_ is not None:
            lk_long = lf_(PUBS[rcv], PUBS[ref], preimage=pre, timeout=3600, sigflags=flh, **kw_)
            lk_short = lf_(PUBS[rcv], PUBS[ref], preimage=pre, timeout=5, sigflags=flh, **kw_)
            wr_ = wf_(SEEDS[ref], dummy, sf, flh); nm_ = lf_.__name__[5:-5]
        else:
            lk_long = T.make_ptlc_lock(PUBS[rcv], PUBS[ref], timeout=3600, sigflags=flh)
            lk_short = T.make_ptlc_lock(PUBS[rcv], PUBS[ref], timeout=5, sigflags=flh)
            wr_ = T.make_ptlc_refund_witness(SEEDS[ref], sf, flh); nm_ = 'ptlc'
        for thr_ in (60, 0, 10, 60):
            cfg_ = tsh.Cfg() if thr_ == 60 else tsh.Cfg(global_flags={'ts_threshold': thr_})
            tag_ = ' [functions.flags ts_threshold=%d]' % thr_
            out.append((nm_ + ':refund of a 3600 s contract at its deadline' + tag_, [bs(wr_), bs(lk_long)], dict(sf, timestamp=now + 3600), cfg_, thr_ <= 0))
            out.append((nm_ + ':refund of a 5 s contract 25 s ahead of the clock' + tag_, [bs(wr_), bs(lk_short)], dict(sf, timestamp=now + 25), cfg_, thr_ <= 0 or 25 < thr_))
    # ... and given per call: run_script(witness + lock, additional_flags={'ts_threshold': X})
    lkp_ = T.make_ptlc_lock(PUBS[rcv], PUBS[ref], timeout=5, sigflags=flh)
    wrp_ = T.make_ptlc_refund_witness(SEEDS[ref], sf, flh)
    for thr_ in (10, 300, 0, -1):
        for ahead_ in (25, 100):
            out.append(('run_script: ptlc refund %d s ahead of the clock, per-call ts_threshold=%d' % (ahead_, thr_), [bs(wrp_), bs(lkp_)], dict(sf, timestamp=now + ahead_),
                        tsh.Cfg(flags={'ts_threshold': thr_}), thr_ <= 0 or ahead_ < thr_))
    # cross-pairings of the witness kinds with the lock kinds (what each pair must give follows from the exact lock theorems:
    # the model decides, no separate expectation), before and at the deadline, by the receiver and by the refund key
    locks = [(lf.__name__[5:-5], lf(PUBS[rcv], PUBS[ref], preimage=pre, timeout=timeout, sigflags=flh, **kw2)) for lf, _, kw2 in builders]
    locks.append(('ptlc', T.make_ptlc_lock(PUBS[rcv], PUBS[ref], timeout=timeout, sigflags=flh)))
    locks.append(('ptlc-tweaked', lock if tw else T.make_ptlc_lock(PUBS[rcv], PUBS[ref], tweak_point=F.derive_point_from_scalar(F.clamp_scalar(b'\x07' * 32)), timeout=timeout, sigflags=flh)))
    for who, sd in (('receiver', SEEDS[rcv]), ('refund-key', SEEDS[ref])):
        wits = [('htlc-witness', T.make_htlc_witness(sd, pre, sf, flh)), ('htlc-witness(dummy)', T.make_htlc_witness(sd, dummy, sf, flh)),
                ('htlc2-witness', T.make_htlc2_witness(sd, pre, sf, flh)), ('htlc2-witness(dummy)', T.make_htlc2_witness(sd, dummy, sf, flh)),
                ('ptlc-witness', T.make_ptlc_witness(sd, sf, sigflags=flh)), ('ptlc-refund-witness', T.make_ptlc_refund_witness(sd, sf, flh))]
        wn, w = rng.choice(wits)
        for ln, lk in locks:
            dt = rng.choice([0, timeout])
            out.append(('cross: %s by %s against %s lock at t=now%+d (deadline now%+d)' % (wn, who, ln, dt, timeout), [bs(w), bs(lk)],
                        dict(sf, timestamp=now + dt), cfg, None))
    return out


def c16(rng):
    """lock builders on the boundary grid (default ts_threshold, as run_auth_scripts has no flags
    argument); D11 cases are labelled finding=D11. Tuples carry a 6th element (finding id or None)."""
    out = []
    now = Pins.now
    # the embedder configures the slack for run_auth_scripts in the module table functions.flags; the thresholds
    # change between runs of one process (a verifier's configuration has a history)
    for thr in (60, rng.choice([10, 7, 100]), rng.choice([0, -5]), 60):
        cfg = tsh.Cfg() if thr == 60 else tsh.Cfg(global_flags={'ts_threshold': thr})
        tag = '' if thr == 60 else ' [functions.flags ts_threshold=%d]' % thr
        full = thr == 60
        for d_ts in ((-70, -1, 0, 1, 30, 70) if full else (-1, 0, thr - 2, 30)):
            ts = now + d_ts
            for d_t in sorted({d_ts - 1, d_ts, d_ts + 1, thr - 1, thr, thr + 1, 0, 59, 60}):
                t = now + d_t
                within = thr <= 0 or t - now < thr
                for ver in (False, True):
                    pre = [b'\x01'] if ver else []     # 'true' first so that the VERIFY forms end with [ff]
                    lock = bs(T.make_timestamp_after_lock(ts, ver))
                    out.append(('after ts=now%+d t=now%+d verify=%s%s' % (d_ts, d_t, ver, tag), pre + [lock], {'timestamp': t}, cfg, (t >= ts) and within, None))
                    lock = bs(T.make_timestamp_before_lock(ts, ver))
                    finding = 'D11' if (t >= ts and not within) else None
                    out.append(('before ts=now%+d t=now%+d verify=%s%s' % (d_ts, d_t, ver, tag), pre + [lock], {'timestamp': t}, cfg, t < ts, finding))
            for d_e in (d_ts + 1, d_ts + 40):
                end = now + d_e
                for d_t in sorted({d_ts - 1, d_ts, d_e - 1, d_e, d_e + 1, 59, 60, thr - 1, thr}):
                    t = now + d_t
                    within = thr <= 0 or t - now < thr
                    lock = bs(T.make_timestamp_between_lock(ts, end, False))
                    out.append(('between [now%+d,now%+d) t=now%+d%s' % (d_ts, d_e, d_t, tag), [lock], {'timestamp': t}, cfg, (ts <= t < end) and within, None))
    # the threshold given per call (additional_flags of run_script) instead of through functions.flags
    for thr_ in (10, 300, 0):
        for d_t in (5, 30, 150):
            within_ = thr_ <= 0 or d_t < thr_
            cfgp_ = tsh.Cfg(flags={'ts_threshold': thr_})
            out.append(('run_script: after lock, per-call ts_threshold=%d, t=now+%d' % (thr_, d_t), [bs(T.make_timestamp_after_lock(now - 1, False))],
                        {'timestamp': now + d_t}, cfgp_, within_, None))
            out.append(('run_script: between lock, per-call ts_threshold=%d, t=now+%d' % (thr_, d_t), [bs(T.make_timestamp_between_lock(now - 1, now + 1000, False))],
                        {'timestamp': now + d_t}, cfgp_, within_, None))
    # the upper end: constraints beyond 2**31, 2**32 and 2**53 (where a float no longer holds every integer) up to 63 bits, with the slack
    # check switched off per call so that the comparison itself decides
    cfgz_ = tsh.Cfg(flags={'ts_threshold': 0})
    for ts in (2**31 - 1, 2**31, 2**32, 2**53 + 1, 2**62 + 1, rng.getrandbits(62) | (1 << 61) | 1, rng.getrandbits(63) | 1):
        for t in (ts - 1, ts, ts + 1):
            out.append(('run_script: after lock ts=%d t=ts%+d, slack off' % (ts, t - ts), [bs(T.make_timestamp_after_lock(ts, False))], {'timestamp': t}, cfgz_, t >= ts, None))
            out.append(('run_script: before lock ts=%d t=ts%+d, slack off' % (ts, t - ts), [bs(T.make_timestamp_before_lock(ts, False))], {'timestamp': t}, cfgz_, t < ts, None))
        for t in (ts - 1, ts, ts + 4, ts + 5):
            if ts + 5 < 2**63:
                out.append(('run_script: between lock [ts,ts+5) ts=%d t=ts%+d, slack off' % (ts, t - ts), [bs(T.make_timestamp_between_lock(ts, ts + 5, False))],
                            {'timestamp': t}, cfgz_, ts <= t < ts + 5, None))
    # the lower end of the timestamp domain (absolute values; t = 0 is a timestamp, not "none")
    cfg0 = tsh.Cfg()
    for ts in (0, 1, 2):
        for t in (0, 1, 2):
            for ver in (False, True):
                pre = [b'\x01'] if ver else []
                out.append(('after ts=%d t=%d (absolute) verify=%s' % (ts, t, ver), pre + [bs(T.make_timestamp_after_lock(ts, ver))], {'timestamp': t}, cfg0, t >= ts, None))
                out.append(('before ts=%d t=%d (absolute) verify=%s' % (ts, t, ver), pre + [bs(T.make_timestamp_before_lock(ts, ver))], {'timestamp': t}, cfg0, t < ts, None))
        out.append(('between [%d,%d) t=0 (absolute)' % (ts, ts + 3), [bs(T.make_timestamp_between_lock(ts, ts + 3, False))], {'timestamp': 0}, cfg0, ts <= 0 < ts + 3, None))
    return out


def _u16(n): return n.to_bytes(2, 'big')
_OPB = lambda n: bytes([tsh.F.opcodes_inverse['OP_' + n][0]])
# the same instruction at some depth: the slack thresholds of the run apply there as at top level
_C16_CTX = [
    ('if', lambda b: b'\x01' + _OPB('IF') + _u16(len(b)) + b),
    ('if_else/if', lambda b: b'\x01' + _OPB('IF_ELSE') + _u16(len(b)) + b + _u16(0)),
    ('if_else/else', lambda b: b'\x00' + _OPB('IF_ELSE') + _u16(0) + _u16(len(b)) + b),
    ('def/call', lambda b: _OPB('DEF') + b'\x05' + _u16(len(b)) + b + _OPB('CALL') + b'\x05'),
    ('eval', lambda b: (bytes([3, len(b)]) + b if len(b) > 1 else bytes([2]) + b) + _OPB('EVAL')),
    ('if_else/else/if', lambda b: b'\x00' + _OPB('IF_ELSE') + _u16(0) + _u16(len(b) + 4) + (b'\x01' + _OPB('IF') + _u16(len(b)) + b)),
    # inside a loop body that runs once (pop the condition, the instruction, false to end the loop; the false is popped after the loop)
    ('loop', lambda b: b'\x01' + _OPB('LOOP') + _u16(len(b) + 2) + (_OPB('POP0') + b + b'\x00') + _OPB('POP0')),
    # at top level AFTER a loop whose body ran once
    ('after-loop', lambda b: b'\x01' + _OPB('LOOP') + _u16(2) + (_OPB('POP0') + b'\x00') + _OPB('POP0') + b),
    # inside an EXCEPT body (a raise there propagates), and at top level after a TRY whose body raised
    ('except', lambda b: _OPB('TRY_EXCEPT') + _u16(2) + b'\x00' + _OPB('VERIFY') + _u16(len(b)) + b),
    ('after-try', lambda b: _OPB('TRY_EXCEPT') + _u16(2) + b'\x00' + _OPB('VERIFY') + _u16(0) + b),
    ('after-call', lambda b: _OPB('DEF') + b'\x05' + _u16(1) + b'\x01' + _OPB('CALL') + b'\x05' + _OPB('POP0') + b),
    ('loop/if', lambda b: b'\x01' + _OPB('LOOP') + _u16(len(b) + 6) + (_OPB('POP0') + b'\x01' + _OPB('IF') + _u16(len(b)) + b + b'\x00') + _OPB('POP0')),
]


def c16_instr(rng):
    """instruction level: (label, script, cache, cfg, expected top-of-stack bool or 'raise')"""
    out = []
    now = Pins.now
    for thr in (60, 0, -5, 1, 7):
        cfg = tsh.Cfg(flags={} if thr == 60 else {'ts_threshold': thr, 'epoch_threshold': max(thr, 0)})
        ethr = 60 if thr == 60 else max(thr, 0)
        for dc in (-3, -1, 0, 1, thr - 1, thr, thr + 1, 100):
            c = now + dc
            encs = [c.to_bytes(n, 'big') for n in (5, 6, 9)] + [F.int_to_bytes(c)]
            for enc in encs[:2] if rng.random() < 0.7 else encs:
                for dt in (dc - 1, dc, dc + 1, thr - 1, thr, thr + 1):
                    t = now + dt
                    exp = (t >= c) and (thr <= 0 or t - now < thr)
                    for opn, ver in (('CHECK_TIMESTAMP', False), ('CHECK_TIMESTAMP_VERIFY', True)):
                        script = bytes([3, len(enc)]) + enc + bytes([tsh.F.opcodes_inverse['OP_' + opn][0]])
                        ctx = rng.choice(_C16_CTX) if rng.random() < 0.35 else ('top', lambda b: b)
                        out.append(('%s c=now%+d(%dB) t=now%+d thr=%d in %s' % (opn, dc, len(enc), dt, thr, ctx[0]), ctx[1](script),
                                    {'timestamp': t}, cfg, ('raise' if not exp else 'empty') if ver else exp))
                if dc == -3 and thr in (60, 0):
                    for c0 in (0, 1, 2):
                        for t0 in (0, 1):
                            e0 = F.int_to_bytes(c0) if c0 else b'\x00'
                            sc0 = bytes([3, len(e0)]) + e0 + bytes([tsh.F.opcodes_inverse['OP_CHECK_TIMESTAMP'][0]])
                            out.append(('CHECK_TIMESTAMP c=%d t=%d (absolute) thr=%d' % (c0, t0, thr), sc0, {'timestamp': t0}, cfg,
                                        (t0 >= c0) and (thr <= 0 or t0 - now < thr)))
                    # constraint encodings of 1..9 bytes (zero-padded on the left) and random 63-bit values
                    for c0 in (0, 1, 127, 128, 255, 256, 65535, rng.getrandbits(63), rng.getrandbits(rng.randint(8, 62))):
                        need = max(1, (c0.bit_length() + 8) // 8)        # room for the sign bit
                        for nb_ in sorted(set([need, rng.randint(need, 9), 9])):
                            e0 = c0.to_bytes(nb_, 'big')
                            for t0 in (c0 - 1, c0, c0 + 1):
                                if t0 < 0:
                                    continue
                                sc0 = bytes([3, len(e0)]) + e0 + bytes([tsh.F.opcodes_inverse['OP_CHECK_TIMESTAMP'][0]])
                                out.append(('CHECK_TIMESTAMP c=%d (%dB) t=c%+d (absolute) thr=%d' % (c0, nb_, t0 - c0, thr), sc0, {'timestamp': t0}, cfg,
                                            (t0 >= c0) and (thr <= 0 or t0 - now < thr)))
                expe = (c - now) < ethr
                for opn, ver in (('CHECK_EPOCH', False), ('CHECK_EPOCH_VERIFY', True)):
                    script = bytes([3, len(enc)]) + enc + bytes([tsh.F.opcodes_inverse['OP_' + opn][0]])
                    out.append(('%s c=now%+d ethr=%d' % (opn, dc, ethr), script, {}, cfg,
                                ('raise' if not expe else 'empty') if ver else expe))
    return out


# ---------------------------------------------------------------- C04: merklized scripts
LEAF_BODIES = ['true', 'false', 'true verify true', 'push d1 push d1 equal', 'true return false',
               'push d2 push d3 less', 'true true', 'false not',
               # leaves that RAISE (ValueError / ZeroDivisionError / IndexError / TypeError-free classes) with a truthy item beneath: the leaf's own
               # verdict is False, and so is the tree's
               'true push x00 push x%s check_sig x00' % ('11' * 32), 'true push d0 push d0 div_ints', 'true push x0102 push d9 split',
               'true push x00 push x%s check_sig_verify x00 true' % ('11' * 32)]
REC = b'c3'      # recording contract (kind 'none'): INVOKE logs its argument


class LabelledLeaf(_RealT.ScriptLeaf):
    """what an application does with the tree classes: a leaf class of its own"""
    label = 'application data'


def leaf_src(i, body):
    # first instruction(s): invoke the recording contract with the leaf's marker
    return 'push x%02x push d1 push x%s invoke %s' % (i, REC.hex(), body)


def rand_tree(rng, leaves, history=False):
    """random binary tree shape over ScriptLeaf objects (classes used directly).  With history=True the tree is
    grown the way an application grows it: between two graftings, locking/unlocking scripts and commitments of
    the partial trees are asked for (a tree object has a history; the scripts must describe its present)."""
    nodes = list(leaves)
    while len(nodes) > 1:
        i = rng.randrange(len(nodes) - 1)
        a, b = nodes[i], nodes[i + 1]
        nodes[i:i + 2] = [T.ScriptNode(a, b)]
        if history:
            for nd in nodes:
                if rng.random() < 0.7:
                    for l in leaves_of(nd):
                        if rng.random() < 0.8 and l.parent is not None:
                            l.unlocking_script()
                    if not isinstance(nd, T.ScriptLeaf):
                        nd.locking_script(); nd.commitment(); nd.unlocking_script()
    return nodes[0]


def leaves_of(node):
    if isinstance(node, T.ScriptLeaf):
        return [node]
    return leaves_of(node.left) + leaves_of(node.right)


def c04(rng):
    out = []
    cfg = tsh.Cfg(contracts=((REC, 'none'),))
    n = rng.randint(1, 7)
    bodies = [rng.choice(LEAF_BODIES) for _ in range(n)]
    if rng.random() < 0.4:
        # a leaf whose compiled length is exactly 255 / 256 / 257 / 300 bytes (the unlocking script has to push it: the sizes on
        # both sides of the one-byte / two-byte push boundary)
        j_ = rng.randrange(n)
        L_ = rng.choice([255, 256, 256, 257, 300])
        base_ = len(Script.from_src(leaf_src(j_, 'push x00 pop0 true')).bytes) - 1       # the one filler byte
        k_ = L_ - base_
        if 2 <= k_ <= 255 or k_ >= 256:
            k_ = k_ if k_ <= 255 else k_ - 1          # a filler of 256+ bytes needs a two-byte size
            bodies[j_] = 'push x%s pop0 true' % ('bb' * k_)
    srcs = [leaf_src(i, b) for i, b in enumerate(bodies)]
    own = [F.run_auth_scripts([Script.from_src(s).bytes], {}, cfg.contract_objs(tsh.Log())) for s in srcs]
    kind = rng.choice(['prioritized', 'balanced', 'classes', 'grown', 'grown-prioritized'])
    if kind == 'prioritized':
        lock, unlocks = T.make_merklized_script_prioritized(list(srcs))
        tree = T.make_script_tree_prioritized(list(srcs))
        out.append(('MT', 'TB prioritized 0 ' + ' '.join(Script.from_src(x).bytes.hex() for x in srcs),
                    'ok %s %s' % (bs(lock).hex(), ','.join(bs(u).hex() for u in unlocks))))
    elif kind == 'balanced':
        Pins.ridx = 1000
        lock, unlocks = T.make_merklized_script_balanced(list(srcs))
        Pins.ridx = 1000
        tree = T.make_script_tree_balanced(list(srcs))
        fills = [l.script.bytes.hex() for l in leaves_of(tree)][len(srcs):]
        out.append(('MT', 'TB balanced %d %s' % (len(fills), ' '.join(fills + [Script.from_src(x).bytes.hex() for x in srcs])),
                    'ok %s %s' % (bs(lock).hex(), ','.join(bs(u).hex() for u in unlocks))))
    elif kind == 'grown-prioritized':
        # make_script_tree_prioritized(more, tree=existing) after the existing tree has been used
        if n < 3:
            for k in range(n, 3):
                srcs.append(leaf_src(k, 'false')); bodies.append('false'); own.append(False)
            n = 3
        cut = rng.randint(1, n - 2)
        tree = T.make_script_tree_prioritized(list(srcs[cut:]))
        for l in leaves_of(tree):
            l.unlocking_script()
        tree.locking_script()
        if rng.random() < 0.5:
            # an attempted extension that fails (a leaf that does not compile, listed before one that does) must leave the old tree intact
            before_ = ([bs(l.unlocking_script()) for l in leaves_of(tree)], bs(tree.locking_script()), tree.pack())
            try:
                T.make_script_tree_prioritized([rng.choice(['if { true', 'push', 'OP_NOT_AN_OP']), 'push x07 push x07 equal'], tree=tree)
                failed_ = False
            except BaseException:
                failed_ = True
            after_ = ([bs(l.unlocking_script()) for l in leaves_of(tree)], bs(tree.locking_script()), tree.pack())
            out.append(('%s: a failed extension (uncompilable leaf) raises and leaves the existing tree, its lock and its unlocking scripts unchanged' % kind,
                        None, None, None, failed_ and before_ == after_, None, None))
        tree = T.make_script_tree_prioritized(list(srcs[:cut]), tree=tree)
        lock = tree.locking_script()
        unlocks = [l.unlocking_script() for l in leaves_of(tree)]
        unlocks = unlocks[:n] if len(unlocks) >= n else unlocks
    else:
        if n == 1:
            srcs.append(leaf_src(1, 'false')); bodies.append('false'); own.append(False); n = 2
        # applications derive their own leaf / script classes (a label, an owner): some or all leaves are instances of a subclass
        sub_ = rng.random() < 0.35
        lv = [(LabelledLeaf if sub_ and rng.random() < 0.7 else T.ScriptLeaf).from_src(s) for s in srcs]
        if sub_:
            kind += '+subclass-leaves'
        tree = rand_tree(rng, lv, history=(kind.startswith('grown')))
        lock = tree.locking_script()
        unlocks = [l.unlocking_script() for l in lv]
    # malformed proofs first (they are refused), then the honest ones: a refused proof must not spoil later runs.
    # (a) the script alone (one item when MERKLEVAL starts); (b) a proof whose deepest sibling hash was dropped
    k0 = rng.randrange(len(unlocks))
    ub = bs(unlocks[k0])
    first_len = 2 + ub[1] if ub[:1] == b'\x03' else None
    out.append(('%s script-only witness (no sibling hash)' % kind, [gpush(Script.from_src(srcs[min(k0, len(srcs) - 1)]).bytes), bs(lock)], {}, cfg, False, None, ''))
    if first_len and first_len < len(ub):
        out.append(('%s proof with its first push dropped' % kind, [ub[first_len:], bs(lock)], {}, cfg, False, None, None))
    for i, u in enumerate(unlocks[:len(bodies)]):
        exp_log = 'v%s:%02x' % (REC.hex(), i)
        out.append(('%s n=%d leaf=%d body=%r' % (kind, n, i, bodies[i] if len(bodies[i]) < 40 else 'padded to %d bytes' % len(Script.from_src(srcs[i]).bytes)), [bs(u), bs(lock)], {}, cfg, own[i], None, exp_log))
    # corruptions: nothing of the supplied script may start
    i = rng.randrange(len(unlocks))
    u = bytearray(bs(unlocks[i]))
    j = rng.randrange(len(u))
    u2 = bytearray(u); u2[j] ^= 1 << rng.randrange(8)
    out.append(('%s corrupted-unlock-byte@%d' % (kind, j), [bytes(u2), bs(lock)], {}, cfg, None, None, 'maybe'))
    # level order: two sibling hashes of a proof exchanged (the deepest proof of the tree)
    def _items(b):
        res, k = [], 0
        while k < len(b):
            if b[k] == 3 and k + 2 <= len(b): ln, h = b[k + 1], 2
            elif b[k] == 4 and k + 3 <= len(b): ln, h = int.from_bytes(b[k + 1:k + 3], 'big'), 3
            elif b[k] == 2: ln, h = 1, 1
            else: return None
            res.append((k, k + h + ln, ln)); k += h + ln
        return res if k == len(b) else None
    deep = max((bs(x) for x in unlocks), key=len)
    its = _items(deep)
    if its:
        hs = [x for x in its if x[2] == 32]
        if len(hs) >= 2:
            (a0, a1, _), (b0, b1, _) = rng.sample(hs, 2)
            if a0 > b0: (a0, a1), (b0, b1) = (b0, b1), (a0, a1)
            if deep[a0:a1] != deep[b0:b1]:
                sw = deep[:a0] + deep[b0:b1] + deep[a1:b0] + deep[a0:a1] + deep[b1:]
                out.append(('%s proof with two sibling hashes exchanged (level order)' % kind, [sw, bs(lock)], {}, cfg, False, None, ''))
    foreign = Script.from_src(leaf_src(99 % 256, 'true'))
    sib = hashlib.sha256(b'x').digest()
    out.append(('%s foreign-leaf' % kind, [bs(Script.from_src('push x%s push x%s' % (sib.hex(), foreign.bytes.hex()))), bs(lock)], {}, cfg, False, None, ''))
    # the tree classes vs model/MerkleTree.v (the definitions the C04 tree theorems are about): the model reads the
    # real pack() bytes, and must produce the same lock, the same unlocking script for every leaf, the same pack
    def paths(node, pre=''):
        if isinstance(node, T.ScriptLeaf):
            return [(pre, node)]
        return paths(node.left, pre + 'L') + paths(node.right, pre + 'R')
    pk = tree.pack()
    for pth, leaf in paths(tree):
        out.append(('MT', 'MT %s %s' % (pk.hex(), pth or '-'),
                    'ok %s %s %s' % (bs(tree.locking_script()).hex(), bs(leaf.unlocking_script()).hex() or '-', pk.hex())))
    # serialisation round trip (direct)
    packed = tree.pack()
    t2 = T.ScriptNode.unpack(packed)
    ok = t2.root() == tree.root() and [bs(l.unlocking_script()) for l in leaves_of(t2)] == [bs(l.unlocking_script()) for l in leaves_of(tree)]
    out.append(('%s pack/unpack n=%d' % (kind, n), None, None, None, ok))
    return out


# ---------------------------------------------------------------- C05: taproot
def ed_add(a, b): return nb.crypto_core_ed25519_add(a, b)


_C05_SWEPT = False


def c05(rng):
    out = []
    cfg = tsh.Cfg(contracts=((REC, 'none'),))
    a, b = rng.sample(range(len(SEEDS)), 2)
    sf = fields(rng)
    body = rng.choice(LEAF_BODIES)
    S = Script.from_src(leaf_src(7, body))
    own = F.run_auth_scripts([S.bytes], {}, cfg.contract_objs(tsh.Log()))
    fl = rng.choice([0, 0, 1 << (int(rng.choice(list(sf))[-1]) - 1)])
    flh = '%02x' % fl
    P = PUBS[a]
    for native in (True, False):
        lock_f = T.make_taproot_lock if native else T.make_nonnative_taproot_lock
        nm = 'taproot' if native else 'nonnative'
        lock = lock_f(P, S, sigflags=flh)
        if native:
            # root formula: P + clamp(sha256(P || sha256(S))) * G
            t = F.clamp_scalar(hashlib.sha256(P + hashlib.sha256(S.bytes).digest()).digest())
            root = ed_add(P, nb.crypto_scalarmult_ed25519_base_noclamp(t))
            ok = bs(lock) == bytes([3, 32]) + root + bytes([F.opcodes_inverse['OP_TAPROOT'][0], fl])
            out.append(('taproot root formula', None, None, None, ok))
        if nm not in _C05_BITS:
            # "all corruptions of script, key, signature and root": once per worker process every single bit of the signature
            # (key path), of the committed script and of the internal key (script path) and of the root inside the lock is flipped
            _C05_BITS.add(nm)
            Sok = Script.from_src('push d1 push d1 equal')
            lk0 = bs(lock_f(P, Sok, sigflags='00'))
            t0 = F.clamp_scalar(hashlib.sha256(P + hashlib.sha256(Sok.bytes).digest()).digest())
            root0 = ed_add(P, nb.crypto_scalarmult_ed25519_base_noclamp(t0))
            wk0 = bs(T.make_taproot_witness_keyspend(SEEDS[a], sf, Sok, sigflags='00'))
            ws0 = bs(T.make_taproot_witness_scriptspend(P, Sok))
            run = lambda w_, l_: F.run_auth_scripts([w_, l_], dict(sf))
            sweep = [('honest key path', None, run(wk0, lk0) is True), ('honest script path', None, run(ws0, lk0) is True)]
            def flips(what, whole, at, ln, use):
                acc = []
                for bit in range(ln * 8):
                    w_ = bytearray(whole); w_[at + bit // 8] ^= 1 << (bit % 8)
                    if use(bytes(w_)):
                        acc.append(bit)
                sweep.append(('every single-bit corruption of the %s is refused (%d bits)' % (what, ln * 8), acc, not acc))
            if wk0[:2] == bytes([3, 64]):
                flips('signature (key path)', wk0, 2, 64, lambda w_: run(w_, lk0))
            if ws0.find(P) >= 0:
                flips('internal key (script path)', ws0, ws0.find(P), 32, lambda w_: run(w_, lk0))
            k_ = ws0.find(bytes([len(Sok.bytes)]) + Sok.bytes)
            if k_ >= 0:
                flips('committed script (script path)', ws0, k_ + 1, len(Sok.bytes), lambda w_: run(w_, lk0))
            if lk0.count(root0) == 1:
                flips('root in the lock, script path', lk0, lk0.find(root0), 32, lambda l_: run(ws0, l_))
                flips('root in the lock, key path', lk0, lk0.find(root0), 32, lambda l_: run(wk0, l_))
            for what, acc, ok_ in sweep:
                out.append(('%s bit sweep: %s%s' % (nm, what, (' -- ACCEPTED with bit(s) %s flipped; witness(key path)=%s witness(script path)=%s lock=%s cache=%s'
                            % (acc[:8], wk0.hex(), ws0.hex(), lk0.hex(), tsh.cache_str(sf, False))) if acc else ''), None, None, None, ok_))
        # a committed script put together from Script objects that were already used (committed to, locked, unlocked) on their own:
        # the sum is a script of its own, with its own commitment
        v1_ = Script.from_src('true')
        lock_f(P, v1_, sigflags=flh); v1_.commitment(); T.make_taproot_witness_scriptspend(P, v1_)
        v2_ = v1_ + Script.from_src('push d5 push d5 equal verify')
        lk2_ = lock_f(P, v2_, sigflags=flh)
        if native:
            t2_ = F.clamp_scalar(hashlib.sha256(P + hashlib.sha256(v2_.bytes).digest()).digest())
            out.append(('taproot root formula (script summed from used Script objects)', None, None, None,
                        bs(lk2_) == bytes([3, 32]) + ed_add(P, nb.crypto_scalarmult_ed25519_base_noclamp(t2_)) + bytes([F.opcodes_inverse['OP_TAPROOT'][0], fl])))
        out.append((nm + ':scriptspend of a script summed from used Script objects', [bs(T.make_taproot_witness_scriptspend(P, v2_)), bs(lk2_)], sf, cfg, True, None, ''))
        out.append((nm + ':scriptspend with only the first summand of the committed script', [bs(T.make_taproot_witness_scriptspend(P, Script.from_src('true'))), bs(lk2_)], sf, cfg, False, None, ''))
        out.append((nm + ':scriptspend with the (used) first summand object', [bs(T.make_taproot_witness_scriptspend(P, v1_)), bs(lk2_)], sf, cfg, False, None, ''))
        # the optional commitment argument in every shape callers pass for "not given" (None, missing, b'') and given alone or together
        # with the script: one lock, one key-spend witness
        cm_ = hashlib.sha256(S.bytes).digest()
        for what_, lkw_, wkw_ in (('commitment=b\'\' beside the script', dict(script=S, script_commitment=b''), dict(committed_script=S, script_commitment=b'')),
                                  ('commitment=None beside the script', dict(script=S, script_commitment=None), dict(committed_script=S, script_commitment=None)),
                                  ('commitment alone', dict(script_commitment=cm_), dict(script_commitment=cm_)),
                                  ('commitment and script', dict(script=S, script_commitment=cm_), dict(committed_script=S, script_commitment=cm_)),
                                  ('commitment as bytearray beside the script', dict(script=S, script_commitment=cm_), dict(committed_script=S, script_commitment=bytearray(cm_)))):
            lk_ = lock_f(P, sigflags=flh, **lkw_)
            out.append((nm + ': lock built with %s is the lock built from the script' % what_, None, None, None, bs(lk_) == bs(lock)))
            out.append((nm + ':keyspend, witness built with %s' % what_, [bs(T.make_taproot_witness_keyspend(SEEDS[a], sf, sigflags=flh, **wkw_)), bs(lock)], sf, cfg, True, None, ''))
        wk = T.make_taproot_witness_keyspend(SEEDS[a], sf, S, sigflags=flh)
        out.append((nm + ':keyspend', [bs(wk), bs(lock)], sf, cfg, True, None, ''))
        out.append((nm + ':keyspend-other-key', [bs(T.make_taproot_witness_keyspend(SEEDS[b], sf, S, sigflags=flh)), bs(lock)], sf, cfg, False, None, ''))
        pf = perturb_fields(rng, sf, fl)
        if pf:
            out.append((nm + ':keyspend-covered-field-changed', [bs(wk), bs(lock)], pf, cfg, False, None, ''))
        ws = T.make_taproot_witness_scriptspend(P, S)
        out.append((nm + ':scriptspend body=%r' % body, [bs(ws), bs(lock)], sf, cfg, own, None, 'v%s:07' % REC.hex()))
        S2 = Script.from_src(leaf_src(8, 'true'))
        out.append((nm + ':scriptspend-other-script', [bs(T.make_taproot_witness_scriptspend(P, S2)), bs(lock)], sf, cfg, False, None, ''))
        out.append((nm + ':scriptspend-other-key', [bs(T.make_taproot_witness_scriptspend(PUBS[b], S)), bs(lock)], sf, cfg, False, None, ''))
        # a witness may write bytes-keyed cache entries before the lock runs: whatever it plants there (the root, under keys derived from
        # the pair it is about to present), a pair that does not recompute to the root stays refused
        if native or rng.random() < 0.5:
            t_ = F.clamp_scalar(hashlib.sha256(P + hashlib.sha256(S.bytes).digest()).digest())
            rt_ = ed_add(P, nb.crypto_scalarmult_ed25519_base_noclamp(t_))
            hs2 = hashlib.sha256(S2.bytes).digest()
            kk = rng.choice([('sha256(key || sha256(script))', hashlib.sha256(PUBS[b] + hs2).digest()), ('sha256(script)', hs2), ('the key', PUBS[b]),
                             ('the root', rt_), ('sha256(key || script)', hashlib.sha256(PUBS[b] + S2.bytes).digest())])
            plant = gpush(rt_) + bytes([F.opcodes_inverse['OP_WRITE_CACHE'][0], len(kk[1])]) + kk[1] + b'\x01'
            out.append((nm + ':scriptspend of an uncommitted pair after the witness planted the root in the cache under ' + kk[0],
                        [plant + bs(T.make_taproot_witness_scriptspend(PUBS[b], S2)), bs(lock)], sf, cfg, False, None, ''))
        # a lock whose root differs in one bit (the x-sign bit 255 included) is not unlocked by the honest pair
        if native:
            lb = bytearray(bs(lock)); bit = rng.choice([255, 255, rng.randrange(256)])
            lb[2 + (bit // 8)] ^= 1 << (bit % 8)
            out.append((nm + ':scriptspend-against-root-bit-%d-flipped' % bit, [bs(ws), bytes(lb)], sf, cfg, False, None, ''))
        if not native:
            # native / non-native equivalence on committed scripts that look at what the lock itself leaves around:
            # definition 0 of the non-native lock (finding D18) and its extra call-budget unit (finding D19)
            Sd = Script.from_src('call d0 pop0 true')
            out.append(('nonnative:scriptspend of a committed script that calls definition 0 (own verdict False)',
                        [bs(T.make_taproot_witness_scriptspend(P, Sd)), bs(T.make_nonnative_taproot_lock(P, Sd, sigflags=flh))],
                        sf, cfg, False, 'D18', None))
            out.append(('taproot:scriptspend of a committed script that calls definition 0 (own verdict False)',
                        [bs(T.make_taproot_witness_scriptspend(P, Sd)), bs(T.make_taproot_lock(P, Sd, sigflags=flh))],
                        sf, cfg, False, None, None))
            # ... and the point that OP_DERIVE_POINT leaves in the cache under the bytes key X (default flag 2; finding D23)
            Sx = Script.from_src('read_cache x58 pop0 true')
            out.append(('nonnative:scriptspend of a committed script that reads cache key X (own verdict False)',
                        [bs(T.make_taproot_witness_scriptspend(P, Sx)), bs(T.make_nonnative_taproot_lock(P, Sx, sigflags=flh))],
                        sf, cfg, False, 'D23', None))
            out.append(('taproot:scriptspend of a committed script that reads cache key X (own verdict False)',
                        [bs(T.make_taproot_witness_scriptspend(P, Sx)), bs(T.make_taproot_lock(P, Sx, sigflags=flh))],
                        sf, cfg, False, None, None))
            # the key path evaluates no script: it needs neither call budget nor OP_EVAL
            c0_ = tsh.Cfg(contracts=((REC, 'none'),), limit=0)
            wk0_ = bs(T.make_taproot_witness_keyspend(SEEDS[a], sf, S, sigflags=flh))
            out.append(('taproot:keyspend under callstack_limit 0', [wk0_, bs(T.make_taproot_lock(P, S, sigflags=flh))], sf, c0_, True, None, ''))
            out.append(('run_script: taproot keyspend with OP_EVAL disallowed', [wk0_, bs(T.make_taproot_lock(P, S, sigflags=flh))], sf,
                        tsh.Cfg(contracts=((REC, 'none'),), flags={'disallow_OP_EVAL': True}), True, None, ''))
            burn_ = bytes([F.opcodes_inverse['OP_DEF'][0], 5, 0, 1, 1]) + bytes([F.opcodes_inverse['OP_CALL'][0], 5, F.opcodes_inverse['OP_POP0'][0]])
            out.append(('taproot:keyspend after the witness spent the whole call budget (limit 1)', [burn_ + wk0_, bs(T.make_taproot_lock(P, S, sigflags=flh))], sf,
                        tsh.Cfg(contracts=((REC, 'none'),), limit=1), True, None, ''))
            out.append(('nonnative:keyspend under callstack_limit 0', [wk0_, bs(T.make_nonnative_taproot_lock(P, S, sigflags=flh))], sf, c0_, None, None, None))
            c1 = tsh.Cfg(contracts=((REC, 'none'),), limit=1)
            Sb = Script.from_src('true pop0 true')
            out.append(('nonnative:scriptspend under callstack_limit 1 (native lock: True)',
                        [bs(T.make_taproot_witness_scriptspend(P, Sb)), bs(T.make_nonnative_taproot_lock(P, Sb, sigflags=flh))],
                        sf, c1, True, 'D19', None))
            out.append(('taproot:scriptspend under callstack_limit 1',
                        [bs(T.make_taproot_witness_scriptspend(P, Sb)), bs(T.make_taproot_lock(P, Sb, sigflags=flh))],
                        sf, c1, True, None, None))
        if native:
            # the lock's flag byte is data of OP_TAPROOT whatever its value: a (script, key) pair that does not
            # recompute to the root is refused under every flag byte, with or without further items below
            global _C05_SWEPT
            sweep = list(range(256)) if not _C05_SWEPT else [rng.randrange(256) for _ in range(6)]
            _C05_SWEPT = True         # every worker process sweeps all 256 flag bytes once, then samples
            for fb in sweep:
                lk = T.make_taproot_lock(P, S, sigflags='%02x' % fb)
                wrong = rng.choice([T.make_taproot_witness_scriptspend(P, S2), T.make_taproot_witness_scriptspend(PUBS[b], S),
                                    T.make_taproot_witness_scriptspend(PUBS[b], S2)])
                below = rng.choice([b'', b'', bytes([F.opcodes_inverse['OP_TRUE'][0]]), bytes([F.opcodes_inverse['OP_FALSE'][0]])])
                out.append(('taproot:scriptspend-mismatch under lock flag byte %02x%s' % (fb, ' (+item below)' if below else ''),
                            [below + bs(wrong), bs(lk)], sf, cfg, False, None, ''))
        cands = [f for f in (1, 2, 4, 8, 0x10, 0x20, 0x40, 0x80) if f & ~fl]
        if bad_flag := (rng.choice(cands) if cands else None):
            out.append((nm + ':keyspend-flag-not-permitted', [bs(T.make_taproot_witness_keyspend(SEEDS[a], sf, S, sigflags='%02x' % bad_flag)), bs(lock)], sf, cfg, False, None, ''))
    # a 32-byte "key" that is not a point at all, alone and with a true planted beneath the pair: refused by both locks
    npk = bytes(rng.getrandbits(8) for _ in range(32))
    for _ in range(20):
        if not nb.crypto_core_ed25519_is_valid_point(npk):
            break
        npk = bytes(rng.getrandbits(8) for _ in range(32))
    if not nb.crypto_core_ed25519_is_valid_point(npk):
        Sq_ = Script.from_src('push d1 push d1 equal')
        for lf_, nm_ in ((T.make_taproot_lock, 'taproot'), (T.make_nonnative_taproot_lock, 'nonnative')):
            lk_ = bs(lf_(P, Sq_, sigflags='00'))
            for pre_, tag_ in ((b'', ''), (b'\x01', ' with a true planted beneath'), (b'\x01\x01', ' with two items planted beneath')):
                out.append(('%s:scriptspend with a 32-byte key that is not a curve point%s' % (nm_, tag_), [pre_ + gpush(Sq_.bytes) + gpush(npk), lk_], sf, tsh.Cfg(), False, None, None))
    # corruption of the KEY by a small-order component: P' = P + (a point of order 8) is on the curve but not a valid ed25519 point;
    # a root computed for P' must not be spendable through the script path under either lock (and the builders refuse such a key)
    tors = bytes.fromhex(rng.choice(['c7176a703d4dd84fba3c0b760d10670f2a2053fa2c39ccc64ec7fd7792ac037a',
                                     '26e8958fc2b227b045c3f489f2ef98f0d5dfac05d3c63339b13802886d53fc05',
                                     '0000000000000000000000000000000000000000000000000000000000000000',
                                     'ecffffffffffffffffffffffffffffffffffffffffffffffffffffffffffff7f']))
    try:
        Pm = nb.crypto_core_ed25519_add(P, tors)
        St = Script.from_src('push d1 push d1 equal')
        tm = F.clamp_scalar(hashlib.sha256(Pm + hashlib.sha256(St.bytes).digest()).digest())
        rootm = nb.crypto_core_ed25519_add(Pm, nb.crypto_scalarmult_ed25519_base_noclamp(tm))
        good_n, good_nn = bs(T.make_taproot_lock(P, St, sigflags='00')), bs(T.make_nonnative_taproot_lock(P, St, sigflags='00'))
        t0_ = F.clamp_scalar(hashlib.sha256(P + hashlib.sha256(St.bytes).digest()).digest())
        root0_ = ed_add(P, nb.crypto_scalarmult_ed25519_base_noclamp(t0_))
        wm = gpush(St.bytes) + gpush(Pm)
        if not nb.crypto_core_ed25519_is_valid_point(Pm) and good_n.count(root0_) == 1 and good_nn.count(root0_) == 1:
            out.append(('taproot:scriptspend with an internal key of mixed order (honest key + small-order point), lock root computed for it',
                        [wm, good_n.replace(root0_, rootm)], sf, tsh.Cfg(), False, None, None))
            out.append(('nonnative:scriptspend with an internal key of mixed order (honest key + small-order point), lock root computed for it',
                        [wm, good_nn.replace(root0_, rootm)], sf, tsh.Cfg(), False, None, None))
            try:
                T.make_taproot_lock(Pm, St); refused = False
            except BaseException:
                refused = True
            out.append(('taproot: make_taproot_lock refuses an internal key that is not a valid ed25519 point', None, None, None, refused))
    except BaseException:
        pass
    # "all witnesses from the C01 adversarial witness family for native vs non-native": random programs of the VM generator, alone
    # and in front of the honest witnesses, against both locks of the same (key, script) — the two verdicts must be equal (the three
    # known footprints D18 / D19 / D23 need a committed script written to look at them; those are the tagged scenarios above)
    import gen as _gen
    g_ = _gen.Gen(rng, max_depth=2)
    Sq = Script.from_src('push d1 push d1 equal')
    ln_, lnn_ = bs(T.make_taproot_lock(P, Sq, sigflags='00')), bs(T.make_nonnative_taproot_lock(P, Sq, sigflags='00'))
    honest = [b'', bs(T.make_taproot_witness_keyspend(SEEDS[a], sf, Sq, sigflags='00')), bs(T.make_taproot_witness_scriptspend(P, Sq))]
    for k_ in range(6):
        body_ = g_.program(1, 4)
        pre_ = rng.choice([body_,
                           bytes([F.opcodes_inverse['OP_DEF'][0], rng.choice([0, 0, 1, 7])]) + len(body_).to_bytes(2, 'big') + body_,      # a definition (handle 0 too), not called
                           gpush(bytes(rng.getrandbits(8) for _ in range(rng.randint(0, 9)))) + bytes([F.opcodes_inverse['OP_WRITE_CACHE'][0], 1]) +
                           rng.choice([b'X', b'P', b'R', b'k']) + b'\x01']) if len(body_) < 60000 else body_
        w_ = pre_ + honest[k_ % 3]
        if len(w_) > 4000:
            continue
        try:
            vn = F.run_auth_scripts([w_, ln_], dict(sf)); vnn = F.run_auth_scripts([w_, lnn_], dict(sf))
        except BaseException as e:
            vn, vnn = 'raise', repr(e)
        out.append(('adversarial witness (%s): native %s / non-native %s%s' % (('alone', 'before the key-spend witness', 'before the script-spend witness')[k_ % 3],
                    vn, vnn, '' if vn == vnn else ' -- DIFFER: witness %s cache %s native lock %s non-native lock %s' % (w_.hex(), tsh.cache_str(sf, False), ln_.hex(), lnn_.hex())),
                    None, None, None, vn == vnn))
        out.append(('adversarial witness against the native lock', [w_, ln_], sf, tsh.Cfg(), None, None, None))
        out.append(('adversarial witness against the non-native lock', [w_, lnn_], sf, tsh.Cfg(), None, None, None))
    return out


# ---------------------------------------------------------------- C17: adapter signatures
L_ORDER = 2**252 + 27742317777372353535851937790883648493
_C17_SWEPT = False
_C14_SWEPT = False
_C05_BITS = set()


def c17(rng):
    out = []
    cfg = tsh.Cfg()
    a, b = rng.sample(range(len(SEEDS)), 2)
    seed, X = SEEDS[a], PUBS[a]
    sf = fields(rng)
    # tweak scalars: random 32-byte strings (unclamped), already clamped ones, and the edge scalars 0, 1, L-1
    tw = rng.choice([bytes(rng.getrandbits(8) for _ in range(32))] * 4 + [F.clamp_scalar(bytes(rng.getrandbits(8) for _ in range(32))),
                    (0).to_bytes(32, 'little'), (1).to_bytes(32, 'little'), (L_ORDER - 1).to_bytes(32, 'little')])
    t = F.clamp_scalar(tw)
    if int.from_bytes(t, 'little') % L_ORDER == 0:
        # t = 0 (mod L): T = t*G is the identity, which the library does not accept as a point anywhere — no adapter exists for it;
        # what must hold is that it is refused consistently (derive, make, check, decrypt), never half-accepted
        ident = (1).to_bytes(32, 'little')
        def raises(script):
            try:
                F.run_script(script); return False
            except BaseException:
                return True
        try:
            F.derive_point_from_scalar(t); d = False
        except BaseException:
            d = True
        out.append(('adapter-op: tweak scalar 0 has no tweak point (derive_point_from_scalar refuses)', None, None, None, d))
        out.append(('adapter-op: the identity is refused as tweak point by MAKE_ADAPTER_SIG_PUBLIC', None, None, None,
                    raises(gpush(seed) + gpush(b'm') + gpush(ident) + bytes([F.opcodes_inverse['OP_MAKE_ADAPTER_SIG_PUBLIC'][0]]))))
        out.append(('adapter-op: the identity is refused as tweak point by CHECK_ADAPTER_SIG', None, None, None,
                    raises(gpush(bytes(32)) + gpush(X) + gpush(b'm') + gpush(ident) + gpush(X) + bytes([F.opcodes_inverse['OP_CHECK_ADAPTER_SIG'][0]]))))
        out.append(('adapter-op: tweak scalar 0 is refused by DECRYPT_ADAPTER_SIG', None, None, None,
                    raises(gpush(bytes(32)) + gpush(X) + gpush(tw) + bytes([F.opcodes_inverse['OP_DECRYPT_ADAPTER_SIG'][0]]))))
        return out
    Tp = F.derive_point_from_scalar(t)
    # messages of 0..512 bytes at instruction level (the builders below sign the sigfields)
    m = bytes(rng.getrandbits(8) for _ in range(rng.choice([0, 1, 31, 32, 64, 255, 256, 511, 512, rng.randint(0, 512)]))) \
        if rng.random() < 0.5 else b''.join(sf[k] for k in sorted(sf))
    # instruction level through run_script (direct facts computed with PyNaCl)
    _, st, _ = F.run_script(gpush(seed) + gpush(m) + gpush(Tp) + bytes([F.opcodes_inverse['OP_MAKE_ADAPTER_SIG_PUBLIC'][0]]))
    sa, R = st.get(), st.get()

    def chk(sa_, R_, m_, T_, X_):
        try:
            _, s, _ = F.run_script(gpush(sa_) + gpush(R_) + gpush(m_) + gpush(T_) + gpush(X_) + bytes([F.opcodes_inverse['OP_CHECK_ADAPTER_SIG'][0]]))
            return s.get() == b'\xff'
        except BaseException:
            return False
    facts = [('adapter passes its check', chk(sa, R, m, Tp, X))]
    flip = lambda x: bytes([x[0] ^ 1]) + x[1:]
    sa2 = nb.crypto_core_ed25519_scalar_add(sa, (1).to_bytes(32, 'little'))
    facts.append(('altered sa fails', not chk(sa2, R, m, Tp, X)))
    sa_int = int.from_bytes(sa, 'little')
    noncanon = [(sa_int + k_ * L_ORDER).to_bytes(32, 'little') for k_ in range(1, 17) if sa_int + k_ * L_ORDER < 2 ** 256]
    acc_ = [x_.hex() for x_ in noncanon if chk(x_, R, m, Tp, X)]
    facts.append(('every non-canonical representative sa + k*L (k = 1..%d) is refused%s' % (len(noncanon), (' -- ACCEPTED: %s with R=%s m=%s T=%s X=%s' % (acc_[:2], R.hex(), m.hex(), Tp.hex(), X.hex())) if acc_ else ''), not acc_))
    facts.append(('altered R fails', not chk(sa, PUBS[b], m, Tp, X)))
    facts.append(('altered T fails', not chk(sa, R, m, PUBS[b], X)))
    facts.append(('altered message fails', not chk(sa, R, m + b'!', Tp, X)))
    facts.append(('altered key fails', not chk(sa, R, m, Tp, PUBS[b])))
    # "every single-bit corruption of each of the five check inputs": all bits once per worker process, a sample afterwards
    # (the top bit of each 32-byte input always: scalar and point codecs treat it specially)
    global _C17_SWEPT
    full = not _C17_SWEPT
    _C17_SWEPT = True
    inputs = [sa, R, m, Tp, X]
    for pos, nm in enumerate(('sa', 'R', 'message', 'T', 'key')):
        v = inputs[pos]
        nbits = len(v) * 8
        if nbits == 0:
            continue
        bits = range(nbits) if full and nbits <= 512 else sorted(set([nbits - 1, (nbits - 1) ^ 7, 0, 7] + [rng.randrange(nbits) for _ in range(12)]))
        accepted = []
        for bit in bits:
            w = bytearray(v); w[bit // 8] ^= 1 << (bit % 8)
            args = list(inputs); args[pos] = bytes(w)
            if chk(*args):
                accepted.append(bit)
        facts.append(('single-bit corruption of %s fails (%d bits tried%s)' % (nm, len(bits), ', accepted with bit(s) %s of %s flipped (bit k = byte k//8, mask 1<<k%%8): OP_CHECK_ADAPTER_SIG on sa=%s R=%s m=%s T=%s X=%s'
                      % (accepted, nm, sa.hex(), R.hex(), m.hex(), Tp.hex(), X.hex()) if accepted else ''), not accepted))
    # a point with a small-order component (valid curve point, not a valid ed25519 point) in place of T, R or X is refused
    tors_ = bytes.fromhex('c7176a703d4dd84fba3c0b760d10670f2a2053fa2c39ccc64ec7fd7792ac037a')
    for nm_, args_ in (('T', lambda q: (sa, R, m, q, X)), ('R', lambda q: (sa, q, m, Tp, X)), ('key', lambda q: (sa, R, m, Tp, q))):
        base_ = {'T': Tp, 'R': R, 'key': X}[nm_]
        try:
            q_ = nb.crypto_core_ed25519_add(base_, tors_)
            facts.append(('%s with a small-order component added is refused' % nm_, not chk(*args_(q_))))
        except BaseException:
            pass
    _, st, _ = F.run_script(gpush(sa) + gpush(R) + gpush(tw) + bytes([F.opcodes_inverse['OP_DECRYPT_ADAPTER_SIG'][0]]))
    s, RT = st.get(), st.get()

    def valid(sig, msg, key):
        try:
            tsh.VerifyKey(key).verify(msg, sig); return True
        except BaseException:
            return False
    facts.append(('decrypted (R+T, sa+t) verifies under X', valid(RT + s, m, X)))
    facts.append(('R+T and sa+t as stated', RT == ed_add(R, Tp) and s == nb.crypto_core_ed25519_scalar_add(sa, t)))
    facts.append(('t recovered as s - sa', nb.crypto_core_ed25519_scalar_sub(s, sa) == nb.crypto_core_ed25519_scalar_reduce(t + bytes(32))))
    facts.append(('adapter itself is not a signature', not valid(R + sa, m, X)))
    t2 = F.clamp_scalar(bytes(rng.getrandbits(8) for _ in range(32)))
    _, st, _ = F.run_script(gpush(sa) + gpush(R) + gpush(t2) + bytes([F.opcodes_inverse['OP_DECRYPT_ADAPTER_SIG'][0]]))
    s2, RT2 = st.get(), st.get()
    facts.append(('decryption with another scalar is not a signature', not valid(RT2 + s2, m, X)))
    for nm, ok in facts:
        out.append(('adapter-op: ' + nm, None, None, None, ok))
    # builders end to end (correspondence + expectation), with and without sigflags
    fl = rng.choice([0, 1 << (int(rng.choice(list(sf))[-1]) - 1)])
    flh = '%02x' % fl
    for maker in ('prv', 'pub'):
        if maker == 'prv':
            l1, l2, l3 = T.make_adapter_locks_prv(X, tw, flh)
        else:
            l1, l3 = T.make_adapter_locks_pub(X, Tp, flh)
            l2 = T.make_adapter_decrypt(tw)
        nm = 'adapter-locks(%s,flags=%s): ' % (maker, flh)
        w = T.make_adapter_witness(seed, Tp, sf, flh)
        out.append((nm + 'witness passes verify lock', [bs(w), bs(l1)], sf, cfg, True))
        out.append((nm + 'other signer fails', [bs(T.make_adapter_witness(SEEDS[b], Tp, sf, flh)), bs(l1)], sf, cfg, False))
        pf = perturb_fields(rng, sf, fl)
        if pf:
            out.append((nm + 'changed covered field fails', [bs(w), bs(l1)], pf, cfg, False))
        out.append((nm + 'decrypt + concat + check_sig', [bs(w), bs(l2), bytes([F.opcodes_inverse['OP_CONCAT'][0]]), bs(l3)], sf, cfg,
                    True if fl == 0 else None))
        out.append((nm + 'wrong tweak then check_sig', [bs(w), bs(T.make_adapter_decrypt(bytes(rng.getrandbits(8) for _ in range(32)))), bytes([F.opcodes_inverse['OP_CONCAT'][0]]), bs(l3)], sf, cfg, False))
        dec = T.decrypt_adapter(w, tw)
        if fl == 0:
            if m == b''.join(sf[k] for k in sorted(sf)):
                out.append(('decrypt_adapter == RT||s', None, None, None, dec == RT + s if sf else True))
        out.append((nm + 'decrypted sig (+flag byte) unlocks', [gpush(dec + (bytes([fl]) if fl else b'')), bs(l3)], sf, cfg, True))
    # the tweak given as a nacl SigningKey (clamp_scalar is typed bytes | SigningKey): t is the key's secret scalar, T its public key
    skt = tsh.SigningKey(SEEDS[b])
    Tk = PUBS[b]
    try:
        l1k, l2k, l3k = T.make_adapter_locks_prv(X, skt, flh)
        l1r, l3r = T.make_adapter_locks_pub(X, Tk, flh)
        out.append(('adapter-locks(prv, tweak as SigningKey) commit to the key\'s public point', None, None, None, bs(l1k) == bs(l1r) and bs(l3k) == bs(l3r)))
        wk = T.make_adapter_witness(seed, Tk, sf, flh)
        out.append(('adapter-locks(prv, tweak as SigningKey): witness passes verify lock', [bs(wk), bs(l1k)], sf, cfg, True))
        out.append(('adapter-locks(prv, tweak as SigningKey): decrypt + concat + check_sig', [bs(wk), bs(T.make_adapter_decrypt(skt)), bytes([F.opcodes_inverse['OP_CONCAT'][0]]), bs(l3k)],
                    sf, cfg, True if fl == 0 else None))
        deck = T.decrypt_adapter(wk, skt)
        mk = b''.join(sf[k] for k in sorted(sf) if not (fl >> (int(k[-1]) - 1)) & 1)
        out.append(('decrypt_adapter(witness, tweak as SigningKey) is a signature by the signer over the covered fields', None, None, None, valid(deck[:32] + deck[32:64], mk, X)))
    except BaseException as e:
        out.append(('adapter builders with the tweak as SigningKey raised %s: %s' % (type(e).__name__, str(e)[:120]), None, None, None, False))
    # an adapter instruction must not use what an earlier adapter instruction of the same run left in the cache:
    # first another adapter is made for a different tweak point (the default flags cache r, R, T, sa), then the honest
    # chain is run
    tw2 = bytes(rng.getrandbits(8) for _ in range(32))
    T2 = F.derive_point_from_scalar(F.clamp_scalar(tw2))
    other = gpush(SEEDS[b]) + gpush(b'other message') + gpush(T2) + bytes([F.opcodes_inverse['OP_MAKE_ADAPTER_SIG_PUBLIC'][0]]) + \
        bytes([F.opcodes_inverse['OP_POP1'][0], 2])
    l1p, l3p = T.make_adapter_locks_pub(X, Tp)
    w0 = T.make_adapter_witness(seed, Tp, sf)
    out.append(('adapter-locks after another adapter was made in the same run: verify lock', [other, bs(w0), bs(l1p)], sf, cfg, True))
    out.append(('adapter-locks after another adapter was made in the same run: decrypt + concat + check_sig',
                [other, bs(w0), bs(T.make_adapter_decrypt(tw)), bytes([F.opcodes_inverse['OP_CONCAT'][0]]), bs(l3p)], sf, cfg, True))
    w = T.make_adapter_witness(seed, Tp, sf)
    # deprecated single-script lock
    lk = T.make_adapter_lock_prv(X, tw)
    out.append(('adapter-lock(single): honest', [gpush(tw) + bs(w), bs(lk)], sf, cfg, True))
    # known finding D15: the PRIVATE variant
    _, st, _ = F.run_script(gpush(m) + gpush(tw) + gpush(seed) + bytes([F.opcodes_inverse['OP_MAKE_ADAPTER_SIG_PRIVATE'][0]]))
    sap, Rp, Tq = st.get(), st.get(), st.get()
    out.append(('adapter-op: PRIVATE variant passes its check', None, None, None, chk(sap, Rp, m, Tq, X), 'D15'))
    return out


def gpush(v):
    if len(v) == 1:
        return bytes([2]) + v
    if len(v) < 256:
        return bytes([3, len(v)]) + v
    return bytes([4]) + len(v).to_bytes(2, 'big') + v


# ---------------------------------------------------------------- C18: AMHL
def c18_empty_seed(rng):
    """seed b'' (a valid bytes value): the class draws a fresh random seed, so nothing can be recomputed from outside;
    the chain must still be consistent with itself"""
    out = []
    cfg = tsh.Cfg()
    n = rng.randint(2, 4)
    ids = rng.sample(range(len(SEEDS)), n)
    pubs = [PUBS[i] for i in ids]; prvs = [SEEDS[i] for i in ids]
    am = T.setup_amhl(b'', pubs)
    out.append(('amhl(seed b\'\'): final key opens the last tweak point', None, None, None, _AM.AMHL.verify_lock_key(am[pubs[-1]][2], am['key'])))
    sfs = [fields(rng) for _ in range(n)]
    wits = [T.make_adapter_witness(prvs[i], am[pubs[i]][2], sfs[i]) for i in range(n)]
    k, sig = am['key'], None
    for i in range(n - 1, -1, -1):
        if sig is not None:
            k = T.release_left_amhl_lock(wits[i + 1].bytes, sig, am[pubs[i + 1]][3])
        sig = T.decrypt_adapter(wits[i].bytes, k)
        out.append(('amhl(seed b\'\'): hop %d unlocks with released scalar' % i, [gpush(sig), bs(am[pubs[i]][1])], sfs[i], cfg, True))
    return out


def c18(rng):
    if rng.random() < 0.12:
        return c18_empty_seed(rng)
    out = []
    cfg = tsh.Cfg()
    n = rng.choice([2, 3, 3, 4, 4, 5, 6, 7, 8])
    ids = rng.sample(range(len(SEEDS)), n)
    pubs = [PUBS[i] for i in ids]
    prvs = [SEEDS[i] for i in ids]
    seed = bytes(rng.getrandbits(8) for _ in range(rng.randint(1, 32)))
    # refund keys for a random subset of the hops (none / all / partial): those hops get a PTLC as second lock
    mode = rng.choice(['none', 'all', 'partial', 'partial', 'first-only'])
    rsub = {'none': [], 'all': list(range(n)), 'first-only': [0]}.get(mode)
    if rsub is None:
        rsub = [i for i in range(n) if rng.random() < 0.5]
    others = [i for i in range(len(SEEDS)) if i not in ids]
    refunds = {pubs[i]: PUBS[rng.choice(others)] for i in rsub}
    # a process sets up many chains; the same seed may have served a longer or a shorter chain before
    prior = rng.choice(['none', 'longer', 'shorter', 'longer'])
    if prior != 'none':
        m = n + rng.randint(1, 2) if prior == 'longer' else max(2, n - 1)
        extra = [PUBS[i] for i in (ids + others + ids)[:m]]
        T.setup_amhl(seed, extra)
        _AM.AMHL.setup(m, seed)
    am = T.setup_amhl(seed, pubs, refund_pubkeys=refunds) if mode != 'none' else T.setup_amhl(seed, pubs)
    setup = _AM.AMHL.setup(n, seed)
    ys, Ys = setup
    G = nb.crypto_scalarmult_ed25519_base_noclamp
    # tweak point of hop i = sum of the points of secrets 0..i
    acc = None
    ok = True
    for i in range(n):
        p = G(ys[i])
        acc = p if acc is None else ed_add(acc, p)
        ok = ok and Ys[i] == acc and am[pubs[i]][2] == acc
    out.append(('amhl: tweak points are prefix sums', None, None, None, ok))
    # model/AMHL.v (the definitions the C18 link theorems are about) vs the AMHL class: whole setup, every view, every
    # check_setup verdict
    def _view(v):
        if len(v) == 1: return 'first:' + v[0].hex()
        if len(v) == 2: return 'last:%s:%s' % (v[0][0].hex(), v[1].hex())
        return 'mid:%s:%s:%s' % (v[0].hex(), v[1].hex(), v[2].hex())
    views = [_AM.AMHL.setup_for(setup, i) for i in range(n + 1)]
    exp = 'ok %s %s %s' % (','.join(y.hex() for y in ys), ','.join(Y.hex() for Y in Ys),
                           ','.join('%s=%s' % (_view(v), 'T' if _AM.AMHL.check_setup(v, i, n) else 'F') for i, v in enumerate(views)))
    out.append(('MT', 'AMHL %d %s' % (n, seed.hex()), exp))
    out.append(('MT', 'AMHLKEY %s %s' % (Ys[-1].hex(), am['key'].hex()), 'ok T'))
    out.append(('MT', 'AMHLKEY %s %s' % (Ys[0].hex(), am['key'].hex()), 'ok ' + ('T' if _AM.AMHL.verify_lock_key(Ys[0], am['key']) else 'F')))
    ok = all(_AM.AMHL.check_setup(_AM.AMHL.setup_for(setup, i), i, n) for i in range(n + 1))
    out.append(('amhl: every view passes check_setup', None, None, None, ok))
    # a view whose two lock points were both shifted by the same point of order 4 or 8 still satisfies right = left + point(secret) as
    # encodings, but is not a view of any chain: check_setup must not answer True (it may raise)
    if n >= 3:
        i_ = rng.randrange(1, n)
        v_ = _AM.AMHL.setup_for(setup, i_)
        if len(v_) == 3:
            tor_ = bytes.fromhex(rng.choice(['c7176a703d4dd84fba3c0b760d10670f2a2053fa2c39ccc64ec7fd7792ac037a', '26e8958fc2b227b045c3f489f2ef98f0d5dfac05d3c63339b13802886d53fc05',
                                             '0000000000000000000000000000000000000000000000000000000000000000', '0000000000000000000000000000000000000000000000000000000000000080']))
            try:
                bad_ = (nb.crypto_core_ed25519_add(v_[0], tor_), nb.crypto_core_ed25519_add(v_[1], tor_), v_[2])
                try:
                    acc_ = _AM.AMHL.check_setup(bad_, i_, n) is True
                except BaseException:
                    acc_ = False
                out.append(('amhl: a view with both lock points shifted by a point of order 4 / 8 is not accepted by check_setup%s' % (
                            (' -- ACCEPTED: party %d of %d, view %s' % (i_, n, [x_.hex() for x_ in bad_])) if acc_ else ''), None, None, None, not acc_))
            except BaseException:
                pass
    ok = len(ys) == n and len(Ys) == n
    out.append(('amhl: setup(n, seed) has n secrets and n points (prior use of the seed: %s)' % prior, None, None, None, ok))
    out.append(('amhl: final key opens last lock (prior use of the seed: %s)' % prior, None, None, None, _AM.AMHL.verify_lock_key(Ys[n - 1], am['key'])))
    sfs = [fields(rng) for _ in range(n)]
    wits = [T.make_adapter_witness(prvs[i], am[pubs[i]][2], sfs[i]) for i in range(n)]
    for i in range(n):
        out.append(('amhl: adapter witness %d passes its lock' % i, [bs(wits[i]), bs(am[pubs[i]][0])], sfs[i], cfg, True))
    # cascade right to left
    k = am['key']
    sig = None
    for i in range(n - 1, -1, -1):
        if sig is not None:
            k = T.release_left_amhl_lock(wits[i + 1].bytes, sig, am[pubs[i + 1]][3])
            out.append(('MT', 'AMHLREL %s %s %s' % (wits[i + 1].bytes.hex(), sig.hex(), am[pubs[i + 1]][3].hex()), 'ok ' + k.hex()))
        sig = T.decrypt_adapter(wits[i].bytes, k)
        tail = bytes([F.opcodes_inverse['OP_TRUE'][0]]) if i in rsub else b''   # PTLC main branch selector
        out.append(('amhl(%s): hop %d (%s) unlocks with released scalar' % (mode, i, 'ptlc' if i in rsub else 'single-sig'),
                    [gpush(sig) + tail, bs(am[pubs[i]][1])], sfs[i], cfg, True))
        if i not in rsub:
            out.append(('amhl(%s): hop %d second lock is the single-sig lock' % (mode, i), None, None, None,
                        bs(am[pubs[i]][1]) == bs(T.make_single_sig_lock(pubs[i]))))
        else:
            out.append(('amhl(%s): hop %d refund branch before the timeout' % (mode, i),
                        [gpush(sig) + bytes([F.opcodes_inverse['OP_FALSE'][0]]), bs(am[pubs[i]][1])], sfs[i], cfg, False))
        # the scalar of any other hop does not (every other hop: whatever order the hops are tried in, only the scalar
        # released by the right-hand neighbour opens hop i), nor does the scalar of the same hop of another chain
        for j in range(n):
            if j != i:
                other = _AM.AMHL.scalar_sum(*ys[:j + 1])
                bad = T.decrypt_adapter(wits[i].bytes, other)
                out.append(('amhl: hop %d with scalar of hop %d' % (i, j), [gpush(bad) + tail, bs(am[pubs[i]][1])], sfs[i], cfg, False))
        ys2 = _AM.AMHL.setup(n, seed + b'another chain')[0]
        bad = T.decrypt_adapter(wits[i].bytes, _AM.AMHL.scalar_sum(*ys2[:i + 1]))
        out.append(('amhl: hop %d with the scalar of hop %d of another chain' % (i, i), [gpush(bad) + tail, bs(am[pubs[i]][1])], sfs[i], cfg, False))
    return out


# ---------------------------------------------------------------- builder bytes vs model/Builders.v
def bld_cases(rng, only=None):
    """(pid, model command, bytes produced by the real builder); only=pid builds the cases of that property alone, so that a builder
    of another property that raises does not get in the way"""
    out = []
    now = Pins.now
    a, b = rng.sample(range(len(SEEDS)), 2)
    pk, pk2 = PUBS[a], PUBS[b]
    fl = rng.choice([0, 1, 0x80, 0xff, rng.getrandbits(8)])
    flh = '%02x' % fl
    hx = lambda x: x.hex() if x else '-'
    sf = fields(rng)
    if only in (None, 'C13'):
        out.append(('C13', 'BLD single_sig_lock %s %s' % (hx(pk), flh), bs(T.make_single_sig_lock(pk, flh))))
        w = T.make_single_sig_witness(SEEDS[a], sf, '00')
        sig = bs(w)[2:]
        out.append(('C13', 'BLD single_sig_witness %s' % hx(sig), bs(w)))
        h20 = hashlib.shake_256(pk).digest(20)
        out.append(('C13', 'BLD single_sig_lock2 %s %s' % (hx(h20), flh), bs(T.make_single_sig_lock2(pk, flh))))
        w2 = T.make_single_sig_witness2(SEEDS[a], sf, '00')
        out.append(('C13', 'BLD single_sig_witness2 %s %s' % (hx(sig), hx(pk)), bs(w2)))
        n = rng.randint(1, 4)
        ks = rng.sample(range(len(SEEDS)), n)
        m = rng.randint(1, n)
        out.append(('C13', 'BLD multisig_lock %s %s %02x' % (','.join(hx(PUBS[k]) for k in ks), flh, m),
                    bs(T.make_multisig_lock([PUBS[k] for k in ks], m, flh))))
        script = Script.from_src(rng.choice(LEAF_BODIES))
        hs = rng.choice([16, 20, 26, 32])
        out.append(('C13', 'BLD scripthash_lock %s %02x' % (hx(hashlib.shake_256(script.bytes).digest(hs)), hs),
                    bs(T.make_scripthash_lock(script, hs))))
        out.append(('C13', 'BLD graftroot_lock %s %s' % (hx(pk), flh), bs(T.make_graftroot_lock(pk, flh))))
    if only in (None, 'C16'):
        ts = now + rng.choice([-100, -1, 0, 30, 1000, 10**6])
        c = F.int_to_bytes(ts)
        for ver in (False, True):
            out.append(('C16', 'BLD ts_after_lock %s %d' % (hx(c), ver), bs(T.make_timestamp_after_lock(ts, ver))))
            out.append(('C16', 'BLD ts_before_lock %s %d' % (hx(c), ver), bs(T.make_timestamp_before_lock(ts, ver))))
            ts2 = ts + rng.choice([1, 50, 10**5])
            out.append(('C16', 'BLD ts_between_lock %s %s %d' % (hx(c), hx(F.int_to_bytes(ts2)), ver), bs(T.make_timestamp_between_lock(ts, ts2, ver))))
    if only in (None, 'C15'):
        timeout = rng.choice([10, 3600, 86400])
        cd = F.int_to_bytes(now + timeout)
        out.append(('C15', 'BLD ptlc_lock %s %s %s %s' % (hx(pk), hx(cd), hx(pk2), flh), bs(T.make_ptlc_lock(pk, pk2, timeout=timeout, sigflags=flh))))
        pre = bytes(rng.getrandbits(8) for _ in range(rng.randint(1, 40)))
        d = hashlib.sha256(pre).digest()
        out.append(('C15', 'BLD htlc_sha256_lock %s %s %s %s %s' % (hx(d), hx(pk), hx(cd), hx(pk2), flh),
                    bs(T.make_htlc_sha256_lock(pk, pk2, preimage=pre, timeout=timeout, sigflags=flh))))
        k = rng.choice([16, 20, 32])
        dk = hashlib.shake_256(pre).digest(k)
        out.append(('C15', 'BLD htlc_shake256_lock %02x %s %s %s %s %s' % (k, hx(dk), hx(pk), hx(cd), hx(pk2), flh),
                    bs(T.make_htlc_shake256_lock(pk, pk2, preimage=pre, hash_size=k, timeout=timeout, sigflags=flh))))
        hr, hf = hashlib.shake_256(pk).digest(20), hashlib.shake_256(pk2).digest(20)
        out.append(('C15', 'BLD htlc2_sha256_lock %s %s %s %s %s' % (hx(d), hx(hr), hx(cd), hx(hf), flh),
                    bs(T.make_htlc2_sha256_lock(pk, pk2, preimage=pre, timeout=timeout, sigflags=flh))))
        hr, hf = hashlib.shake_256(pk).digest(k), hashlib.shake_256(pk2).digest(k)
        out.append(('C15', 'BLD htlc2_shake256_lock %02x %s %s %s %s %s' % (k, hx(dk), hx(hr), hx(cd), hx(hf), flh),
                    bs(T.make_htlc2_shake256_lock(pk, pk2, preimage=pre, hash_size=k, timeout=timeout, sigflags=flh))))
    if only in (None, 'C14'):
        out.append(('C14', 'BLD delegate_key_lock %s %s' % (hx(pk), flh), bs(T.make_delegate_key_lock(pk, flh))))
        cert = T.make_delegate_key_cert(SEEDS[a], pk2, now - 10, now + 10)
        wd = T.make_delegate_key_witness(SEEDS[b], cert, sf)
        out.append(('C14', 'BLD delegate_key_witness %s %s' % (hx(bs(wd)[2:66]), hx(cert.pack())), bs(wd)))
        out.append(('C14', 'BLD delegate_key_chain_lock %s %s' % (hx(pk), flh), bs(T.make_delegate_key_chain_lock(pk, flh))))
        chain_ids = rng.sample(range(len(SEEDS)), 3)
        certs, signer = [], SEEDS[a]
        for ci in chain_ids[:rng.randint(1, 3)]:
            certs.insert(0, T.make_delegate_key_cert(signer, PUBS[ci], now - 10, now + 10))
            signer = SEEDS[ci]
        wc = T.make_delegate_key_chain_witness(signer, list(certs), sf)
        sigc = bs(wc)[2:2 + bs(wc)[1]]
        out.append(('C14', 'BLD delegate_key_chain_witness %s %s' % (hx(sigc), ' '.join(hx(c.pack()) for c in certs)), bs(wc)))
    if only in (None, 'C05'):
        S = Script.from_src(rng.choice(LEAF_BODIES))
        lock = T.make_taproot_lock(pk, S, sigflags=flh)
        out.append(('C05', 'BLD taproot_lock %s %s' % (hx(bs(lock)[2:34]), flh), bs(lock)))
        out.append(('C05', 'BLD nonnative_taproot_lock %s %s' % (hx(bs(lock)[2:34]), flh),
                    bs(T.make_nonnative_taproot_lock(pk, S, sigflags=flh))))
    if only in (None, 'C04'):
        lv = [T.ScriptLeaf.from_src(leaf_src(i, 'true')) for i in range(rng.randint(2, 4))]
        tree = rand_tree(rng, lv)
        out.append(('C04', 'BLD merkle_lock %s' % hx(tree.root()), bs(tree.locking_script())))
    if only in (None, 'C17'):
        tw = bytes(rng.getrandbits(8) for _ in range(32))
        t = F.clamp_scalar(tw)
        Tp = F.derive_point_from_scalar(t)
        l1, l2, l3 = T.make_adapter_locks_prv(pk, tw, flh)
        out.append(('C17', 'BLD adapter_check_lock %s %s %s' % (flh, hx(Tp), hx(pk)), bs(l1)))
        out.append(('C17', 'BLD adapter_decrypt %s' % hx(t), bs(l2)))
        out.append(('C17', 'BLD single_sig_lock %s %s' % (hx(pk), flh), bs(l3)))
    return out


# ---------------------------------------------------------------- builder SOURCE texts vs the compile model
def src_cases(rng):
    """(name, Script) of real builder outputs with random arguments: their .src text goes through the model's
    compile_text (tokenizer + assembler + ~! blocks on the VM model) and must give their .bytes"""
    out = []
    now = Pins.now
    a, b, c = rng.sample(range(len(SEEDS)), 3)
    sf = fields(rng)
    flh = '%02x' % rng.choice([0, 1, 0x80, rng.getrandbits(8)])
    R = _RealT
    S = Script.from_src(rng.choice(LEAF_BODIES))
    pre = bytes(rng.getrandbits(8) for _ in range(rng.randint(1, 40)))
    cert = R.make_delegate_key_cert(SEEDS[a], PUBS[b], now - 10, now + 10)
    mk = [
        ('make_single_sig_lock', lambda: R.make_single_sig_lock(PUBS[a], flh)),
        ('make_single_sig_lock2', lambda: R.make_single_sig_lock2(PUBS[a], flh)),
        ('make_single_sig_witness', lambda: R.make_single_sig_witness(SEEDS[a], sf, flh)),
        ('make_single_sig_witness2', lambda: R.make_single_sig_witness2(SEEDS[a], sf, flh)),
        ('make_multisig_lock', lambda: R.make_multisig_lock([PUBS[a], PUBS[b], PUBS[c]], rng.randint(1, 3), flh)),
        ('make_timestamp_after_lock', lambda: R.make_timestamp_after_lock(now + rng.choice([-200, 0, 5, 300]), rng.random() < 0.5)),
        ('make_timestamp_before_lock', lambda: R.make_timestamp_before_lock(now + rng.choice([-200, 0, 5, 300]), rng.random() < 0.5)),
        ('make_scripthash_lock', lambda: R.make_scripthash_lock(S, rng.choice([16, 20, 26, 32]))),
        ('make_scripthash_witness', lambda: R.make_scripthash_witness(S)),
        ('make_ptlc_lock', lambda: R.make_ptlc_lock(PUBS[a], PUBS[b], timeout=rng.choice([10, 60, 86400]), sigflags=flh)),
        ('make_htlc_sha256_lock', lambda: R.make_htlc_sha256_lock(PUBS[a], PUBS[b], preimage=pre, timeout=30, sigflags=flh)),
        ('make_htlc_shake256_lock', lambda: R.make_htlc_shake256_lock(PUBS[a], PUBS[b], preimage=pre, hash_size=rng.choice([16, 20, 32]), timeout=30, sigflags=flh)),
        ('make_htlc2_sha256_lock', lambda: R.make_htlc2_sha256_lock(PUBS[a], PUBS[b], preimage=pre, timeout=30, sigflags=flh)),
        ('make_htlc2_shake256_lock', lambda: R.make_htlc2_shake256_lock(PUBS[a], PUBS[b], preimage=pre, hash_size=20, timeout=30, sigflags=flh)),
        ('make_htlc_witness', lambda: R.make_htlc_witness(SEEDS[a], pre, sf, flh)),
        ('make_delegate_key_lock', lambda: R.make_delegate_key_lock(PUBS[a], flh)),
        ('make_delegate_key_chain_lock', lambda: R.make_delegate_key_chain_lock(PUBS[a], flh)),
        ('make_delegate_key_witness', lambda: R.make_delegate_key_witness(SEEDS[b], cert, sf, flh)),
        ('make_graftroot_witness_keyspend', lambda: R.make_graftroot_witness_keyspend(SEEDS[a], sf, flh)),
        ('make_taproot_lock', lambda: R.make_taproot_lock(PUBS[a], S, sigflags=flh)),
        ('make_nonnative_taproot_lock', lambda: R.make_nonnative_taproot_lock(PUBS[a], S, sigflags=flh)),
        ('make_taproot_witness_scriptspend', lambda: R.make_taproot_witness_scriptspend(PUBS[a], S)),
        ('make_graftap_lock', lambda: R.make_graftap_lock(PUBS[a], flh)),
        ('make_adapter_decrypt', lambda: R.make_adapter_decrypt(bytes(rng.getrandbits(8) for _ in range(32)))),
        ('make_adapter_locks_pub[0]', lambda: R.make_adapter_locks_pub(PUBS[a], PUBS[b], flh)[0]),
        ('make_ptlc_refund_witness', lambda: R.make_ptlc_refund_witness(SEEDS[a], sf, flh)),
    ]
    for nm, f in rng.sample(mk, 8):
        try:
            out.append((nm, f()))
        except Exception as e:
            out.append((nm, e))
    return out
