"""Registry: property id -> how its correspondence streams and direct oracle are run."""
import fractions
import collections, math, os, random, struct, sys, time

sys.path.insert(0, os.path.dirname(os.path.abspath(__file__)))
import vmstream


def _sizes(tier, quick, thorough):
    return thorough if tier == 'thorough' else quick


# ------------------------------------------------------------------------------------------- VM family
def _vm_result(tot, pid, rule, extra_assumptions=()):
    viol = []
    for v in tot['violations'].get(pid, []):
        viol.append(dict(v))
    cov = dict(evaluations=tot['n'], distinct_nontrivial=tot['distinct_nontrivial'], rule=rule,
               samples=tot['samples'][:3], status_histogram=tot['stats'], outcome_histogram=tot['outcomes'],
               script_size_histogram_16B_buckets=tot['sizes'], oracle_calls=tot['oracle_calls'],
               programs=tot['n'], disagreements_checked=len(tot['disagreements']))
    return dict(coverage=cov, disagreements=tot['disagreements'], violations=viol,
                assumptions=list(extra_assumptions))


VM_RULE = ('programs assembled by harness/gen.py (structured snippets over all 92 opcodes + NOP codes, nesting <= 4, '
           'boundary-biased operands, 7% raw byte strings) x random embedder configuration (limits, flags, plugins, '
           'contracts) x random initial cache; run through run_script on the implementation and through the '
           'extracted Coq model; compared: outcome class, pointer, call count, stack, whole cache, plugin/contract '
           'log. distinct = distinct (script, cache, config) digests with script length >= 3.')


def run_c06(ctx):
    n = _sizes(ctx['tier'], 40000, 1500000)
    tot = vmstream.vm_stream(ctx['seed'], n, 'general', (), ctx['nproc'])
    tot2 = vmstream.vm_stream(ctx['seed'] + 1, n // 4, 'limits', (), ctx['nproc'])
    tot = vmstream.merge([dict(tot, samples=tot['samples']), dict(tot2, samples=tot2['samples'])])
    res = _vm_result(tot, 'C06', VM_RULE)
    # for C06 the model *is* the formal reading of the documented semantics: a disagreement is a failing input
    for d in tot['disagreements']:
        res['violations'].append(dict(case=d['case'], what='implementation and formal semantics disagree',
                                      impl=d['impl'], model=d['model']))
    return res


def run_c07(ctx):
    n = _sizes(ctx['tier'], 20000, 600000)
    a = vmstream.vm_stream(ctx['seed'] + 7, n, 'limits', ('C07',), ctx['nproc'])
    b = vmstream.vm_stream(ctx['seed'] + 8, n // 2, 'general', ('C07',), ctx['nproc'])
    tot = vmstream.merge([a, b])
    return _vm_result(tot, 'C07', VM_RULE + ' Direct oracle: every opcode function wrapped; after each instruction '
                      'len(stack) <= max_items, every item <= max_item_size, pointer did not decrease and is <= len(data); '
                      'no RecursionError/MemoryError escapes.',
                      ['CPython recursion limit and allocator are outside the model (partial: D14)'])


def run_c08(ctx):
    n = _sizes(ctx['tier'], 30000, 800000)
    tot = vmstream.vm_stream(ctx['seed'] + 9, n, 'default', ('C08',), ctx['nproc'])
    res = _vm_result(tot, 'C08', VM_RULE + ' Direct oracle: str-keyed cache entries (except the control flag '
                     "'returned') compared (type and repr, so in-place changes of mutable values show) before/after "
                     'run_script with no plugin installed; plus directed aliasing probes: every opcode on '
                     '(OP_GET_VALUE result, other operand) for bytes/bytearray/list/str/int values.')
    pv, runs = vmstream.c08_alias_probes()
    res['violations'].extend(pv)
    res['coverage']['alias_probe_runs'] = runs
    return res


# ------------------------------------------------------------------------------------------- C10
def run_c10(ctx):
    import tsh
    F = tsh.F
    rng = random.Random(ctx['seed'])
    m = tsh.Model()
    tier = ctx['tier']
    disagreements, violations, samples = [], [], []
    n_eval = 0
    stats = collections.Counter()

    def check_int(n):
        nonlocal n_eval
        n_eval += 1
        try:
            b = F.int_to_bytes(n)
            impl = 'ok ' + tsh.hx(b)
        except BaseException as e:
            b = None
            impl = 'err ' + tsh.exn_name(e)
        mod = m.cmd('I2B ' + tsh.zhex(n))
        if impl != mod:
            if len(disagreements) < 5:
                disagreements.append(dict(stream='int_to_bytes', n=str(n), impl=impl, model=mod))
        # direct oracle: round trip, sign bit, two's complement
        bad = None
        if b is None:
            bad = 'int_to_bytes raised ' + impl
        else:
            try:
                if F.bytes_to_int(b) != n: bad = 'bytes_to_int(int_to_bytes(n)) != n'
                elif len(b) == 0: bad = 'empty encoding'
                elif (b[0] >= 128) != (n < 0): bad = 'top bit does not match the sign'
                elif int.from_bytes(b, 'big', signed=True) != n: bad = 'not big-endian two\'s complement'
            except BaseException as e:
                bad = 'bytes_to_int raised ' + type(e).__name__
        if bad and len(violations) < 5:
            violations.append(dict(what=bad, n=str(n)))
        stats['ints'] += 1

    def check_bytes(bs):
        nonlocal n_eval
        n_eval += 1
        try:
            z = F.bytes_to_int(bs)
            impl = 'ok ' + tsh.zhex(z)
        except BaseException as e:
            z = None
            impl = 'err ' + tsh.exn_name(e)
        mod = m.cmd('B2I ' + tsh.hx(bs))
        if impl != mod and len(disagreements) < 5:
            disagreements.append(dict(stream='bytes_to_int', b=bs.hex(), impl=impl, model=mod))
        if len(bs) > 0:
            if z is None or z != int.from_bytes(bs, 'big', signed=True):
                if len(violations) < 5:
                    violations.append(dict(what='bytes_to_int not total / not two\'s complement', b=bs.hex()))
        stats['bytes'] += 1

    lim = 2 ** 13 if tier == 'quick' else 2 ** 17
    for n in range(-lim, lim + 1):
        check_int(n)
    ks = list(range(1, 300)) + ([511, 512, 1023, 1024, 2047, 2048, 4095, 4096, 8191, 8192, 16383, 16384]
                                if tier == 'quick' else list(range(300, 2049)) + list(range(2049, 16385, 37)) +
                                [4095, 4096, 8191, 8192, 16383, 16384])
    if tier != 'quick':
        ks = sorted(set(ks))
    log2_bad = []
    for k in ks:
        for d in (-3, -2, -1, 0, 1, 2, 3):
            a = 2 ** k + d
            if a <= 0:
                continue
            for s in (1, -1):
                check_int(s * a)
            # H-log2: the float estimate never under-estimates and over-estimates by at most one
            fl = math.floor(math.log2(a))
            ex = a.bit_length() - 1
            if not (ex <= fl <= ex + 1):
                log2_bad.append((k, d, fl, ex))
    if log2_bad and len(violations) < 5:
        violations.append(dict(what='math.log2 estimate outside [bitlen-1, bitlen]: hypothesis fl2_ok fails here',
                               cases=log2_bad[:5]))
    for _ in range(3000 if tier == 'quick' else 30000):
        bits = rng.choice([8, 16, 31, 32, 33, 63, 64, 65, 127, 128, 255, 256, 1023, 1024, 4096, 8191, 8192])
        check_int(rng.randint(-2 ** bits, 2 ** bits))
    for b0 in range(256):
        check_bytes(bytes([b0]))
        for b1 in (range(256) if tier != 'quick' else (0, 1, 127, 128, 255)):
            check_bytes(bytes([b0, b1]))
    check_bytes(b'')
    for _ in range(2000 if tier == 'quick' else 50000):
        check_bytes(bytes(rng.getrandbits(8) for _ in range(rng.randint(1, 40))))
    # floats (direct oracle only: struct is not modelled): bit-exact round trip of every exponent x mantissa sample
    fl_n = 0
    mant = [0, 1, 2, 0x400000, 0x7fffff, 0x2aaaaa, 0x555555] + [rng.getrandbits(23) for _ in range(8 if tier == 'quick' else 200)]
    for sgn in (0, 1):
        for e in range(256):
            for mt in mant:
                bits = (sgn << 31) | (e << 23) | mt
                bs = bits.to_bytes(4, 'big')
                fl_n += 1
                try:
                    x = F.bytes_to_float(bs)
                    back = F.float_to_bytes(x)
                    isnan = (e == 255 and mt != 0)
                    # model/FloatCodec.v (Flocq binary32): the VALUE the model decodes is the value Python decodes, and the
                    # model's re-encoding is the implementation's
                    mo = m.cmd('FLT ' + bs.hex()).split(' ')
                    stats['float-model'] += 1
                    if mo[0] != 'ok':
                        want = None
                    else:
                        kind = mo[1]
                        if kind.startswith('zero'): want = (x == 0.0 and math.copysign(1.0, x) == (1.0 if kind[4] == '+' else -1.0))
                        elif kind.startswith('inf'): want = (x == (float('inf') if kind[3] == '+' else float('-inf')))
                        elif kind.startswith('nan'): want = (x != x)
                        else:
                            sg_, mm_, ee_ = kind[3], int(kind.split(':')[1], 16), int(kind.split(':')[2].replace('-', '-0x', 1) if kind.split(':')[2].startswith('-') else '0x' + kind.split(':')[2], 16)
                            val = fractions.Fraction(mm_) * (fractions.Fraction(2) ** ee_) * (1 if sg_ == '+' else -1)
                            want = (x == x and x not in (float('inf'), float('-inf')) and fractions.Fraction(x) == val)
                    if want is not True or (mo[2] != back.hex() and not isnan):
                        if len(disagreements) < 5:
                            disagreements.append(dict(stream='float codec: FloatCodec.v vs struct', b=bs.hex(), model=' '.join(mo),
                                                      impl='%r -> %s' % (x, back.hex())))
                    if back != bs and not (isnan and x != x):
                        if len(violations) < 5:
                            violations.append(dict(what='float encoding does not round-trip', b=bs.hex(), back=back.hex()))
                    if isnan and (back[0] & 0x7f, back[1] & 0x80) != (0x7f, 0x80):
                        violations.append(dict(what='NaN not preserved as NaN', b=bs.hex()))
                except BaseException as ex:
                    if len(violations) < 5:
                        violations.append(dict(what='float codec raised ' + type(ex).__name__, b=bs.hex()))
    # values that compare equal but are different values of the codec (signed zeros; 1 / 1.0 / True), encoded
    # right after one another in both orders: an encoder must not answer from what it encoded before
    for a_, b_ in (('00000000', '80000000'), ('80000000', '00000000')):
        for first, second in ((a_, b_), (b_, a_)):
            for bits_ in (first, second, first):
                bs = bytes.fromhex(bits_)
                back = F.float_to_bytes(F.bytes_to_float(bs))
                fl_n += 1
                if back != bs and len(violations) < 5:
                    violations.append(dict(what='float encoding does not round-trip when encoded right after its equal-comparing '
                                                'twin', b=bs.hex(), back=back.hex(), order=[first, second, first]))
    for seq in ((1, 1.0), (0, 0.0), (1, True)):
        F.int_to_bytes(seq[0])
        try:
            r_ = F.int_to_bytes(seq[1])
            violations.append(dict(what='int_to_bytes accepted %r (after encoding %r): %s' % (seq[1], seq[0], r_.hex())))
        except TypeError:
            pass
    for seq in ((1.0, 1), (0.0, 0)):
        F.float_to_bytes(seq[0])
        try:
            r_ = F.float_to_bytes(seq[1])
            violations.append(dict(what='float_to_bytes accepted %r (after encoding %r): %s' % (seq[1], seq[0], r_.hex())))
        except TypeError:
            pass
    n_eval += fl_n
    # "integer instructions compute exact results at any magnitude that fits the item limit": the integer instructions on operands of
    # every magnitude, written as decimal literals in source (compiled by the real compiler: immediates and pushed values) and run on
    # the VM; reference = Python's unbounded integers; the compiled bytes also run on the extracted model
    P = tsh.P
    mags = [7, 8, 15, 16, 31, 32, 52, 53, 54, 62, 63, 64, 100, 255, 256, 1000, 2000, 4000]
    def big():
        k_ = rng.choice(mags)
        return rng.choice([1, -1]) * (rng.choice([2 ** k_ + rng.choice([-3, -1, 0, 1, 3]), rng.getrandbits(k_ + 1) | 1, rng.getrandbits(k_) + 1]) or 1)
    cfgd = tsh.Cfg()
    for _ in range(400 if tier == 'quick' else 6000):
        a_, b_ = big(), big()
        if b_.bit_length() > 2000:
            b_ = b_ >> (b_.bit_length() - 2000) or 1
        kind = rng.choice(['add', 'sub', 'mult', 'div_int', 'mod_int', 'div_ints', 'mod_ints', 'push1'])
        if kind == 'mult' and a_.bit_length() + b_.bit_length() > 8000:
            kind = 'add'
        if kind == 'add': src, want = 'push d%d push d%d add_ints d2' % (a_, b_), a_ + b_
        elif kind == 'sub': src, want = 'push d%d push d%d subtract_ints d2' % (b_, a_), a_ - b_
        elif kind == 'mult': src, want = 'push d%d push d%d mult_ints d2' % (a_, b_), a_ * b_
        elif kind == 'div_int': src, want = 'push d%d div_int d%d' % (a_, b_), a_ // b_
        elif kind == 'mod_int': src, want = 'push d%d mod_int d%d' % (a_, b_), a_ % b_
        elif kind == 'div_ints': src, want = 'push d%d push d%d div_ints' % (b_, a_), a_ // b_
        elif kind == 'mod_ints': src, want = 'push d%d push d%d mod_ints' % (b_, a_), a_ % b_
        else:
            b_ = b_ if b_.bit_length() <= 1900 else b_ >> 200
            src, want = 'push1 d%d true pop0' % b_, b_
        n_eval += 1
        stats['integer-instruction:' + kind] += 1
        try:
            code = P.compile_script(src)
            _, stk_, _ = F.run_script(code, {})
            items = stk_.list()
            got = int.from_bytes(items[-1], 'big', signed=True) if items and len(items[-1]) else None
            why = None if (got == want and len(items) == 1) else 'left %s, the exact result is %d' % ([i_.hex()[:80] for i_ in items], want)
        except BaseException as e:
            code, why = None, 'raised %s: %s' % (type(e).__name__, str(e)[:80])
        if why and len(violations) < 5:
            violations.append(dict(what='integer instruction not exact: %s' % why, source=src[:400]))
        if code is not None:
            st_, il_, ml_ = tsh.compare_script(m, code, {}, cfgd)
            if st_ == 'differ' and len(disagreements) < 5:
                disagreements.append(dict(stream='integer instructions on the VM', source=src[:300], impl=il_[:300], model=ml_[:300]))
    for bad in (b'', b'\x00', b'\x00' * 3, b'\x00' * 5):
        try:
            F.bytes_to_float(bad)
            violations.append(dict(what='bytes_to_float accepted a non-4-byte string', b=bad.hex()))
        except ValueError:
            pass
    m.close()
    samples = [dict(n=-129, impl=F.int_to_bytes(-129).hex()), dict(n=str(2 ** 63 - 1), impl=F.int_to_bytes(2 ** 63 - 1).hex()),
               dict(float_bits='3f800000', value=F.bytes_to_float(bytes.fromhex('3f800000')))]
    cov = dict(evaluations=n_eval, distinct_nontrivial=n_eval - 3, samples=samples,
               rule='every integer in [-%d, %d]; +-(2^k+d) for %d values of k up to 16384, |d|<=3; random integers up to 8192 bits; '
                    'all 1-byte and %s 2-byte strings, random strings up to 40 bytes; float32 bit patterns: every sign x exponent x %d mantissas. '
                    'int_to_bytes / bytes_to_int compared with the extracted model (the model asks the oracle for floor(log2) of numbers >= 2^32, '
                    'as the theorem leaves it open); direct oracle: round trip, sign bit, two\'s complement, totality; H-log2 checked on the same grid. '
                    'Integer instructions (add / subtract / mult / div / mod, immediate and stack forms, push1) on operands of 7..4000 bits written as decimal '
                    'literals: compiled by the real compiler, run on the VM and on the extracted model, result compared with Python integers.'
                    % (lim, lim, len(ks), 'all' if tier != 'quick' else 'boundary', len(mant)),
               stream_counts=dict(stats), float_patterns=fl_n, programs=n_eval, disagreements_checked=len(disagreements))
    return dict(coverage=cov, disagreements=disagreements, violations=violations,
                assumptions=['fl2_ok: floor(math.log2(a)) in {bitlen(a)-1, bitlen(a)} (float rounding) - checked on the grid each run',
                             'float part: struct.pack/unpack not modelled; decided by the exponent-exhaustive sweep only (partial)'])



# ------------------------------------------------------------------------------------------- scenario families
import streams2


def _s2_result(tot, rule, assumptions=(), exhaustive=False):
    cov = dict(evaluations=tot['n'], distinct_nontrivial=tot['distinct'], rule=rule, samples=tot['samples'][:3],
               status_histogram=tot['stats'], scenario_histogram=tot.get('labels', {}), oracle_calls=tot['oracle_calls'],
               programs=tot['n'], disagreements_checked=len(tot['disagreements']))
    if exhaustive:
        cov['exhaustive'] = True
    return dict(coverage=cov, disagreements=tot['disagreements'], violations=tot['violations'], assumptions=list(assumptions))


FAM_RULE = ('scenarios built with the real tapescript.tools builders (honest witness, every single perturbation, cross-pairings, '
            'boundary timestamps) from a seeded PRNG; run_auth_scripts on the implementation vs the extracted Coq model '
            '(verdict, cache, plugin/contract log compared); direct oracle: the verdict the property text requires for the scenario. ')


def _fam(names, quick, thorough, extra_rule='', assumptions=()):
    def run(ctx):
        rounds = _sizes(ctx['tier'], quick, thorough)
        tot = streams2.run_families(names, ctx['seed'], rounds, ctx['nproc'])
        return _s2_result(tot, FAM_RULE + extra_rule, assumptions)
    return run


def run_c01(ctx):
    n = _sizes(ctx['tier'], 24000, 800000)
    tot = streams2.run_tasks(streams2.c01_task, ctx['seed'] + 101, n, ctx['nproc'], max(500, n // (ctx['nproc'] * 2)))
    return _s2_result(tot, 'lists of 1-4 scripts: generated programs, witnesses that RETURN at nesting depth 0-3 inside '
                      'IF/IF_ELSE/TRY/LOOP/EVAL/DEF+CALL, define functions, write cache entries, leave junk, burn call budget; locks with '
                      'IF/TRY heads and verifying tails; raw byte strings; caches incl. the control key; limits from small to default. '
                      'run_auth_scripts: implementation vs model. Direct oracle on a traced real run: verdict == (every script ran without '
                      'raising and final stack == [ff]); top-level execution of each script contiguous from offset 0; an instruction may end '
                      'the script early only if a RETURN instruction executed inside it; run_auth_scripts never raises.',
                      ["an embedder-supplied 'returned' cache entry is outside the statement (D13)"])


def run_c02(ctx):
    n = _sizes(ctx['tier'], 16000, 600000)
    tot = streams2.run_tasks(streams2.c02_task, ctx['seed'] + 202, n, ctx['nproc'], max(400, n // (ctx['nproc'] * 2)))
    return _s2_result(tot, 'random (flag, allowed, field-presence, field contents) with real Ed25519 signatures: explicit signature items '
                      '(valid, bit-flipped, truncated, wrong key, changed covered/excluded field), sign-then-check, GET_MESSAGE+SIGN_STACK+'
                      'CHECK_SIG_STACK; implementation vs model; direct oracle: error iff wrong lengths or flag not within allowed, else '
                      'true iff PyNaCl verifies the first 64 bytes over the flag-selected message.',
                      ['Ed25519 (PyNaCl) is the oracle of validity; unforgeability is not claimed'])


def run_c03(ctx):
    n = _sizes(ctx['tier'], 12000, 400000)
    tot = streams2.run_tasks(streams2.c03_task, ctx['seed'] + 303, n, ctx['nproc'], max(300, n // (ctx['nproc'] * 2)))
    return _s2_result(tot, 'n<=4 keys (incl. duplicate keys via raw bytecode), m<=n signatures by listed signers / outsiders / repeated / '
                      'flag variants (65-byte form, flagged), shuffled; CHECK_MULTISIG(_VERIFY): implementation vs model; direct oracle: '
                      'true iff the signatures are pairwise different byte strings and an injective matching to key positions exists '
                      '(brute force over permutations, validity by PyNaCl); non-permitted flag never true.')


def run_c09(ctx):
    depth = 2 if ctx['tier'] == 'quick' else 3
    tot = streams2.run_c09(ctx['seed'], depth, ctx['nproc'])
    r = _s2_result(tot, 'every nesting of {IF, IF_ELSE both arms, TRY, EXCEPT, LOOP, DEF/CALL, EVAL, MERKLEVAL, TAPROOT script path} up to depth %d '
                   '(%d contexts) around 16 probe instructions x 10 embedder configurations (flags 0-10 off, thresholds, disallow_OP_EVAL, eval_return, '
                   'plugins, contracts); run_script: implementation vs model; direct oracle: a flag that is off never writes its cache key, '
                   'signature-extension plugins run exactly once per signature instruction, disallowed EVAL never runs, contracts reachable.'
                   % (depth, tot['contexts']), ['OP_SET_FLAG/OP_UNSET_FLAG: known finding D7'], exhaustive=True)
    return r


def run_c20(ctx):
    tot = streams2.run_c20(ctx['seed'], ctx['tier'], ctx['nproc'])
    res = _s2_result(tot, 'every unassigned code (%d) x count bytes (%s) x stack depths; run_script implementation vs model; direct oracle: '
                     'negative count -> ScriptExecutionError, count > depth -> IndexError, else exactly count items removed and nothing else; '
                     'decompile = "NOPn d<signed>" and recompiles to the same bytes.  Soft-fork stream: generated scripts/auth '
                     'script lists with fork-op occurrences at every nesting depth (also inside TRY) run on the implementation '
                     'with tools.add_soft_fork installed and without; upgraded run == SoftFork.run_script_f (extracted); '
                     'direct oracle = theorem C20_soft_fork_simulation on the code: fork op never raised ==> both runs identical.'
                     % (tot['codes'], 'all 256' if ctx['tier'] == 'thorough' else '12 boundary values'),
                     ['the fork op of model/SoftFork.v has NOP\'s operand and pops and afterwards may only raise (the documented '
                      'soft-fork discipline); a fork op that does anything else is outside the theorem',
                      'scripts whose TRY swallows a fork-op raise are related by nothing (the property\'s own exception); '
                      'the premise of the theorem is semantic (no raise recorded), not syntactic (no TRY)'],
                     exhaustive=tot['exhaustive'])
    res['coverage']['fork_stream'] = tot.get('fork_stream')
    return res


def run_c16(ctx):
    import tsh, builders, random as _r
    rounds = _sizes(ctx['tier'], 4, 60)
    tot = streams2.run_families(['c16'], ctx['seed'], rounds, ctx['nproc'])
    # instruction-level grid with non-default thresholds (run_script + flags)
    m = tsh.Model()
    rng = _r.Random(ctx['seed'])
    n = 0
    for rep in range(1 if ctx['tier'] == 'quick' else 6):
        for label, script, cache, cfg, exp in builders.c16_instr(rng):
            n += 1
            st, i, mm = tsh.compare_script(m, script, cache, cfg)
            tot['stats'][st] = tot['stats'].get(st, 0) + 1
            if st == 'differ' and len(tot['disagreements']) < 5:
                tot['disagreements'].append(dict(label=label, impl=i[:300], model=mm[:300], script=script.hex()))
            f = i.split(' | ')
            if exp == 'raise': ok = f[0] == 'raised:ScriptExecutionError'
            elif exp == 'empty': ok = f[0] == 'done' and f[3] == '-'
            else: ok = f[0] == 'done' and f[3] == ('ff' if exp else '00')
            if not ok and sum(1 for v in tot['violations'] if not v.get('finding')) < 8:
                tot['violations'].append(dict(what=label + ': expected %s got %s' % (exp, i[:80]), case=dict(script=script.hex(), cache=tsh.cache_str(cache, False), cfg=cfg.to_json())))
    m.close()
    tot['n'] += n; tot['distinct'] += n
    return _s2_result(tot, FAM_RULE + 'Plus the instruction-level grid: constraint c around now (+-3, threshold +-1, 100) in 5/6/9-byte and minimal '
                      'encodings x timestamp t around c and around the slack threshold x thresholds {60, 0, -5, 1, 7}, for CHECK_TIMESTAMP(_VERIFY) and CHECK_EPOCH(_VERIFY).',
                      ['clock pinned by replacing tapescript.functions.time / tools.time in the harness process'])


import asmstream


def run_c11(ctx):
    n = _sizes(ctx['tier'], 4000, 150000)
    tot = streams2.run_tasks(asmstream.c11_task, ctx['seed'] + 1100, n, ctx['nproc'], max(200, n // (ctx['nproc'] * 2)))
    return _s2_result(tot, 'random abstract programs (all operand shapes, nesting <= 3, boundary operands incl. 255/256/257-byte pushes and non-minimal '
                      'forms); reference assembler in the harness = documented encoding; the model computes encode(parse_listing(canonical listing)) '
                      'and must equal it; compile_script on the canonical listing, on 3 random spellings (OP_ prefix / aliases / letter case, braces / END_ '
                      'terminators, hoisted IF conditions, comments, d/x/s value forms, PUSH pseudo-op, variables @= @x @#x) and on a macro/comptime variant '
                      'must give exactly those bytes when accepted; a family of sources that cannot be encoded must be rejected.',
                      ['text front-end below token level, macros and comptime are exercised, not modelled in Coq'])


def run_c12(ctx):
    n = _sizes(ctx['tier'], 4000, 200000)
    tot = streams2.run_tasks(asmstream.c12_task, ctx['seed'] + 1200, n, ctx['nproc'], max(200, n // (ctx['nproc'] * 2)))
    maxlen = 2 if ctx['tier'] == 'quick' else 3
    res = vmstream.run_parallel([(list(range(i, 256, ctx['nproc'])), maxlen) for i in range(ctx['nproc'])], ctx['nproc'], asmstream.c12_short_task)
    for r in res:
        tot['n'] += r['n']; tot['distinct'] += r['distinct']
        tot['disagreements'] += r['disagreements']; tot['violations'] += r['violations']
        for k, v in r['stats'].items():
            tot['stats']['short-' + k] = tot['stats'].get('short-' + k, 0) + v
    return _s2_result(tot, 'decompile_script vs the model decompiler (None = raises) on: every byte string of length <= %d (exhaustive), compiler output of '
                      'random programs in random spellings, lock/witness builder outputs, mutated/truncated programs, random strings; each under a '
                      'watchdog; for compiler and builder output additionally compile(decompile(b)) == b.' % maxlen,
                      ['watchdog only guards the harness: termination is the theorem C12_decode_fuel_enough', 'deep nesting: CPython RecursionError (D14)'])


import regstream


def run_c19(ctx):
    n = _sizes(ctx['tier'], 6000, 300000)
    a = streams2.run_tasks(regstream.reg_task, ctx['seed'] + 1900, n, ctx['nproc'], max(300, n // (ctx['nproc'] * 2)))
    # bounded-exhaustive: EVERY call sequence up to length 2 (quick) / 3 (thorough) over the alphabet of the quantifier
    hs = regstream.enum_histories(2 if ctx['tier'] == 'quick' else 3)
    per = max(50, len(hs) // (ctx['nproc'] * 2) + 1)
    e = streams2.run_parallel_tasks(regstream.reg_task, [(ctx['seed'] + 1950 + k, hs[i:i + per]) for k, i in enumerate(range(0, len(hs), per))], ctx['nproc'])
    a['n'] += e['n']; a['distinct'] += e['distinct']; a['violations'] += e['violations']; a['disagreements'] += e['disagreements']
    a['oracle_calls'] += e['oracle_calls']
    for k, v in e['stats'].items():
        a['stats']['exhaustive-' + k] = v
    a['stats']['exhaustive-histories(all sequences up to length %d)' % (2 if ctx['tier'] == 'quick' else 3)] = len(hs)
    b = streams2.run_tasks(regstream.indep_task, ctx['seed'] + 1901, n // 2, ctx['nproc'], max(300, n // (ctx['nproc'] * 4)))
    tot = dict(a)
    tot['n'] += b['n']; tot['distinct'] += b['distinct']; tot['violations'] = a['violations'] + b['violations']
    tot['samples'] = a['samples'][:2] + b['samples'][:1]
    st = dict(a['stats'])
    for k, v in b['stats'].items():
        st['independence-' + k] = v
    tot['stats'] = st
    return _s2_result(tot, 'random histories (1-14 calls) of add/remove/reset over 3 scopes x 3 plugins, 3 contract ids x 5 contract objects '
                      '(implementing different interface sets), 4 interfaces, 4 aliases on the real module registries (restored between histories) vs '
                      'the Registry.v state machine: per-call raise/no-raise, final registries incl. dict and list order, and which recording plugins a '
                      'subsequent run_script invokes; direct oracle: active = added and not since removed/reset, recomputed from the history. '
                      'History independence: compile/run B, then A, then B again must give identical results (compile_script, assemble, Script.from_src; '
                      'run_script, run_auth_scripts) and the caller cache / contract / plugin dictionaries must be unchanged.')


REGISTRY = {
    'C19': dict(run=run_c19, level='proof'),
    'C11': dict(run=run_c11, level='proof'),
    'C12': dict(run=run_c12, level='proof'),
    'C01': dict(run=run_c01, level='proof'),
    'C02': dict(run=run_c02, level='proof'),
    'C03': dict(run=run_c03, level='proof'),
    'C04': dict(run=_fam(['c04'], 40, 2000), level='proof'),
    'C05': dict(run=_fam(['c05'], 30, 1500), level='proof'),
    'C09': dict(run=run_c09, level='proof'),
    'C13': dict(run=_fam(['c13'], 40, 2000), level='proof'),
    'C14': dict(run=_fam(['c14'], 40, 2000), level='proof'),
    'C15': dict(run=_fam(['c15'], 40, 2000), level='proof'),
    'C16': dict(run=run_c16, level='proof'),
    'C17': dict(run=_fam(['c17'], 40, 2000), level='proof'),
    'C18': dict(run=_fam(['c18'], 25, 1200), level='proof'),
    'C20': dict(run=run_c20, level='proof'),

    'C06': dict(run=run_c06, level='proof'),
    'C07': dict(run=run_c07, level='proof'),
    'C08': dict(run=run_c08, level='proof'),
    'C10': dict(run=run_c10, level='proof'),
}


# ------------------------------------------------------------------------------------------- known findings
def _probe_D13():
    import tsh
    _, _, cache = tsh.F.run_script(bytes([tsh.F.opcodes_inverse['OP_RETURN'][0]]))
    c2 = {'returned': 'embedder value'}
    try:
        _, _, cache2 = tsh.F.run_script(tsh.P.compile_script('def 0 { } call d0'), c2)
    except BaseException:
        cache2 = c2
    return ('returned' in cache) or ('returned' not in cache2)


def _probe_D14():
    import tsh
    body = b''
    for _ in range(2000):
        body = b'\x01' + bytes([tsh.F.opcodes_inverse['OP_IF'][0]]) + len(body).to_bytes(2, 'big') + body
        if len(body) > 60000:
            break
    try:
        tsh.F.run_script(body)
        return False
    except RecursionError:
        return True
    except BaseException:
        return False


def _probe_D7():
    import tsh
    try:
        tsh.F.run_script(tsh.P.compile_script('set_flag x02'))
        return False
    except BaseException as e:
        return 'unrecognized flag' in str(e)


def _probe_D11():
    import tsh
    tsh.pin()
    now = tsh.Pins.now
    lock = tsh.T.make_timestamp_before_lock(now + 30)
    return bool(tsh.F.run_auth_scripts([lock.bytes], {'timestamp': now + 60}))


def _probe_D15():
    import builders, random as _r
    for sc in builders.c17(_r.Random(1)):
        if len(sc) > 5 and sc[5] == 'D15':
            return not sc[4]
    return False


def _probe_c05(fid):
    def probe():
        import builders, random as _r, tsh
        for sc in builders.c05(_r.Random(1)):
            if len(sc) > 5 and sc[5] == fid:
                v = tsh.F.run_auth_scripts(list(sc[1]), dict(sc[2]), sc[3].contract_objs(tsh.Log()), sc[3].plugins(tsh.Log()),
                                           sc[3].max_items, sc[3].max_item_size, sc[3].limit)
                return bool(v) != bool(sc[4])
        return False
    return probe


FINDING_PROBES = {'D13': _probe_D13, 'D14': _probe_D14, 'D7': _probe_D7, 'D11': _probe_D11, 'D15': _probe_D15,
                  'D18': _probe_c05('D18'), 'D19': _probe_c05('D19'), 'D23': _probe_c05('D23')}
