"""Registry: property id -> how its correspondence streams and direct oracle are run."""
import collections, math, os, random, struct, sys, time

sys.path.insert(0, os.path.dirname(os.path.abspath(__file__)))
import vmstream


def _sizes(tier, quick, thorough):
    return thorough if tier == 'thorough' else quick


# ------------------------------------------------------------------------------------------- VM family
def _vm_result(tot, pid, rule, extra_assumptions=()):
    viol = []
    for v in tot['violations'].get(pid, []):
        viol.append(dict(v))
    cov = dict(evaluations=tot['n'], distinct_nontrivial=tot['distinct_nontrivial'], rule=rule,
               samples=tot['samples'][:3], status_histogram=tot['stats'], outcome_histogram=tot['outcomes'],
               script_size_histogram_16B_buckets=tot['sizes'], oracle_calls=tot['oracle_calls'],
               programs=tot['n'], disagreements_checked=len(tot['disagreements']))
    return dict(coverage=cov, disagreements=tot['disagreements'], violations=viol,
                assumptions=list(extra_assumptions))


VM_RULE = ('programs assembled by harness/gen.py (structured snippets over all 92 opcodes + NOP codes, nesting <= 4, '
           'boundary-biased operands, 7% raw byte strings) x random embedder configuration (limits, flags, plugins, '
           'contracts) x random initial cache; run through run_script on the implementation and through the '
           'extracted Coq model; compared: outcome class, pointer, call count, stack, whole cache, plugin/contract '
           'log. distinct = distinct (script, cache, config) digests with script length >= 3.')


def run_c06(ctx):
    n = _sizes(ctx['tier'], 40000, 1500000)
    tot = vmstream.vm_stream(ctx['seed'], n, 'general', (), ctx['nproc'])
    tot2 = vmstream.vm_stream(ctx['seed'] + 1, n // 4, 'limits', (), ctx['nproc'])
    tot = vmstream.merge([dict(tot, samples=tot['samples']), dict(tot2, samples=tot2['samples'])])
    res = _vm_result(tot, 'C06', VM_RULE)
    # for C06 the model *is* the formal reading of the documented semantics: a disagreement is a failing input
    for d in tot['disagreements']:
        res['violations'].append(dict(case=d['case'], what='implementation and formal semantics disagree',
                                      impl=d['impl'], model=d['model']))
    return res


def run_c07(ctx):
    n = _sizes(ctx['tier'], 20000, 600000)
    a = vmstream.vm_stream(ctx['seed'] + 7, n, 'limits', ('C07',), ctx['nproc'])
    b = vmstream.vm_stream(ctx['seed'] + 8, n // 2, 'general', ('C07',), ctx['nproc'])
    tot = vmstream.merge([a, b])
    return _vm_result(tot, 'C07', VM_RULE + ' Direct oracle: every opcode function wrapped; after each instruction '
                      'len(stack) <= max_items, every item <= max_item_size, pointer did not decrease and is <= len(data); '
                      'no RecursionError/MemoryError escapes.',
                      ['CPython recursion limit and allocator are outside the model (partial: D14)'])


def run_c08(ctx):
    n = _sizes(ctx['tier'], 30000, 800000)
    tot = vmstream.vm_stream(ctx['seed'] + 9, n, 'default', ('C08',), ctx['nproc'])
    return _vm_result(tot, 'C08', VM_RULE + ' Direct oracle: str-keyed cache entries (except the control flag '
                      "'returned') compared before/after run_script with no plugin installed.")


# ------------------------------------------------------------------------------------------- C10
def run_c10(ctx):
    import tsh
    F = tsh.F
    rng = random.Random(ctx['seed'])
    m = tsh.Model()
    tier = ctx['tier']
    disagreements, violations, samples = [], [], []
    n_eval = 0
    stats = collections.Counter()

    def check_int(n):
        nonlocal n_eval
        n_eval += 1
        try:
            b = F.int_to_bytes(n)
            impl = 'ok ' + tsh.hx(b)
        except BaseException as e:
            b = None
            impl = 'err ' + tsh.exn_name(e)
        mod = m.cmd('I2B ' + tsh.zhex(n))
        if impl != mod:
            if len(disagreements) < 5:
                disagreements.append(dict(stream='int_to_bytes', n=str(n), impl=impl, model=mod))
        # direct oracle: round trip, sign bit, two's complement
        bad = None
        if b is None:
            bad = 'int_to_bytes raised ' + impl
        else:
            try:
                if F.bytes_to_int(b) != n: bad = 'bytes_to_int(int_to_bytes(n)) != n'
                elif len(b) == 0: bad = 'empty encoding'
                elif (b[0] >= 128) != (n < 0): bad = 'top bit does not match the sign'
                elif int.from_bytes(b, 'big', signed=True) != n: bad = 'not big-endian two\'s complement'
            except BaseException as e:
                bad = 'bytes_to_int raised ' + type(e).__name__
        if bad and len(violations) < 5:
            violations.append(dict(what=bad, n=str(n)))
        stats['ints'] += 1

    def check_bytes(bs):
        nonlocal n_eval
        n_eval += 1
        try:
            z = F.bytes_to_int(bs)
            impl = 'ok ' + tsh.zhex(z)
        except BaseException as e:
            z = None
            impl = 'err ' + tsh.exn_name(e)
        mod = m.cmd('B2I ' + tsh.hx(bs))
        if impl != mod and len(disagreements) < 5:
            disagreements.append(dict(stream='bytes_to_int', b=bs.hex(), impl=impl, model=mod))
        if len(bs) > 0:
            if z is None or z != int.from_bytes(bs, 'big', signed=True):
                if len(violations) < 5:
                    violations.append(dict(what='bytes_to_int not total / not two\'s complement', b=bs.hex()))
        stats['bytes'] += 1

    lim = 2 ** 13 if tier == 'quick' else 2 ** 17
    for n in range(-lim, lim + 1):
        check_int(n)
    ks = list(range(1, 300)) + ([511, 512, 1023, 1024, 2047, 2048, 4095, 4096, 8191, 8192, 16383, 16384]
                                if tier == 'quick' else list(range(300, 16385, 1)))
    if tier != 'quick':
        ks = sorted(set(ks))
    log2_bad = []
    for k in ks:
        for d in (-3, -2, -1, 0, 1, 2, 3):
            a = 2 ** k + d
            if a <= 0:
                continue
            for s in (1, -1):
                check_int(s * a)
            # H-log2: the float estimate never under-estimates and over-estimates by at most one
            fl = math.floor(math.log2(a))
            ex = a.bit_length() - 1
            if not (ex <= fl <= ex + 1):
                log2_bad.append((k, d, fl, ex))
    if log2_bad and len(violations) < 5:
        violations.append(dict(what='math.log2 estimate outside [bitlen-1, bitlen]: hypothesis fl2_ok fails here',
                               cases=log2_bad[:5]))
    for _ in range(3000 if tier == 'quick' else 100000):
        bits = rng.choice([8, 16, 31, 32, 33, 63, 64, 65, 127, 128, 255, 256, 1023, 1024, 4096, 8191, 8192])
        check_int(rng.randint(-2 ** bits, 2 ** bits))
    for b0 in range(256):
        check_bytes(bytes([b0]))
        for b1 in (range(256) if tier != 'quick' else (0, 1, 127, 128, 255)):
            check_bytes(bytes([b0, b1]))
    check_bytes(b'')
    for _ in range(2000 if tier == 'quick' else 50000):
        check_bytes(bytes(rng.getrandbits(8) for _ in range(rng.randint(1, 40))))
    # floats (direct oracle only: struct is not modelled): bit-exact round trip of every exponent x mantissa sample
    fl_n = 0
    mant = [0, 1, 2, 0x400000, 0x7fffff, 0x2aaaaa, 0x555555] + [rng.getrandbits(23) for _ in range(8 if tier == 'quick' else 200)]
    for sgn in (0, 1):
        for e in range(256):
            for mt in mant:
                bits = (sgn << 31) | (e << 23) | mt
                bs = bits.to_bytes(4, 'big')
                fl_n += 1
                try:
                    x = F.bytes_to_float(bs)
                    back = F.float_to_bytes(x)
                    isnan = (e == 255 and mt != 0)
                    if back != bs and not (isnan and x != x):
                        if len(violations) < 5:
                            violations.append(dict(what='float encoding does not round-trip', b=bs.hex(), back=back.hex()))
                    if isnan and (back[0] & 0x7f, back[1] & 0x80) != (0x7f, 0x80):
                        violations.append(dict(what='NaN not preserved as NaN', b=bs.hex()))
                except BaseException as ex:
                    if len(violations) < 5:
                        violations.append(dict(what='float codec raised ' + type(ex).__name__, b=bs.hex()))
    n_eval += fl_n
    for bad in (b'', b'\x00', b'\x00' * 3, b'\x00' * 5):
        try:
            F.bytes_to_float(bad)
            violations.append(dict(what='bytes_to_float accepted a non-4-byte string', b=bad.hex()))
        except ValueError:
            pass
    m.close()
    samples = [dict(n=-129, impl=F.int_to_bytes(-129).hex()), dict(n=str(2 ** 63 - 1), impl=F.int_to_bytes(2 ** 63 - 1).hex()),
               dict(float_bits='3f800000', value=F.bytes_to_float(bytes.fromhex('3f800000')))]
    cov = dict(evaluations=n_eval, distinct_nontrivial=n_eval - 3, samples=samples,
               rule='every integer in [-%d, %d]; +-(2^k+d) for %d values of k up to 16384, |d|<=3; random integers up to 8192 bits; '
                    'all 1-byte and %s 2-byte strings, random strings up to 40 bytes; float32 bit patterns: every sign x exponent x %d mantissas. '
                    'int_to_bytes / bytes_to_int compared with the extracted model (the model asks the oracle for floor(log2) of numbers >= 2^32, '
                    'as the theorem leaves it open); direct oracle: round trip, sign bit, two\'s complement, totality; H-log2 checked on the same grid.'
                    % (lim, lim, len(ks), 'all' if tier != 'quick' else 'boundary', len(mant)),
               stream_counts=dict(stats), float_patterns=fl_n, programs=n_eval, disagreements_checked=len(disagreements))
    return dict(coverage=cov, disagreements=disagreements, violations=violations,
                assumptions=['fl2_ok: floor(math.log2(a)) in {bitlen(a)-1, bitlen(a)} (float rounding) - checked on the grid each run',
                             'float part: struct.pack/unpack not modelled; decided by the exponent-exhaustive sweep only (partial)'])


REGISTRY = {
    'C06': dict(run=run_c06, level='proof'),
    'C07': dict(run=run_c07, level='proof'),
    'C08': dict(run=run_c08, level='proof'),
    'C10': dict(run=run_c10, level='proof'),
}
