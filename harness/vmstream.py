"""Differential streams over the VM: implementation vs extracted model on the same generated programs,
plus the direct property oracles (evaluated on the implementation alone) for C06/C07/C08.

One worker = one process with its own model co-process; every random choice derives from the task seed.
"""
import collections, hashlib, json, os, random, sys, time, multiprocessing as mp

sys.path.insert(0, os.path.dirname(os.path.abspath(__file__)))


def _init():
    global tsh, gen, F, C
    import tsh as _tsh, gen as _gen
    tsh, gen = _tsh, _gen
    F, C = tsh.F, tsh.C


CONTRACTS = ((b'c1', 'echo'), (b'c2', 'rev'), (b'c3', 'none'), (b'c4', 'badret'), (b'c5', 'transfer'))


def rand_cfg(rng, profile):
    if profile == 'limits':
        return tsh.Cfg(max_items=rng.choice([1, 2, 3, 4, 8, 16]), max_item_size=rng.choice([1, 2, 4, 16, 33, 64]),
                       limit=rng.choice([0, 1, 2, 3, 5, 8]), contracts=CONTRACTS)
    if profile == 'default':
        return tsh.Cfg(contracts=CONTRACTS)
    return tsh.Cfg(
        max_items=rng.choice([1024, 1024, 1024, 6, 12]), max_item_size=rng.choice([1024, 1024, 1024, 24, 80]),
        limit=rng.choice([128, 128, 128, 3, 6]),
        sigext=rng.choice([(), (), (1,), (1, 2)]),
        ctplugins=rng.choice([(), (), ((1, 'eq'),), ((1, 'false'), (2, 'prefix')), ((3, 'true'),)]),
        contracts=CONTRACTS,
        flags=rng.choice([{}, {}, {}, {2: False}, {9: False, 0: False}, {'ts_threshold': 0}, {'ts_threshold': 5},
                          {'eval_return': True}, {'disallow_OP_EVAL': True}, {1: False, 3: False, 4: False},
                          {10: False}, {'epoch_threshold': 10}]),
        vmwide=rng.random() < 0.3)          # the plugins registered VM-wide instead of being passed to the call


# ---------------------------------------------------------------- direct oracles on the implementation
class Monitor:
    """Per-instruction checks installed around every opcode function (C07) and str-key snapshot (C08)."""
    def __init__(self):
        self.violations = []
        self.frames = []
        self.max_items_seen = 0

    def install(self, stack_limits, call_limit=None):
        self.limits = stack_limits
        self.call_limit = call_limit
        self.saved = (dict(F.opcodes), dict(F.nopcodes))
        mon = self

        def wrap(fn):
            def w(tape, stack, cache):
                p0 = tape.pointer
                try:
                    return fn(tape, stack, cache)
                finally:
                    mon.after_op(tape, stack, p0, fn)
            return w
        for k, (n, fn) in list(F.opcodes.items()):
            F.opcodes[k] = (n, wrap(fn))
        for k, (n, fn) in list(F.nopcodes.items()):
            F.nopcodes[k] = (n, wrap(fn))

    def uninstall(self):
        F.opcodes.clear(); F.opcodes.update(self.saved[0])
        F.nopcodes.clear(); F.nopcodes.update(self.saved[1])

    def after_op(self, tape, stack, p0, fn):
        mi, ms = self.limits
        n = len(stack.deque)
        if n > mi:
            self.violations.append(('stack holds %d items > max_items %d' % (n, mi)))
        for it in stack.deque:
            if type(it) is not bytes or len(it) > ms:
                self.violations.append('stack item of %s bytes > max_item_size %d' % (len(it) if type(it) is bytes else type(it), ms))
                break
        if tape.pointer < p0:
            self.violations.append('pointer moved backwards %d -> %d in %s' % (p0, tape.pointer, getattr(fn, '__name__', '?')))
        if tape.pointer > len(tape.data):
            self.violations.append('pointer %d past end %d' % (tape.pointer, len(tape.data)))
        if self.call_limit is not None:
            # every tape of the run — top level, sub-tapes, later scripts of run_auth_scripts — is under the embedder's call limit
            if tape.callstack_limit != self.call_limit:
                self.violations.append('a tape runs under callstack_limit %r, the run was given %r' % (tape.callstack_limit, self.call_limit))
            elif type(tape.callstack_count) is int and tape.callstack_count > max(0, self.call_limit):
                self.violations.append('call counter %d exceeds callstack_limit %d' % (tape.callstack_count, self.call_limit))


def str_snapshot(cache):
    # values are rendered (type name + repr), so an in-place change of a mutable value (bytearray, list) shows
    return {k: (type(v).__name__, repr(v)) for k, v in cache.items() if type(k) is str and k != 'returned'}


def direct_oracles(script, cache_vals, cfg, want):
    """Runs the implementation alone with monitors; returns {pid: [violation text]}"""
    import copy
    cache_vals = copy.deepcopy(cache_vals)
    out = {}
    log = tsh.Log()
    tsh.Pins.ridx = 0
    tsh.Pins.now = cfg.now
    mon = Monitor()
    del tsh.WatchDeque.drops[:]
    mon.install((cfg.max_items, cfg.max_item_size), cfg.limit)
    cache_in = {'timestamp': cfg.now, **cache_vals}
    before = str_snapshot(cache_in)
    esc = None
    try:
        tsh._Capture.top = None
        tsh._Capture.depth = 0
        with tsh.Watch():
            try:
                F.run_script(script, cache_vals, cfg.contract_objs(log), cfg.flags, cfg.plugins(log),
                             cfg.max_items, cfg.max_item_size, cfg.limit)
            except tsh.ImplTimeout:
                raise
            except BaseException as e:
                esc = e
    finally:
        mon.uninstall()
    if tsh.Watch.fired:
        return {'C07': ['the script did not end within the per-case watchdog (%.0f s)' % tsh.Watch().seconds]}
    tape, stack, cache = tsh._Capture.top
    if 'C07' in want:
        v = list(mon.violations) + list(tsh.WatchDeque.drops[:2])
        if isinstance(esc, (RecursionError, MemoryError, SystemError)):
            v.append('interpreter-level failure escaped: ' + type(esc).__name__)
        if v:
            out['C07'] = v[:3]
    if 'C08' in want and not cfg.sigext and not cfg.ctplugins:
        after = str_snapshot(cache)
        if after != before:
            diff = {k: (before.get(k), after.get(k)) for k in set(before) | set(after) if before.get(k) != after.get(k)}
            out['C08'] = ['str-keyed cache entries changed: ' + repr(diff)[:300]]
    return out


def direct_oracles_auth(scripts, cache_vals, cfg):
    """C07 on run_auth_scripts: the same per-instruction monitors while a LIST of scripts runs (the limits hold in every script)"""
    import copy
    cache_vals = copy.deepcopy(cache_vals)
    log = tsh.Log()
    tsh.Pins.ridx = 0
    tsh.Pins.now = cfg.now
    mon = Monitor()
    del tsh.WatchDeque.drops[:]
    mon.install((cfg.max_items, cfg.max_item_size), cfg.limit)
    esc = None
    try:
        tsh._Capture.top = None
        tsh._Capture.depth = 0
        with tsh.Watch():
            try:
                F.run_auth_scripts(list(scripts), cache_vals, cfg.contract_objs(log), cfg.plugins(log),
                                   cfg.max_items, cfg.max_item_size, cfg.limit)
            except tsh.ImplTimeout:
                raise
            except BaseException as e:
                esc = e
    finally:
        mon.uninstall()
    if tsh.Watch.fired:
        return ['the scripts did not end within the per-case watchdog (%.0f s)' % tsh.Watch().seconds]
    v = list(mon.violations) + list(tsh.WatchDeque.drops[:2])
    if esc is not None:
        v.append('run_auth_scripts raised ' + type(esc).__name__)
    return v[:3]


def c08_alias_probes():
    """Directed search for a script that alters a str-keyed entry through a value fetched with OP_GET_VALUE:
    every opcode applied to (fetched value, other operand) in both orders, the value being each mutable or
    immutable kind an embedder may store.  Returns (violations, runs)."""
    _init()
    cfg = tsh.Cfg()
    viol, runs = [], 0
    kinds = [('ba', lambda: bytearray(b'\x0f\xf0\x01')), ('bs', lambda: b'\x0f\xf0\x01'),
             ('lst', lambda: [b'\x01', bytearray(b'\x02\x03')]), ('txt', lambda: 'abc'), ('num', lambda: 7),
             ('lst', lambda: [5, 'abc', 2.5, b'zz']), ('lst', lambda: (5, 'abc', 2.5))]
    others = [b'\x01' * 9, b'\x01', b'\x01\x02\x03', b'']
    gv = lambda k: bytes([gen.OPC['OP_GET_VALUE'], len(k)]) + k.encode()
    psh = lambda b: bytes([gen.OPC['OP_PUSH1'], len(b)]) + b
    for key, mk in kinds:
        for code in range(256):
            for other in others:
                for order in (0, 1):
                    body = (gv(key) + psh(other)) if order == 0 else (psh(other) + gv(key))
                    script = body + bytes([code, 1, 1, 1])
                    runs += 1
                    try:
                        r = direct_oracles(script, {key: mk(), 'sigfield1': b'm'}, cfg, ('C08',))
                    except Exception:
                        continue
                    if r.get('C08') and len(viol) < 4:
                        viol.append(dict(case=dict(script=script.hex(), cache_repr=repr({key: mk(), 'sigfield1': b'm'})),
                                         what=r['C08'][0]))
    return viol, runs


# ---------------------------------------------------------------- one task
def run_task(task):
    seed, n, profile, want = task
    _init()
    rng = random.Random(seed)
    model = tsh.Model()
    stats = collections.Counter()
    outcomes = collections.Counter()
    opcodes = collections.Counter()
    sizes = collections.Counter()
    disagreements, samples = [], []
    violations = collections.defaultdict(list)
    digests = set()
    nontrivial = 0
    t0 = time.time()
    replay = []
    budget = float(os.environ.get('VERIF_STREAM_BUDGET', '150'))
    for i in range(n):
        if time.time() - t0 > budget:
            stats['stopped-on-time-budget'] += 1      # a (changed) implementation may be very slow: report what was covered
            break
        cfg = rand_cfg(rng, profile)
        g = gen.Gen(rng, contracts=cfg.contracts, max_depth=4)
        prog = g.program(1, 9) if rng.random() < 0.93 else g.raw_program()
        cv = g.cache_vals()
        st, iline, mline = tsh.compare_script(model, prog, cv, cfg)
        stats[st] += 1
        if iline.startswith('timeout'):
            stats['impl-timeout'] += 1
            if stats['impl-timeout'] > 5:
                break                      # the implementation hangs repeatedly: stop the stream, report what we have
        out = iline.split(' | ')[0]
        outcomes[out] += 1
        sizes[min(len(prog) // 16, 8)] += 1
        for b in prog[:64]:
            pass
        d = hashlib.sha256(prog + repr(sorted(cv.items(), key=repr)).encode() + cfg.line().encode()).digest()[:8]
        if d not in digests:
            digests.add(d)
            if len(prog) >= 3:
                nontrivial += 1
        case = dict(script=prog.hex(), cache=tsh.cache_str(cv, False), cfg=cfg.to_json())
        if st == 'differ':
            if len(disagreements) < 5:
                disagreements.append(dict(case=case, impl=iline, model=mline, seed=seed, index=i))
        if want:
            dv = direct_oracles(prog, cv, cfg, want)
            for pid, v in dv.items():
                if len(violations[pid]) < 5:
                    violations[pid].append(dict(case=case, what=v, seed=seed, index=i))
                stats['direct-violation-' + pid] += 1
        if 'C07' in want and i % 5 == 0:
            # the same limits while a list of scripts runs: a short first script, then the program (loops / recursion in a later script)
            pre = rng.choice([b'', b'\x01' + gen.op('POP0'), gen.push(b'\x03'), g.program(1, 2)])
            scr = [pre, prog] if rng.random() < 0.8 else [pre, g.program(1, 3), prog]
            stats['auth-mode-monitored'] += 1
            va = direct_oracles_auth(scr, cv, cfg)
            if va:
                stats['direct-violation-C07'] += 1
                if len(violations['C07']) < 5:
                    violations['C07'].append(dict(case=dict(scripts=[x.hex() for x in scr], cache=tsh.cache_str(cv, False), cfg=cfg.to_json()),
                                                  what=va, seed=seed, index=i))
        if i < 2:
            samples.append(dict(case=case, impl=iline[:300]))
        if (i < 40 or i % 97 == 0) and not iline.startswith(('timeout', 'recursion')):
            replay.append((prog, cv, cfg, iline, case))
    # history independence: the result is a function of (script, cache, configuration)
    for prog, cv, cfg, first, case in replay:
        again = tsh.impl_run_script(prog, cv, cfg)
        stats['history-replays'] += 1
        if again != first and not again.startswith(('timeout', 'recursion')):
            stats['history-fail'] += 1
            if len(disagreements) < 5:
                disagreements.append(dict(case=case, impl=again, model='(first run of the same input in this process) ' + first,
                                          seed=seed, index=-1))
    model.close()
    return dict(stats=dict(stats), outcomes=dict(outcomes), sizes=dict(sizes), disagreements=disagreements,
                violations=dict(violations), samples=samples, distinct_nontrivial=nontrivial, n=sum(v for k, v in stats.items() if k in ('agree', 'differ') or k.startswith('skip-')),
                oracle_calls=model.oracle_calls, wall=time.time() - t0)


def merge(results):
    tot = dict(stats=collections.Counter(), outcomes=collections.Counter(), sizes=collections.Counter(),
               disagreements=[], violations=collections.defaultdict(list), samples=[], distinct_nontrivial=0,
               n=0, oracle_calls=0)
    for r in results:
        tot['stats'].update(r['stats']); tot['outcomes'].update(r['outcomes']); tot['sizes'].update(r['sizes'])
        tot['disagreements'] += r['disagreements']
        for k, v in r['violations'].items():
            tot['violations'][k] += v
        tot['samples'] += r['samples'][:1]
        tot['distinct_nontrivial'] += r['distinct_nontrivial']
        tot['n'] += r['n']; tot['oracle_calls'] += r['oracle_calls']
    tot['stats'] = dict(tot['stats']); tot['outcomes'] = dict(tot['outcomes']); tot['sizes'] = dict(tot['sizes'])
    tot['violations'] = dict(tot['violations'])
    return tot


def _guarded(args):
    """a task must never take its worker down (a dead worker makes Pool.map wait for ever)"""
    fn, task = args
    try:
        import tsh as _t0
        del _t0.Leaks.events[:]
        r = fn(task)
        if _t0.Leaks.events and isinstance(r, dict):
            # a run left something behind in the module-level registries: reported under every property the task works for
            ev = dict(what='a plugin / contract passed to ONE call outlived it: ' + _t0.Leaks.events[0], case=dict(note=_t0.Leaks.events[0]))
            if isinstance(r.get('violations'), list):
                r['violations'].append(ev)
            elif isinstance(r.get('violations'), dict):
                for pid in (task[3] if len(task) > 3 and task[3] else ('C06',)):
                    r['violations'].setdefault(pid, []).append(ev)
        return ('ok', r)
    except BaseException as e:          # incl. a stray watchdog exception
        import traceback
        import tsh as _t
        _t.Watch.active = False
        return ('err', '%s: %s\n%s' % (type(e).__name__, e, traceback.format_exc()[-1500:]))


def run_parallel(tasks, nproc=8, fn=run_task):
    if nproc <= 1 or len(tasks) <= 1:
        return [fn(t) for t in tasks]
    ctx = mp.get_context('fork')
    limit = float(os.environ.get('VERIF_POOL_TIMEOUT', '5400'))
    with ctx.Pool(min(nproc, len(tasks))) as pool:
        res = pool.map_async(_guarded, [(fn, t) for t in tasks]).get(timeout=limit)
    bad = [r[1] for r in res if r[0] != 'ok']
    if bad:
        raise RuntimeError('stream task failed: ' + bad[0])
    return [r[1] for r in res]


def vm_stream(seed, total, profile='general', want=(), nproc=8, chunk=2500):
    tasks = []
    k = 0
    left = total
    while left > 0:
        c = min(chunk, left)
        tasks.append((seed * 1000003 + k, c, profile, tuple(want)))
        left -= c
        k += 1
    return merge(run_parallel(tasks, nproc))


def replay_case(case):
    """re-run one recorded case; returns (status, impl_line, model_line, direct)"""
    _init()
    cj = case['cfg']
    flags = {}
    for k, v in cj.get('flags', {}).items():
        flags[eval(k)] = v
    cfg = tsh.Cfg(cj['max_items'], cj['max_item_size'], cj['limit'], flags, cj['sigext'],
                  [tuple(x) for x in cj['ctplugins']], [(bytes.fromhex(c), k) for c, k in cj['contracts']], cj['now'])
    script = bytes.fromhex(case['script'])
    cv = tsh.parse_cache_str(case['cache'])
    m = tsh.Model()
    r = tsh.compare_script(m, script, cv, cfg)
    m.close()
    d = direct_oracles(script, cv, cfg, ('C07', 'C08'))
    return r, d
