"""C19: registry histories (implementation vs Registry.v model) and history-independence of compile / run."""
import collections, copy, hashlib, os, random, sys
from typing import Protocol, runtime_checkable

sys.path.insert(0, os.path.dirname(os.path.abspath(__file__)))
import vmstream


def _init():
    global tsh, F, P
    import tsh as _t
    tsh = _t
    F, P = tsh.F, tsh.P


@runtime_checkable
class IfaceA(Protocol):
    def alpha(self): ...


@runtime_checkable
class IfaceB(Protocol):
    def beta(self): ...


class K0:                                   # CanCheckTransfer only
    def verify_txn_proof(self, p): return True
    def verify_transfer(self, p, s, d): return True
    def verify_txn_constraint(self, p, c): return True
    def calc_txn_aggregates(self, p, scope=None): return {scope: 0}
class K1:                                   # CanBeInvoked only
    def abi(self, args): return None
class K2(K0):                               # both
    def abi(self, args): return None
class K3:                                   # IfaceA only
    def alpha(self): pass
class K4:                                   # nothing
    pass


SCOPES = ['signature_extensions', 'check_template', 'custom_scope']
ALIASES = ['VZA', 'VZB', 'VZC', 'VZD']
OPNAMES = ['OP_TRUE', 'OP_FALSE', 'OP_NOT_AN_OP']      # index 2 is not a known op


def enum_histories(maxlen):
    """bounded-exhaustive part of the quantifier: every call sequence up to maxlen over {add, remove, reset} x 3 plugins x 2 scopes,
    {add, remove} x 2 contracts, x 2 interfaces, add x 2 aliases (run and compile follow every history)"""
    import itertools
    alpha = [('ap', s_, p_) for s_ in (0, 1) for p_ in (0, 1, 2)] + [('rp', s_, p_) for s_ in (0, 1) for p_ in (0, 1, 2)] + \
            [('rs', 0), ('rs', 1), ('ac', 0, 0), ('ac', 1, 1), ('rc', 0), ('rc', 1), ('ai', 2), ('ai', 3), ('ri', 2), ('ri', 0), ('aa', 0, 0), ('aa', 1, 1)]
    out = []
    for L in range(1, maxlen + 1):
        out += [list(t) for t in itertools.product(alpha, repeat=L)]
    return out


def reg_task(task):
    seed, n = task
    given = None
    if isinstance(n, list):         # an explicit list of histories (bounded-exhaustive enumeration)
        given, n = n, len(n)
    _init()
    rng = random.Random(seed)
    model = tsh.Model()
    from tapescript.interfaces import CanCheckTransfer, CanBeInvoked
    IFACES = [CanCheckTransfer, CanBeInvoked, IfaceA, IfaceB]
    KS = [K0(), K1(), K2(), K3(), K4()]
    impl_matrix = {k: [i for i, itf in enumerate(IFACES) if isinstance(KS[k], itf)] for k in range(len(KS))}
    mstr = ';'.join('%d:%s' % (k, '.'.join(map(str, v))) for k, v in impl_matrix.items())
    log = []
    class _Rec:
        def __init__(self, i): self.i = i
        def hook(self, t, s, c): log.append(self.i)

    class _Plugs:
        """plugin 0 is a plain function; plugins 1 and 2 are bound methods: every access builds a NEW method object
        that is equal to, but not identical with, the one registered earlier (what an embedder writing
        add_plugin(scope, ext.hook) ... remove_plugin(scope, ext.hook) does)"""
        def __init__(self):
            self.f0 = (lambda t, s, c: log.append(0))
            self.recs = {1: _Rec(1), 2: _Rec(2)}
        def __getitem__(self, k):
            return self.f0 if k == 0 else self.recs[k].hook
        def index(self, p):
            for k in range(3):
                if self[k] == p:
                    return k
            raise ValueError(p)
    PLUGS = _Plugs()
    saved = (copy.copy(F._plugins), {k: list(v) for k, v in F._plugins.items()}, dict(F._contracts),
             dict(F._contract_interfaces), dict(F.opcode_aliases))
    stats = collections.Counter()
    dis, viol, samples = [], [], []
    digests = set()

    def reset():
        # restore the registries IN PLACE and through the module's own objects: rebinding F._plugins[k] to fresh lists would
        # hide a defect in how the module shares or aliases them
        for k in list(F._plugins):
            if k in saved[1]:
                F._plugins[k].clear()
            else:
                del F._plugins[k]
        for k, v in saved[1].items():
            for p_ in v:
                if p_ not in F._plugins[k]:
                    F._plugins[k].append(p_)
        F._contracts.clear(); F._contracts.update(saved[2])
        F._contract_interfaces.clear(); F._contract_interfaces.update(saved[3])
        F.opcode_aliases.clear(); F.opcode_aliases.update(saved[4])
    for v_ in tsh.reentrancy_probes():      # callbacks acting on the registries / on their tape while a run is in progress (once per task)
        stats['direct-fail'] += 1
        viol.append(v_)
    stats['reentrancy-probes'] += 1
    try:
        for it in range(n):
            reset()
            L = rng.randint(1, 14) if given is None else 0
            ops = [] if given is None else list(given[it])
            for _ in range(L):
                c = rng.random()
                if c < 0.3: ops.append(('ap', rng.randrange(3), rng.randrange(3)))
                elif c < 0.45: ops.append(('rp', rng.randrange(3), rng.randrange(3)))
                elif c < 0.55: ops.append(('rs', rng.randrange(3)))
                elif c < 0.7: ops.append(('ac', rng.randrange(3), rng.randrange(5)))
                elif c < 0.77: ops.append(('rc', rng.randrange(3)))
                elif c < 0.85: ops.append(('ai', rng.randrange(4)))
                elif c < 0.92: ops.append(('ri', rng.randrange(4)))
                else: ops.append(('aa', rng.randrange(4), rng.randrange(3)))
            outs = ''
            for o in ops:
                try:
                    if o[0] == 'ap': F.add_plugin(SCOPES[o[1]], PLUGS[o[2]])
                    elif o[0] == 'rp': F.remove_plugin(SCOPES[o[1]], PLUGS[o[2]])
                    elif o[0] == 'rs': F.reset_plugins(SCOPES[o[1]])
                    elif o[0] == 'ac': F.add_contract(bytes([o[1]]), KS[o[2]])
                    elif o[0] == 'rc': F.remove_contract(bytes([o[1]]))
                    elif o[0] == 'ai': F.add_contract_interface(IFACES[o[1]])
                    elif o[0] == 'ri': F.remove_contract_interface(IFACES[o[1]])
                    elif o[0] == 'aa': F.add_alias(ALIASES[o[1]], OPNAMES[o[2]])
                    outs += 'o'
                except BaseException:
                    outs += 'e'
            pl = ';'.join('%d:%s' % (SCOPES.index(s), '.'.join(str(PLUGS.index(p)) for p in l)) for s, l in F._plugins.items())
            ct = ';'.join('%d:%d' % (k[0], KS.index(v)) for k, v in F._contracts.items())
            names = [i.__name__ for i in IFACES]
            ifs = '.'.join(str(names.index(nm)) for nm in F._contract_interfaces)
            al = ';'.join('%d:%d' % (ALIASES.index(a), OPNAMES.index(o)) for a, o in F.opcode_aliases.items() if a in ALIASES)
            # used by a subsequent execution iff active: which recording plugins does a run invoke?
            del log[:]
            try:
                F.run_script(bytes([F.opcodes_inverse['OP_GET_MESSAGE'][0], 0]))
            except BaseException:
                pass
            used = '.'.join(str(i) for i in log)
            # the other instructions that run the signature extensions must use exactly the same (active) plugins
            for pname_, probe_, cv_ in (('CHECK_TEMPLATE', b'\x02\x61' + bytes([F.opcodes_inverse['OP_CHECK_TEMPLATE'][0], 1]), {'sigfield1': b'a'}),
                                        ('SIGN', bytes([3, 32]) + bytes(range(32)) + bytes([F.opcodes_inverse['OP_SIGN'][0], 0]), {'sigfield1': b'a'}),
                                        ('CHECK_SIG', bytes([3, 64]) + bytes(64) + bytes([3, 32]) + bytes([1]) + bytes(31) + bytes([F.opcodes_inverse['OP_CHECK_SIG'][0], 0]), {'sigfield1': b'a'})):
                mark_ = len(log)
                try:
                    F.run_script(probe_, dict(cv_))
                except BaseException:
                    pass
                used_ = '.'.join(str(i) for i in log[mark_:])
                stats['used-by-' + pname_] += 1
                want_ = used
                if pname_ == 'CHECK_TEMPLATE':      # ... followed by the plugins of the check_template scope, once for the one template checked
                    want_ = '.'.join([x_ for x_ in [used] if x_] + [str(PLUGS.index(p_)) for p_ in F._plugins.get('check_template', [])])
                if used_ != want_:
                    stats['direct-fail'] += 1
                    if len(viol) < 8:
                        viol.append(dict(what='after this history OP_GET_MESSAGE runs the signature extensions %r, so OP_%s should run %r, but it runs %r' % (used, pname_, want_, used_), ops=ops))
            impl = ' | '.join([pl, ct, ifs, al, outs, used])
            line = 'REG %s 0,1 0,1 - %s' % (mstr, ','.join('.'.join(map(str, o)) for o in ops))
            m = model.cmd(line)
            stats['agree' if m == impl else 'differ'] += 1
            digests.add(hashlib.sha256(line.encode()).digest()[:8])
            if m != impl and len(dis) < 5:
                dis.append(dict(ops=ops, impl=impl, model=m))
            # direct oracle: "active = added and not since removed / reset" recomputed naively from the history
            act = {s: [] for s in range(3)}
            present = {0, 1}
            for o in ops:
                if o[0] == 'ap':
                    present.add(o[1])
                    if o[2] not in act[o[1]]: act[o[1]].append(o[2])
                elif o[0] == 'rp' and o[2] in act[o[1]]: act[o[1]].remove(o[2])
                elif o[0] == 'rs': act[o[1]] = []
            got = {SCOPES.index(s): [PLUGS.index(p) for p in l] for s, l in F._plugins.items()}
            want = {s: act[s] for s in present}
            if got != want or used != '.'.join(map(str, act[0])):
                stats['direct-fail'] += 1
                if len(viol) < 8:
                    viol.append(dict(what='active plugins %r (used by a run: %r) but the history says %r' % (got, used, want), ops=ops))
            # the same for contracts and interfaces: a contract is accepted iff its object implements an interface active AT THAT MOMENT
            # (whatever was accepted earlier); a refused call changes nothing
            act_if, act_ct, exp_outs = [0, 1], {}, ''
            for o in ops:
                ok_ = True
                if o[0] == 'ai':
                    if o[1] not in act_if: act_if.append(o[1])
                elif o[0] == 'ri':
                    if o[1] in act_if: act_if.remove(o[1])
                elif o[0] == 'ac':
                    if any(i_ in act_if for i_ in impl_matrix[o[2]]): act_ct[o[1]] = o[2]
                    else: ok_ = False
                elif o[0] == 'rc':
                    act_ct.pop(o[1], None)
                exp_outs += ('o' if ok_ else 'e') if o[0] in ('ai', 'ri', 'ac', 'rc') else '.'
            got_ct = {k[0]: KS.index(v) for k, v in F._contracts.items()}
            got_if = [names.index(nm) for nm in F._contract_interfaces]
            got_outs = ''.join(c_ if o_[0] in ('ai', 'ri', 'ac', 'rc') else '.' for c_, o_ in zip(outs, ops))
            if got_ct != act_ct or got_if != act_if or got_outs != exp_outs:
                stats['direct-fail'] += 1
                if len(viol) < 8:
                    viol.append(dict(what='contracts %r, interfaces %r, accepted/refused %s after this history; the history says contracts %r, interfaces %r, %s '
                                          '(contract k implements interfaces %s)' % (got_ct, got_if, got_outs, act_ct, act_if, exp_outs, mstr), ops=ops))
            if len(samples) < 2:
                samples.append(dict(ops=ops, impl=impl))
    finally:
        reset()
    model.close()
    return dict(n=n, stats=dict(stats), disagreements=dis, violations=viol, samples=samples, distinct=len(digests),
                oracle_calls=model.oracle_calls, labels={})


def indep_task(task):
    """results depend only on arguments + registry: B, then A, then B again must give identical results;
    caller dictionaries are never modified"""
    seed, n = task
    _init()
    import gen as G, asmstream
    asmstream._init()
    rng = random.Random(seed)
    stats = collections.Counter()
    viol, samples = [], []

    def obs_compile(src, via):
        try:
            if via == 'compile_script': return P.compile_script(src).hex()
            if via == 'assemble': return P.assemble(P.get_symbols(src)).hex()
            return tsh.T.Script.from_src(src).bytes.hex()
        except BaseException as e:
            return 'raise:' + type(e).__name__

    def obs_run(script, cache, contracts, plugins, auth):
        c0, k0, p0 = copy.deepcopy(cache), dict(contracts), {k: list(v) for k, v in plugins.items()}
        tsh.Pins.ridx = 0
        try:
            if auth:
                r = repr(F.run_auth_scripts([script], cache, contracts, plugins))
            else:
                _, st, ch = F.run_script(script, cache, contracts, {}, plugins)
                r = tsh.stack_str(st.list()) + ' | ' + tsh.cache_str(ch)
        except BaseException as e:
            r = 'raise:' + type(e).__name__
        mod = (cache != c0) or (dict(contracts) != k0) or ({k: list(v) for k, v in plugins.items()} != p0)
        return r, mod
    class Answer:
        def __init__(self, v): self.v = v
        def abi(self, args): return [self.v]
    FORMS = ['%s', '!= m [ ] { %s } !m [ ]', '!= m [ a ] { push a %s } !m [ x01 ]', 'def 0 { %s } call d0', 'true if { %s }', 'push ~ { %s }',
             '!= m [ ] { push ~ { %s } } !m [ ]']

    def registry_dependent_compiles():
        # "an entry is used by subsequent executions (and compilations) iff it is active": the same source text compiled on both
        # sides of a change of the alias / contract registry — plainly, through a macro, inside blocks and comptime blocks
        saved_al, saved_ct = dict(F.opcode_aliases), dict(F._contracts)
        try:
            alias = rng.choice(['VZA', 'VZB'])
            form = rng.choice(FORMS)
            via = rng.choice(['compile_script', 'assemble', 'Script.from_src'])
            hist = []
            for step in range(rng.randint(2, 4)):
                target = rng.choice([None, 'OP_TRUE', 'OP_FALSE', 'OP_NOT'])
                F.opcode_aliases.pop(alias, None)
                if target:
                    F.add_alias(alias, target)
                hist.append('%s->%s' % (alias, target))
                got = obs_compile(form % alias, via)
                want = obs_compile(form % target, via) if target else None
                stats['compile-after-registry-change'] += 1
                if (want is None and not got.startswith('raise:')) or (want is not None and got != want):
                    stats['direct-fail'] += 1
                    if len(viol) < 8:
                        viol.append(dict(what='alias history %s: %s(%r) gives %s, the registry says %s' %
                                         (hist, via, form % alias, got[:80], want[:80] if want else 'not an op name: reject'), source=form % alias))
            cid = bytes([rng.randrange(200, 256)])
            src = rng.choice(['push ~! { push d0 push x%s invoke }', '!= k [ ] { push ~! { push d0 push x%s invoke } } !k [ ]']) % cid.hex()
            hist = []
            for step in range(rng.randint(2, 4)):
                val = rng.choice([None, b'\x11', b'\x22\x33', b'\x44' * 5])
                F._contracts.pop(cid, None)
                if val is not None:
                    F.add_contract(cid, Answer(val))
                hist.append(val.hex() if val is not None else None)
                got = obs_compile(src, via)
                want = obs_compile('push x%s' % val.hex(), via) if val is not None else None
                stats['compile-after-registry-change'] += 1
                if (want is None and not got.startswith('raise:')) or (want is not None and got != want):
                    stats['direct-fail'] += 1
                    if len(viol) < 8:
                        viol.append(dict(what='contract history %s under id %s: %s(%r) gives %s, the registry says %s' %
                                         (hist, cid.hex(), via, src, got[:80], want[:80] if want else 'no such contract: reject'), source=src))
        finally:
            F.opcode_aliases.clear(); F.opcode_aliases.update(saved_al)
            F._contracts.clear(); F._contracts.update(saved_ct)
    def alias_duplicates():
        # the alias registry is a set keyed by the upper-cased alias: adding one that is active (added earlier, or built in) is an
        # error whatever its letter case, and must leave the registry and later compilations unchanged
        saved_al = dict(F.opcode_aliases)
        try:
            base = rng.choice(['VZA', 'VzB', 'vzc'])
            builtin = rng.choice([a for a in list(saved_al)[:60] if a.isalpha()] or ['ADD'])
            for first, second in ((base, base), (base, base.lower()), (base.lower(), base.upper()), (None, builtin), (None, builtin.lower())):
                F.opcode_aliases.clear(); F.opcode_aliases.update(saved_al)
                try:
                    if first is not None:
                        F.add_alias(first, 'OP_TRUE')
                    before = dict(F.opcode_aliases)
                    try:
                        F.add_alias(second, 'OP_FALSE'); res = 'accepted'
                    except ValueError:
                        res = 'ValueError'
                    except BaseException as e:
                        res = type(e).__name__
                    stats['alias-duplicate-adds'] += 1
                    if res == 'accepted' or dict(F.opcode_aliases) != before:
                        stats['direct-fail'] += 1
                        if len(viol) < 8:
                            viol.append(dict(what='add_alias(%r) while %r is active: %s; the alias table %s' % (second, (first or builtin).upper(), res,
                                             'changed' if dict(F.opcode_aliases) != before else 'is unchanged'), source='add_alias(%r, ...)' % second))
                except BaseException:
                    pass
        finally:
            F.opcode_aliases.clear(); F.opcode_aliases.update(saved_al)
    for it in range(n):
        if it % 5 == 0:
            registry_dependent_compiles()
        if it % 25 == 0:
            alias_duplicates()
        if rng.random() < 0.5:
            ga = asmstream.AstGen(rng, 2)
            srcA = asmstream.Speller(rng).prog(ga.prog())
            srcB = asmstream.Speller(rng).prog(ga.prog())
            via = rng.choice(['compile_script', 'assemble', 'assemble', 'Script.from_src'])
            if rng.random() < 0.7:
                srcA = '!= mm [ a ] { push a } !mm [ x0102 ] ' + srcA
                if rng.random() < 0.7:
                    srcB = srcB + ' !mm [ x0304 ]'

            b1 = obs_compile(srcB, via)
            obs_compile(srcA, rng.choice(['compile_script', 'assemble', 'assemble', 'Script.from_src']))
            b2 = obs_compile(srcB, via)
            stats['compile'] += 1
            if b1 != b2:
                stats['direct-fail'] += 1
                if len(viol) < 8:
                    viol.append(dict(what='%s(B) changed after compiling A: %s -> %s' % (via, b1[:60], b2[:60]), A=srcA[:300], B=srcB[:300]))
        else:
            g = G.Gen(rng)
            A, B = g.program(1, 6), g.program(1, 6)
            cache = g.cache_vals()
            log = tsh.Log()
            cfg = tsh.Cfg(contracts=vmstream.CONTRACTS, sigext=(1,))
            contracts, plugins = cfg.contract_objs(log), cfg.plugins(log)
            auth = rng.random() < 0.3
            r1, m1 = obs_run(B, cache, contracts, plugins, auth)
            obs_run(A, g.cache_vals(), contracts, plugins, rng.random() < 0.3)
            r2, m2 = obs_run(B, cache, contracts, plugins, auth)
            stats['run'] += 1
            if r1 != r2 or m1 or m2:
                stats['direct-fail'] += 1
                if len(viol) < 8:
                    viol.append(dict(what=('caller dictionaries modified' if (m1 or m2) else 'result of running B changed after running A'),
                                     A=A.hex(), B=B.hex(), first=r1[:200], second=r2[:200]))
        if len(samples) < 1:
            samples.append(dict(kind='history-independence', note='B, A, B again'))
    return dict(n=n, stats=dict(stats), disagreements=[], violations=viol, samples=samples, distinct=n, oracle_calls=0, labels={})
