"""Generic replay of a replay file written by ./check: every recorded case that carries its inputs (scripts or script, cache,
configuration — or a source text) is run again on the implementation under /repo (TS_REPO) and on the extracted model, and both
results are printed.  Cases that were recorded as a description only (direct facts about helper classes) are printed as recorded."""
import json
import tsh, vmstream


def cfg_from_json(cj):
    ev = lambda d: {eval(k): v for k, v in (d or {}).items()}
    return tsh.Cfg(cj.get('max_items', 1024), cj.get('max_item_size', 1024), cj.get('limit', 128), ev(cj.get('flags')), cj.get('sigext', ()),
                   [tuple(x) for x in cj.get('ctplugins', ())], [(bytes.fromhex(c), k) for c, k in cj.get('contracts', ())], cj.get('now'),
                   global_flags=ev(cj.get('global_flags')))


def replay(rep):
    vmstream._init()
    found = []
    v = rep.get('violation') or {}
    if isinstance(v, dict) and v:
        found.append(('violation', v))
    for key in ('disagreements', 'first_disagreements'):
        for d in rep.get(key) or []:
            if isinstance(d, dict):
                found.append(('disagreement', d))
    out = []
    model = tsh.Model()
    for kind, d in found[:6]:
        c = d.get('case') if isinstance(d.get('case'), dict) else d
        r = dict(kind=kind, recorded=(d.get('what') or d.get('label') or d.get('stream') or '')[:600])
        try:
            if 'scripts' in c and 'cfg' in c and 'fork_code' not in c:
                cfg = cfg_from_json(c['cfg'])
                st, il, ml = tsh.compare_auth(model, [bytes.fromhex(s) for s in c['scripts']], tsh.parse_cache_str(c.get('cache', '-')), cfg)
                r.update(ran='run_auth_scripts', status=st, implementation=il[:800], model=ml[:800])
            elif 'script' in c and 'cfg' in c and 'fork_code' not in c:
                cfg = cfg_from_json(c['cfg'])
                st, il, ml = tsh.compare_script(model, bytes.fromhex(c['script']), tsh.parse_cache_str(c.get('cache', '-')), cfg)
                r.update(ran='run_script', status=st, implementation=il[:800], model=ml[:800])
            elif 'source' in c:
                try:
                    r.update(ran='compile_script', implementation=tsh.P.compile_script(c['source']).hex()[:800])
                except BaseException as e:
                    r.update(ran='compile_script', implementation='raise:%s: %s' % (type(e).__name__, str(e)[:200]))
                m = model.cmd('CTXT ' + (c['source'].encode().hex() or '-'))
                r['model'] = m[:800]
            else:
                r['note'] = 'recorded as a description (no re-runnable inputs in the file)'
        except Exception as e:
            r['error'] = '%s: %s' % (type(e).__name__, e)
        out.append(r)
    model.close()
    if not out:
        return dict(note='the replay file names what no longer checks', content={k: rep[k] for k in list(rep)[:6]})
    return dict(property=rep.get('property'), kind=rep.get('kind'), cases=out)
