"""C20, whole-interpreter part: a soft fork installed in the implementation (tools.add_soft_fork) against
model/SoftFork.v, and the compatibility statement checked directly on the implementation.

For each generated script (fork op occurrences at every nesting depth: top level, IF/TRY/LOOP bodies,
definitions, EVAL payloads) the implementation runs twice: with the fork installed on one unassigned code (A)
and untouched, where that code is a NOP (B).
  correspondence:  A  ==  run_script_f (extracted SoftFork.run_script_fork), B == run_script
  direct oracle (theorem C20_soft_fork_simulation on the code): the fork op never raised in A  ==>  A == B
"""
import collections, hashlib, os, random, time
import tsh, gen, vmstream

F = tsh.F


def fork_fails(kind, items):
    """the family of fork checks (SoftFork.pred_fam): does the op raise on the removed items (top first)?"""
    if kind == 0: return bool(items) and not F.bytes_to_bool(items[0])
    if kind == 1: return any(not F.bytes_to_bool(x) for x in items)
    if kind == 2: return len(items) >= 2 and items[0] != items[1]
    if kind == 3: return bool(items) and len(items[0]) < 2
    if kind == 4: return True
    return False


class ForkInstalled:
    """with-block: code -> fork op (through the implementation's own add_soft_fork), restored afterwards"""
    def __init__(self, code, aliases=(), kind=0):
        self.code = code
        self.kind = kind
        self.aliases = list(aliases)

    def __enter__(self):
        code = self.code
        self.saved = (dict(F.opcodes), dict(F.opcodes_inverse), dict(F.nopcodes), dict(F.nopcodes_inverse),
                      dict(F.opcode_aliases))
        P = tsh.P
        self.saved_p = {}
        for nm in ('additional_opcodes', 'compiler_handlers', 'decompiler_handlers', '_compiler_handlers', '_decompiler_handlers'):
            if hasattr(P, nm) and isinstance(getattr(P, nm), dict):
                self.saved_p[nm] = dict(getattr(P, nm))

        def fork_op(tape, stack, cache):
            count = F.bytes_to_int(tape.read(1))
            tsh.E.sert(count >= 0, 'NOP count must not be negative')      # the very text of NOP: messages can be read back by scripts
            items = [stack.get() for _ in range(count)]
            if fork_fails(self.kind, items):
                if tsh._Capture.log is not None:
                    tsh._Capture.log.append('e%d' % code)
                raise tsh.E.ScriptExecutionError('soft fork check failed')
        # the aliases in every shape an embedder may hand them over in (the shape follows the code, so every run sees all of them)
        al = list(self.aliases)
        shape = (lambda x: list(x), lambda x: tuple(x), lambda x: iter(list(x)), lambda x: (a_ for a_ in list(x)),
                 lambda x: map(str, list(x)), lambda x: dict.fromkeys(x).keys())[code % 6]
        tsh.T.add_soft_fork(code, 'OP_VERIFFORK', fork_op, shape(al))
        return self

    def __exit__(self, *a):
        for d, s in zip((F.opcodes, F.opcodes_inverse, F.nopcodes, F.nopcodes_inverse, F.opcode_aliases), self.saved):
            d.clear(); d.update(s)
        for nm, s in self.saved_p.items():
            d = getattr(tsh.P, nm); d.clear(); d.update(s)
        return False


def tainted(line):
    f = line.split(' | ')
    return len(f) >= 6 and any(e.startswith('e') for e in f[5].split(','))


def fork_task(task):
    seed, n = task
    vmstream._init()
    rng = random.Random(seed)
    model = tsh.Model()
    stats, outcomes = collections.Counter(), collections.Counter()
    dis, viol, samples = [], [], []
    digests = set()
    codes = [c for c in range(256) if c not in F.opcodes]
    t0 = time.time()
    budget = float(os.environ.get('VERIF_STREAM_BUDGET', '150'))
    for i in range(n):
        if time.time() - t0 > budget:
            stats['stopped-on-time-budget'] += 1
            break
        code = rng.choice(codes)
        kind = rng.choice([0, 0, 1, 2, 3, 4, 5])
        cfg = vmstream.rand_cfg(rng, 'default' if rng.random() < 0.7 else 'general')
        g = gen.Gen(rng, contracts=cfg.contracts, max_depth=4)
        g.fork_code = code
        auth = rng.random() < 0.3
        cv = g.cache_vals()
        if auth:
            scripts = [g.program(1, 5) for _ in range(rng.randint(1, 3))]
            with ForkInstalled(code, kind=kind):
                a = tsh.impl_run_auth(scripts, cv, cfg)
            b = tsh.impl_run_auth(scripts, cv, cfg)
            ma = model.run_auth_fork(code + 256 * kind, scripts, cv, cfg)
            case = dict(scripts=[s.hex() for s in scripts], cache=tsh.cache_str(cv, False), cfg=cfg.to_json(), fork_code=code, fork_kind=kind)
            nfork = sum(s.count(bytes([code])) for s in scripts)
        else:
            prog = g.program(1, 9)
            with ForkInstalled(code, kind=kind):
                a = tsh.impl_run_script(prog, cv, cfg)
            b = tsh.impl_run_script(prog, cv, cfg)
            ma = model.run_script_fork(code + 256 * kind, prog, cv, cfg)
            case = dict(script=prog.hex(), cache=tsh.cache_str(cv, False), cfg=cfg.to_json(), fork_code=code, fork_kind=kind)
            nfork = prog.count(bytes([code]))
        if 'recursion' in (a, b) or 'timeout' in (a, b):
            stats['skip-recursion/timeout'] += 1
            continue
        # ---- correspondence: upgraded implementation vs SoftFork.run_script_f
        if ma.startswith('unmod:') or ma == 'fuel':
            stats['skip-unmodelled/fuel'] += 1
        elif a == ma:
            stats['agree'] += 1
        elif tsh.exntext_excuse(cfg, scripts if auth else [prog], a, ma):
            stats['skip-exntext'] += 1
        else:
            stats['differ'] += 1
            if len(dis) < 5:
                dis.append(dict(case=case, impl=a[:600], model=ma[:600], seed=seed, index=i))
        # ---- direct: the compatibility statement on the implementation itself
        t = tainted(a)
        outcomes[('auth ' if auth else '') + a.split(' | ')[0] + (' tainted' if t else '')] += 1
        stats['fork-ops-in-script>0'] += nfork > 0
        stats['fork-kind-%d' % kind] += 1
        if not t:
            if a != b:
                stats['direct-fail'] += 1
                if len(viol) < 6:
                    viol.append(dict(case=case, what='soft fork on code %d: the fork op never raised, yet the upgraded VM and '
                                     'the old VM differ: upgraded %s / old %s' % (code, a[:200], b[:200])))
            else:
                stats['untainted-equal'] += 1
        else:
            stats['tainted'] += 1
            stats['tainted-and-outcomes-differ'] += a != b
        d = hashlib.sha256(repr(case).encode()).digest()[:8]
        digests.add(d)
        if len(samples) < 2:
            samples.append(dict(case=case, upgraded=a[:200], old=b[:200]))
    model.close()
    return dict(n=sum(stats[k] for k in ('agree', 'differ', 'skip-unmodelled/fuel', 'skip-exntext', 'skip-recursion/timeout')),
                stats=dict(stats), outcomes=dict(outcomes), disagreements=dis, violations=viol, samples=samples,
                distinct=len(digests), oracle_calls=model.oracle_calls)


CONTEXTS = [('', ''), ('OP_TRUE', ''), ('OP_PUSH1 x05', ''), ('OP_PUSH2 x05', ''), ('PUSH x05', ''), ('OP_PUSH0 x05', ''),
            ('OP_PUSH1 d1 x05', ''), ('PUSH s"ab"', 'OP_TRUE'), ('OP_SWAP d1 d2', ''), ('@= k 1', ''), ('@k', ''),
            ('OP_TRUE IF {', '}'), ('OP_TRUE IF { PUSH1 x05', '} ELSE { OP_FALSE }'), ('OP_TRUE LOOP {', 'OP_FALSE }'),
            ('DEF 0 {', '} CALL d0'), ('TRY { OP_PUSH1 x05', '} EXCEPT { OP_TRUE }'), ('OP_TRUE IF', 'END_IF'),
            ('OP_TRUE IF ( PUSH1 x05', ') { OP_TRUE }')]


def compile_level(seed, exhaustive):
    """'both VMs compile the script to identical bytes, and the op is reachable by its name and aliases': a NOPn written
    after every kind of statement / inside every kind of block compiles on the old VM to the bytes the fork name (and its
    alias) compiles to on the upgraded VM, namely the surrounding code with the two bytes (code, count) in that place."""
    vmstream._init()
    P = tsh.P
    rng = random.Random(seed)
    codes = [c for c in range(256) if c not in F.opcodes]
    if not exhaustive:
        codes = sorted(set([codes[0], codes[-1], 200] + rng.sample(codes, 6)))
    pop1 = F.opcodes_inverse['OP_POP1'][0]
    viol, n = [], 0
    for code in codes:
        for cnt in (0, 1, 2, 0x7b, 127, 128, 255):
            for pre, post in CONTEXTS:
                n += 1
                marker = P.compile_script('%s OP_POP1 x7b %s' % (pre, post))
                at = marker.find(bytes([pop1, 0x7b]))
                if at < 0 or marker.count(bytes([pop1, 0x7b])) != 1:
                    continue
                want = marker[:at] + bytes([code, cnt]) + marker[at + 2:]
                srcs = [('old VM, NOP%d' % code, 'NOP%d x%02x' % (code, cnt), False),
                        ('old VM, nop%d' % code, 'nop%d x%02x' % (code, cnt), False),
                        ('upgraded VM, fork name', 'OP_VERIFFORK x%02x' % cnt, True),
                        ('upgraded VM, alias', 'VFK x%02x' % cnt, True)]
                for what, frag, up in srcs:
                    src = '%s %s %s' % (pre, frag, post)
                    try:
                        if up:
                            with ForkInstalled(code, aliases=['VFK']):
                                got = P.compile_script(src)
                        else:
                            got = P.compile_script(src)
                        err = None
                    except BaseException as e:
                        got, err = None, '%s: %s' % (type(e).__name__, str(e)[:80])
                    if got != want and len(viol) < 6:
                        viol.append(dict(what='%s: source %r compiles to %s, the bytes with (code %d, count %d) in that place are %s'
                                         % (what, src, got.hex() if got is not None else err, code, cnt, want.hex()),
                                         case=dict(source=src, fork_code=code)))
    return viol, n


def run_fork(seed, total, nproc, chunk=1500):
    tasks, k, left = [], 0, total
    while left > 0:
        c = min(chunk, left)
        tasks.append((seed * 1000211 + k, c)); left -= c; k += 1
    res = vmstream.run_parallel(tasks, nproc, fork_task)
    tot = dict(n=0, stats=collections.Counter(), outcomes=collections.Counter(), disagreements=[], violations=[],
               samples=[], distinct=0, oracle_calls=0)
    for r in res:
        tot['n'] += r['n']; tot['stats'].update(r['stats']); tot['outcomes'].update(r['outcomes'])
        tot['disagreements'] += r['disagreements']; tot['violations'] += r['violations']
        tot['samples'] += r['samples'][:1]; tot['distinct'] += r['distinct']; tot['oracle_calls'] += r['oracle_calls']
    tot['stats'] = dict(tot['stats']); tot['outcomes'] = dict(tot['outcomes'])
    return tot
