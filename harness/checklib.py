"""Shared machinery of ./check: build, proof audit, evidence, violation reporting, known findings."""
import fcntl, hashlib, json, os, re, subprocess, sys, time

VERIF = os.path.dirname(os.path.dirname(os.path.abspath(__file__)))
COQ = os.path.join(VERIF, 'coq')
BUILD = os.path.join(VERIF, 'build')
PY = '/venv/bin/python'
QFLAGS = ['-Q', 'model', 'TS', '-Q', 'gen', 'TS', '-Q', 'proofs', 'TS', '-Q', 'props', 'TS']

TRUSTED_BASE = [
    'Coq 8.16.1 kernel (coqc; vm_compute used, native_compute not used)',
    'hand-written Gallina model coq/model/*.v (tied to /repo by gen/Tables.v + the correspondence run of this check)',
    'harness/gen_tables.py (runtime introspection of the tapescript package -> coq/gen/Tables.v)',
    'extraction: Require Extraction + ExtrOcamlBasic only (no Extract Constant / Extract Inductive of our own)',
    'ocaml/driver.ml and harness/*.py (hex I/O, oracle service backed by hashlib / PyNaCl / struct, comparison)',
    'CPython, PyNaCl/libsodium, hashlib, struct: not modelled, reached through the oracle interface',
    'axioms: none declared by this development; the four float theorems of C10 depend, through Flocq 4.1.0 (IEEE754.Bits), '
    'on the standard library axioms ClassicalDedekindReals.sig_not_dec, ClassicalDedekindReals.sig_forall_dec, '
    'FunctionalExtensionality.functional_extensionality_dep, Classical_Prop.classic; every other theorem is closed under '
    'the global context (see print_assumptions in this file)',
]


# axioms DECLARED BY THE STANDARD LIBRARY that theorems of this development may depend on (only the float part of C10
# does, through Flocq's use of the real numbers); any other axiom in a Print Assumptions output fails the audit
STDLIB_AXIOMS = {
    'ClassicalDedekindReals.sig_not_dec', 'ClassicalDedekindReals.sig_forall_dec',
    'FunctionalExtensionality.functional_extensionality_dep', 'Classical_Prop.classic',
}


def sh(cmd, cwd=None, timeout=3600, env=None):
    p = subprocess.run(cmd, cwd=cwd, stdout=subprocess.PIPE, stderr=subprocess.STDOUT, text=True,
                       timeout=timeout, env=env)
    return p.returncode, p.stdout


def ensure_build():
    """Regenerate tables from /repo, build all .vo (make -k), extract and compile the model binary.
    Returns dict(ok=bool, failed=[files], log=str, tables_changed=bool)."""
    os.makedirs(BUILD, exist_ok=True)
    with open(os.path.join(BUILD, '.lock'), 'w') as lk:
        fcntl.flock(lk, fcntl.LOCK_EX)
        env = dict(os.environ, PYTHONHASHSEED='0', PYTHONPATH=os.environ.get('TS_REPO', '/repo'))
        rc, out = sh([PY, os.path.join(VERIF, 'harness', 'gen_tables.py')], env=env)
        tables_err = None if rc == 0 else out
        changed = 'regenerated' in out
        if not os.path.exists(os.path.join(COQ, 'Makefile')):
            sh(['coq_makefile', '-f', '_CoqProject', '-o', 'Makefile'], cwd=COQ)
        rc, log = sh(['timeout', '3000', 'make', '-k', '-j16'], cwd=COQ)
        failed = sorted(set(re.findall(r'File "\./([^"]+\.v)"[^\n]*\n(?:[^\n]*\n)*?Error', log)))
        failed += [m for m in re.findall(r'\*\*\* \[[^\]]*: ([^\]\s]+\.vo)\]', log)]
        failed = sorted(set(f.replace('.vo', '.v') for f in failed))
        # model binary
        binp = os.path.join(BUILD, 'tsmodel')
        srcs = [os.path.join(COQ, 'model', f) for f in os.listdir(os.path.join(COQ, 'model')) if f.endswith('.v')]
        srcs += [os.path.join(COQ, 'extract', 'Extract.v'), os.path.join(VERIF, 'ocaml', 'driver.ml'),
                 os.path.join(COQ, 'gen', 'Tables.v')]
        newest = max(os.path.getmtime(s) for s in srcs)
        berr = None
        if not os.path.exists(binp) or os.path.getmtime(binp) < newest:
            rc2, o2 = sh(['timeout', '600', 'coqc', '-Q', '../coq/model', 'TS', '-Q', '../coq/gen', 'TS', '../coq/extract/Extract.v'], cwd=BUILD)
            if rc2 == 0:
                sh(['cp', os.path.join(VERIF, 'ocaml', 'driver.ml'), BUILD])
                rc2, o2 = sh(['timeout', '600', 'ocamlfind', 'ocamlopt', '-O2', '-w', '-a', 'tsmodel.mli',
                              'tsmodel.ml', 'driver.ml', '-o', 'tsmodel'], cwd=BUILD)
            if rc2 != 0:
                berr = o2
        return dict(ok=(rc == 0 and berr is None and tables_err is None), failed=failed, log=log[-4000:],
                    tables_changed=changed, tables_err=tables_err, binary_err=berr)


def audit_props(pid):
    """Compile props/<pid>.v on its own and parse the Print Assumptions output.
    Returns dict(ok, theorems, closed, axioms, out)."""
    f = os.path.join('props', pid + '.v')
    if not os.path.exists(os.path.join(COQ, f)):
        return dict(ok=False, theorems=0, closed=0, axioms=[], out='no props file')
    rc, out = sh(['timeout', '900', 'coqc'] + QFLAGS + [f], cwd=COQ)
    src = open(os.path.join(COQ, f)).read()
    n_print = len(re.findall(r'^Print Assumptions', src, re.M))
    n_thm = len(re.findall(r'^(Theorem|Lemma|Corollary|Example)\s', src, re.M))
    closed = out.count('Closed under the global context')
    axioms = []
    in_blk = False
    for line in out.splitlines():
        if line.startswith('Axioms:'):
            in_blk = True
            continue
        if line.startswith('Closed under'):
            in_blk = False
            continue
        if in_blk and line and not line[0].isspace():
            m = re.match(r'^([A-Za-z_][\w.\']*)', line)      # an axiom name starts a line at column 0
            if m:
                axioms.append(m.group(1))
    n_sections = closed + out.count('Axioms:')
    foreign = [a for a in set(axioms) if a not in STDLIB_AXIOMS]
    return dict(ok=(rc == 0 and n_sections == n_print and not foreign), theorems=n_thm, printed=n_print, closed=closed,
                axioms=sorted(set(axioms)), out=out[-3000:], rc=rc)


FORBIDDEN = re.compile(r'\b(Admitted|admit|Axiom|Parameter|Conjecture|Unset Guard|bypass_check|Admit Obligations|type-in-type|impredicative-set)\b')


def forbidden_scan():
    hits = []
    cp0 = open(os.path.join(COQ, '_CoqProject')).read().split()
    # the development = the files of _CoqProject + the extraction file (a .v that is in neither is not built,
    # not imported by anything and not part of any claim: e.g. a proof still being written)
    dev = set(os.path.normpath(os.path.join(COQ, f)) for f in cp0 if f.endswith('.v'))
    dev.add(os.path.normpath(os.path.join(COQ, 'extract', 'Extract.v')))
    for root, _, files in os.walk(COQ):
        for fn in files:
            if fn.endswith('.v'):
                p = os.path.join(root, fn)
                if os.path.normpath(p) not in dev:
                    continue
                txt = re.sub(r'\(\*.*?\*\)', '', open(p).read(), flags=re.S)
                for i, line in enumerate(txt.splitlines(), 1):
                    if FORBIDDEN.search(line):
                        hits.append('%s:%d:%s' % (os.path.relpath(p, VERIF), i, line.strip()[:80]))
    cp = open(os.path.join(COQ, '_CoqProject')).read()
    if FORBIDDEN.search(cp):
        hits.append('_CoqProject')
    return hits


def known_findings(pid):
    p = os.path.join(VERIF, 'KNOWN_FINDINGS.jsonl')
    out = []
    if os.path.exists(p):
        for line in open(p):
            line = line.strip()
            if line and not line.startswith('#'):
                d = json.loads(line)
                if d.get('property') == pid:
                    out.append(d)
    return out


def write_replay(pid, obj):
    d = os.path.join(VERIF, 'replays')
    os.makedirs(d, exist_ok=True)
    body = json.dumps(obj, indent=1, sort_keys=True, default=str)
    h = hashlib.sha256(body.encode()).hexdigest()[:12]
    p = os.path.join(d, '%s-%s.json' % (pid, h))
    open(p, 'w').write(body)
    return p


def write_evidence(pid, tier, seed, level, coverage, assumptions, wall, violations):
    d = os.path.join(VERIF, 'evidence')
    os.makedirs(d, exist_ok=True)
    ev = dict(property_id=pid, tier=tier, seed=seed, level=level, coverage=coverage,
              assumptions=assumptions, wall_s=round(wall, 2), violations=violations)
    open(os.path.join(d, pid + '.json'), 'w').write(json.dumps(ev, indent=1, default=str))
    return ev
