"""Common harness code: implementation runner, model co-process, oracle service, canonical forms.

Everything the model does not compute itself (hashes, ed25519, floats, utf-8, log2, randomness)
is answered here with the real libraries; the clock and token_bytes of the implementation are pinned
so that both sides see the same values.
"""
import copy, hashlib, math, os, struct, subprocess, sys, json, random, time as _time

REPO = os.environ.get('TS_REPO', '/repo')
VERIF = os.path.dirname(os.path.dirname(os.path.abspath(__file__)))
if REPO not in sys.path:
    sys.path.insert(0, REPO)
# (the recursion limit is left at CPython's default: deep nesting must behave as it does for an embedder)

import nacl.bindings as nb
import nacl.exceptions
from nacl.signing import SigningKey, VerifyKey

import tapescript
from tapescript import functions as F, classes as C, parsing as P, tools as T, errors as E

MODEL_BIN = os.path.join(VERIF, 'build', 'tsmodel')
KNOWN_EXN = {'ScriptExecutionError', 'ValueError', 'TypeError', 'IndexError', 'KeyError',
             'ZeroDivisionError', 'OverflowError', 'UnicodeDecodeError', 'AssertionError',
             'BadSignatureError', 'CryptoError', 'RuntimeError', 'error'}


def exn_name(e):
    n = type(e).__name__
    return n if n in KNOWN_EXN else ('RecursionError' if n == 'RecursionError' else 'OtherError')


# ---------------------------------------------------------------- deterministic randomness / clock
class Pins:
    now = 1_700_000_000       # the verifier's clock, in whole seconds (what int(time()) must give)
    frac = 0.625              # ... but time() is a float with a fractional part, like every real clock
    rseed = b'verif'
    ridx = 0


def det_random(n, idx):
    return hashlib.shake_256(Pins.rseed + idx.to_bytes(4, 'big')).digest(n)


def _token_bytes(n):
    i = Pins.ridx
    Pins.ridx += 1
    return det_random(n, i)


def pin():
    F.time = lambda: Pins.now + Pins.frac
    F.token_bytes = _token_bytes


pin()


# ---------------------------------------------------------------- canonical text forms
def zhex(n):
    return ('-' if n < 0 else '') + format(abs(n), 'x')


def hx(b):
    return b.hex() if len(b) else '-'


def atom_str(v, canon=True):
    if type(v) is bytes:
        return 'b' + (canon_item(v) if canon else v).hex()
    if type(v) is str:
        return 's' + v.encode('utf-8', 'surrogatepass').hex()
    if type(v) is bool:
        return 't1' if v else 't0'
    if type(v) is bytearray:
        return 'a' + bytes(v).hex()
    if type(v) is int:
        return 'i' + zhex(v)
    if type(v) is float:
        try:
            return 'f' + struct.pack('!f', v).hex()
        except OverflowError:
            return 'o'
    return 'o'


def val_str(v, canon=True):
    if type(v) in (list, tuple):
        return '[' + ';'.join(atom_str(a, canon) for a in v) + ']'
    return atom_str(v, canon)


def key_str(k):
    if type(k) is str:
        return 's' + k.encode('utf-8', 'surrogatepass').hex()
    if type(k) is bytes:
        return 'b' + k.hex()
    return 'o' + repr(k)


def canon_item(x):
    # exception text "ClassName|message": keep the class name only
    if type(x) is bytes and b'|' in x:
        name = x[:x.index(b'|')]
        if name.isalpha() and name.isascii() and (name == b'error' or name.endswith(b'Error')):
            return name + b'|'
    return x


def canon_E(v):
    if type(v) in (list, tuple):
        return [canon_item(x) for x in v]
    return v


def cache_str(cache, canon=True):
    ents = []
    for k, v in cache.items():
        ents.append(key_str(k) + '=' + val_str(v, canon))
    ents.sort()
    return ','.join(ents) if ents else '-'


def stack_str(items):
    items = [canon_item(b) for b in items]
    return ','.join((b.hex() if len(b) else 'e') for b in items) if items else '-'


def parse_cache_str(s):
    """inverse of cache_str for the value shapes we generate (used for replay files)"""
    out = {}
    if s == '-':
        return out
    def atom(a):
        t, r = a[0], a[1:]
        if t == 'b': return bytes.fromhex(r)
        if t == 's': return bytes.fromhex(r).decode('utf-8')
        if t == 'i': return int(r, 16)
        if t == 'f': return struct.unpack('!f', bytes.fromhex(r))[0]
        if t == 't': return r == '1'
        if t == 'a': return bytearray.fromhex(r)
        return None
    for e in s.split(','):
        k, v = e.split('=', 1)
        key = bytes.fromhex(k[1:]).decode('utf-8') if k[0] == 's' else bytes.fromhex(k[1:])
        if v.startswith('['):
            inner = v[1:-1]
            out[key] = [atom(a) for a in inner.split(';')] if inner else []
        else:
            out[key] = atom(v)
    return out


# ---------------------------------------------------------------- mirrored plugins / contracts
class Log(list):
    pass


def make_sigext(i, log):
    def plugin(tape, stack, cache):
        log.append('x%d' % i)
    return plugin


def make_ct(i, kind, log):
    def plugin(tape, stack, cache):
        log.append('c%d' % i)
        template, field = stack.peek(0), stack.peek(1)
        if kind == 'true': return True
        if kind == 'false': return False
        if kind == 'eq': return template == field
        return field[:len(template)] == template
    return plugin


class EchoContract:
    def __init__(self, cid, kind, log): self.cid, self.kind, self.log = cid, kind, log
    def abi(self, args):
        self.log.append('v' + hx(self.cid) + ':' + ';'.join(hx(a) for a in args))
        if self.kind == 'none': return None
        if self.kind == 'badret': return [1]
        if self.kind == 'rev': return list(reversed(args))
        return list(args)


# the same contracts as objects that happen to be falsy (a stateful contract that is empty at the moment): whether a contract is
# registered is a matter of its id, not of the truth value of the object
class EmptyLenEcho(EchoContract):
    def __len__(self): return 0


class FalseEcho(EchoContract):
    def __bool__(self): return False


class TransferContract:
    def __init__(self, cid, log): self.cid, self.log = cid, log
    def verify_txn_proof(self, proof): return len(proof) > 0 and proof[0] & 1 == 1
    def verify_transfer(self, proof, source, destination):
        return len(proof) > 0 and len(source) > 0 and proof[-1] == source[0]
    def verify_txn_constraint(self, proof, constraint): return len(constraint) <= len(proof)
    def calc_txn_aggregates(self, proofs, scope=None): return {scope: sum(len(p) for p in proofs)}


class DictTransferContract(dict, TransferContract):
    """a dict-derived (and empty, hence falsy) contract object"""
    def __init__(self, cid, log):
        dict.__init__(self); TransferContract.__init__(self, cid, log)


# ---------------------------------------------------------------- re-entrant callbacks (C09 / C19)
def reentrancy_probes():
    """Callbacks that act on the registries, or on the tape they are handed, WHILE a run is in progress.  A run works on the contracts
    and plugins that were active when it started, and nothing a callback does to its tape reaches the registries.  Everything here
    is registered VM-wide (add_contract / add_signature_extension) and the runs pass no per-call contracts or plugins.
    Returns a list of violation dicts."""
    out = []
    op = lambda n: bytes([F.opcodes_inverse['OP_' + n][0]])
    push = lambda b: (bytes([2]) + b) if len(b) == 1 else bytes([3, len(b)]) + b
    saved_c, saved_p = dict(F._contracts), {k: list(v) for k, v in F._plugins.items()}
    def restore():
        F._contracts.clear(); F._contracts.update(saved_c)
        for k in list(F._plugins):
            if k in saved_p:
                F._plugins[k][:] = saved_p[k]
            else:
                del F._plugins[k]
    cid, late, dyn = b'reentrant-one', b'reentrant-late', b'reentrant-dyn'
    invoke = lambda c: push(b'a') + bytes([2, 1]) + push(c) + op('INVOKE') + op('POP0')
    calls = []

    class OneShot:
        def abi(self, args):
            calls.append('oneshot'); F.remove_contract(cid); return [b'k']

    class Plain:
        def abi(self, args):
            calls.append('plain'); return [b'k']

    class Registrar:
        def abi(self, args):
            calls.append('registrar'); F.add_contract(late, Plain()); return [b'k']
    wraps = {'top': lambda b: b, 'if': lambda b: b'\x01' + op('IF') + len(b).to_bytes(2, 'big') + b,
             'try': lambda b: op('TRY_EXCEPT') + len(b).to_bytes(2, 'big') + b + b'\x00\x00',
             'def/call': lambda b: op('DEF') + b'\x07' + len(b).to_bytes(2, 'big') + b + op('CALL') + b'\x07',
             'eval': lambda b: push(b) + op('EVAL')}
    try:
        # 1. a contract that deregisters itself while it is being invoked stays reachable for the rest of THAT run, at every nesting
        for wn, w in wraps.items():
            restore(); del calls[:]
            F.add_contract(cid, OneShot())
            script = invoke(cid) + w(invoke(cid)) + b'\x01'
            try:
                F.run_script(script); err = None
            except BaseException as e:
                err = '%s: %s' % (type(e).__name__, str(e)[:60])
            if calls.count('oneshot') != 2 or err:
                out.append(dict(what='a contract registered VM-wide that calls remove_contract on itself inside abi() was reached %d time(s) by the two INVOKEs of one run '
                                     '(second one inside %s); a run uses the contracts active when it started (%s)' % (calls.count('oneshot'), wn, err),
                                case=dict(script=script.hex(), registered='add_contract(%r, OneShot())' % cid, nesting=wn)))
            if cid in F._contracts:
                out.append(dict(what='remove_contract called from inside abi() did not deregister the contract for later runs', case=dict(script=script.hex())))
        # 2. a contract registered by a callback in the middle of a run is not part of that run (but of the next)
        restore(); del calls[:]
        F.add_contract(cid, Registrar())
        script = invoke(cid) + op('TRY_EXCEPT') + len(invoke(late)).to_bytes(2, 'big') + invoke(late) + b'\x00\x00' + b'\x01'
        try:
            F.run_script(script)
        except BaseException:
            pass
        if 'plain' in calls:
            out.append(dict(what='a contract added by a callback in the middle of a run (add_contract inside abi()) was invoked later in the SAME run',
                            case=dict(script=script.hex(), registered='add_contract(%r, Registrar())' % cid)))
        del calls[:]
        try:
            F.run_script(invoke(late) + b'\x01')
        except BaseException:
            pass
        if 'plain' not in calls:
            out.append(dict(what='a contract added by a callback (add_contract inside abi()) is not active for the next run', case=dict(script=(invoke(late) + b'\x01').hex())))
        # 3. what a plugin does to the tape it is handed stays in that run: the registries are changed by their own functions only
        restore(); del calls[:]
        def loader(tape, stack, cache):
            tape.contracts[dyn] = Plain()
            tape.plugins.setdefault('reentrant-scope', []).append(loader)
        F.add_signature_extension(loader)
        script = op('GET_MESSAGE') + b'\x00' + op('POP0') + invoke(dyn) + b'\x01'
        try:
            F.run_script(script)
        except BaseException:
            pass
        F.remove_signature_extension(loader)
        if dyn in F._contracts or 'reentrant-scope' in F._plugins:
            out.append(dict(what='a signature extension wrote into tape.contracts / tape.plugins of the run it was called in, and the entry is now in the module '
                                 'registry (contracts %r, plugin scopes %r) although add_contract / add_plugin were never called'
                                 % ([k for k in F._contracts if k not in saved_c], [k for k in F._plugins if k not in saved_p]),
                            case=dict(script=script.hex(), registered='add_signature_extension(loader)')))
    finally:
        restore()
    return out


# ---------------------------------------------------------------- configuration of one case
class Cfg:
    """Embedder configuration of a run (mirrors State.config)."""
    def __init__(self, max_items=1024, max_item_size=1024, limit=128, flags=None, sigext=(),
                 ctplugins=(), contracts=(), now=None, global_flags=None, vmwide=False):
        self.vmwide = vmwide                    # plugins registered VM-wide (add_plugin) instead of being passed to the call
        self.max_items, self.max_item_size, self.limit = max_items, max_item_size, limit
        self.flags = dict(flags or {})          # additional_flags
        self.global_flags = dict(global_flags or {})   # entries of the module table functions.flags set by the embedder
        self.sigext = tuple(sigext)             # plugin ids
        self.ctplugins = tuple(ctplugins)       # (id, kind)
        self.contracts = tuple(contracts)       # (cid bytes, kind)
        self.now = Pins.now if now is None else now

    def effective_flags(self):
        t = C.Tape(b'')
        F.set_tape_flags(t, self.flags)         # the implementation's own defaults + overlay
        return t.flags

    def spec_flags(self, auth=False):
        """flags of every tape of the run as documented: the standard table (module defaults, then what the
        embedder configured there), overlaid with additional_flags.  Computed here, not with set_tape_flags."""
        table = dict(_DEFAULT_FLAGS)
        table.update(self.global_flags)
        eff = {k: (v if k in _FLAGS_TO_SET else False) for k, v in table.items() if type(k) in (str, int)}
        if not auth:
            eff.update({k: v for k, v in self.flags.items() if type(k) in (str, int)})
        return eff

    def line(self, auth=False):
        fl = []
        for k, v in self.spec_flags(auth).items():
            ks = ('s' + k.encode().hex()) if type(k) is str else ('i' + zhex(k))
            vs = ('b1' if v else 'b0') if type(v) is bool else ('i' + zhex(v) if type(v) is int else 'o')
            fl.append(ks + ':' + vs)
        return 'CFG %d %d %s %s %s %s %s %s' % (
            self.max_items, self.max_item_size, zhex(self.limit), zhex(self.now),
            ','.join(fl) or '-', ','.join(str(i) for i in self.sigext) or '-',
            ','.join('%d:%s' % (i, k) for i, k in self.ctplugins) or '-',
            ','.join('%s:%s' % (hx(c), k) for c, k in self.contracts) or '-')

    def plugins(self, log):
        p = {}
        if self.sigext:
            p['signature_extensions'] = [make_sigext(i, log) for i in self.sigext]
        if self.ctplugins:
            p['check_template'] = [make_ct(i, k, log) for i, k in self.ctplugins]
        return p

    def contract_objs(self, log):
        d = {}
        for cid, kind in self.contracts:
            if kind == 'transfer':
                d[cid] = (DictTransferContract if cid[-1:] in b'579' else TransferContract)(cid, log)
            else:
                d[cid] = (EchoContract, EmptyLenEcho, FalseEcho)[cid[-1] % 3 if cid else 0](cid, kind, log)
        return d

    def to_json(self):
        if self.vmwide:
            c = Cfg(self.max_items, self.max_item_size, self.limit, self.flags, self.sigext, self.ctplugins, self.contracts, self.now, self.global_flags)
            return dict(c.to_json(), vmwide=True)
        if self.global_flags:
            return dict(Cfg(self.max_items, self.max_item_size, self.limit, self.flags, self.sigext, self.ctplugins,
                            self.contracts, self.now).to_json(), global_flags={repr(k): v for k, v in self.global_flags.items()})
        return {'max_items': self.max_items, 'max_item_size': self.max_item_size, 'limit': self.limit,
                'flags': {repr(k): v for k, v in self.flags.items()}, 'sigext': list(self.sigext),
                'ctplugins': [list(x) for x in self.ctplugins],
                'contracts': [[c.hex(), k] for c, k in self.contracts], 'now': self.now}


_DEFAULT_FLAGS = dict(F.flags)            # the module table as shipped (read once at import)
_FLAGS_TO_SET = list(F.flags_to_set)


class GlobalFlags:
    """the embedder's way of configuring thresholds / flags for run_auth_scripts: entries of functions.flags"""
    def __init__(self, cfg):
        self.g = cfg.global_flags

    def __enter__(self):
        self.saved = dict(F.flags)
        F.flags.update(self.g)

    def __exit__(self, *a):
        F.flags.clear(); F.flags.update(self.saved)
        return False


# ---------------------------------------------------------------- watchdog (a changed implementation may not terminate)
import signal


class ImplTimeout(BaseException):
    pass


_IMPL_DIR = os.path.dirname(os.path.abspath(F.__file__)) + os.sep


class Watch:
    """Interrupts the implementation after `seconds`; keeps firing (OP_TRY_EXCEPT catches BaseException).
    The SIGVTALRM handler is installed once per process and raises only while a Watch is active, so a late signal
    that arrives while the with-block is being left cannot escape into the harness (it used to kill a pool worker
    and hang the pool)."""
    fired = False
    active = False
    installed = False

    def __init__(self, seconds=float(os.environ.get('VERIF_CASE_TIMEOUT', '8'))):
        self.seconds = seconds

    @staticmethod
    def _handler(sig, frame):
        if not Watch.active:
            return
        Watch.fired = True
        # raise only into the implementation: if no frame of the tapescript package is on the stack the harness
        # itself is running (e.g. leaving the with-block) and must not be interrupted
        f = frame
        while f is not None:
            if f.f_code.co_filename.startswith(_IMPL_DIR):
                raise ImplTimeout()
            f = f.f_back

    def __enter__(self):
        Watch.fired = False
        try:
            if not Watch.installed:
                signal.signal(signal.SIGVTALRM, Watch._handler)
                Watch.installed = True
            Watch.active = True
            signal.setitimer(signal.ITIMER_VIRTUAL, self.seconds, 0.02)    # CPU time of this process: machine load cannot fire it
            self.armed = True
        except ValueError:          # not in the main thread
            self.armed = False
        return self

    def __exit__(self, et, ev, tb):
        Watch.active = False         # first: from here on the handler is silent
        if self.armed:
            while True:
                try:
                    signal.setitimer(signal.ITIMER_VIRTUAL, 0, 0)
                    break
                except ImplTimeout:
                    continue
        return et is ImplTimeout     # swallow our own exception


# ---------------------------------------------------------------- a stack that reports silent drops
import collections as _collections


class WatchDeque(_collections.deque):
    """Stack.deque is a deque with maxlen: adding to a full one silently discards an item at the other end.  Stack.put
    checks for room first, so in a correct implementation that never happens; any code that reaches the deque directly and
    overfills it is recorded here (C07: 'never a silently dropped stack item'; C01: the verdict would be decided by a
    stack that lost an item)."""
    drops = []

    def _would_drop(self, k):
        return self.maxlen is not None and len(self) + k > self.maxlen

    def append(self, x):
        if self._would_drop(1):
            WatchDeque.drops.append('append to a full stack (%d items) silently dropped the bottom item' % len(self))
        super().append(x)

    def appendleft(self, x):
        if self._would_drop(1):
            WatchDeque.drops.append('appendleft to a full stack (%d items) silently dropped the top item' % len(self))
        super().appendleft(x)

    def extend(self, it):
        it = list(it)
        if self._would_drop(len(it)):
            WatchDeque.drops.append('extend by %d on a stack of %d (max %s) silently dropped items' % (len(it), len(self), self.maxlen))
        super().extend(it)

    def extendleft(self, it):
        it = list(it)
        if self._would_drop(len(it)):
            WatchDeque.drops.append('extendleft by %d on a stack of %d (max %s) silently dropped items' % (len(it), len(self), self.maxlen))
        super().extendleft(it)


C.deque = WatchDeque        # Stack.__init__ looks the name up at call time


# ---------------------------------------------------------------- implementation runner
class _Capture:
    depth = 0
    top = None          # (tape, stack, cache) of the latest outermost run_tape call
    log = None          # the Log of the run in progress (forkstream's fork op records its raises there)
    recursion = False   # CPython's recursion limit was reached somewhere during the run (sticky)


_orig_run_tape = F.run_tape


def _run_tape_wrapper(tape, stack, cache, additional_flags={}):
    if Watch.fired:
        raise ImplTimeout()        # sticky: once the watchdog fired, every (sub-)tape start aborts at once
    if _Capture.depth == 0:
        _Capture.top = (tape, stack, cache)
    _Capture.depth += 1
    try:
        return _orig_run_tape(tape, stack, cache, additional_flags=additional_flags)
    except RecursionError:
        _Capture.recursion = True      # CPython's recursion limit is outside the model: the case is skipped
        raise
    except E.ScriptExecutionError as e:
        if 'interpreter recursion limit' in str(e):
            _Capture.recursion = True
        raise
    finally:
        _Capture.depth -= 1


F.run_tape = _run_tape_wrapper


class VMWide:
    """with-block: the configuration's plugins registered in the module-wide table through add_plugin (what an embedder does once
    at start-up) instead of being passed to the call; removed again afterwards, in place"""
    def __init__(self, cfg, log):
        self.cfg, self.log = cfg, log

    def __enter__(self):
        self.added = []
        if self.cfg.vmwide:
            for scope, lst in self.cfg.plugins(self.log).items():
                for p_ in lst:
                    F.add_plugin(scope, p_)
                    self.added.append((scope, p_))
        return self

    def per_call(self):
        return {} if self.cfg.vmwide else self.cfg.plugins(self.log)

    def __exit__(self, *a):
        for scope, p_ in self.added:
            if scope in F._plugins and p_ in F._plugins[scope]:
                F._plugins[scope].remove(p_)
        return False


class Leaks:
    """what one run leaves behind in the module-level registries: plugins and contracts are passed PER CALL by the harness
    (cfg.plugins / cfg.contract_objs), so functions._plugins / functions._contracts must be the same before and after every run"""
    events = []

    @staticmethod
    def snap():
        return ({k: list(v) for k, v in F._plugins.items()}, dict(F._contracts), dict(F._contract_interfaces))

    @staticmethod
    def check(before, what):
        after = Leaks.snap()
        if after != before and len(Leaks.events) < 3:
            Leaks.events.append('after %s the module registries differ: plugins %r -> %r, contracts %d -> %d, interfaces %d -> %d' % (
                what, {k: len(v) for k, v in before[0].items()}, {k: len(v) for k, v in after[0].items()},
                len(before[1]), len(after[1]), len(before[2]), len(after[2])))


def impl_run_script(script, cache_vals, cfg):
    """run_script on the implementation; returns the canonical outcome line.  A watchdog timeout is confirmed by a second
    run with four times the budget before it is reported (a spurious timeout was once seen in a heavily loaded thorough run)"""
    r = _impl_run_script(script, cache_vals, cfg, None)
    if r == 'timeout':
        r = _impl_run_script(script, cache_vals, cfg, 4 * Watch().seconds)
    return r


def _impl_run_script(script, cache_vals, cfg, seconds):
    cache_vals = copy.deepcopy(cache_vals)      # the caller's dictionary (also handed to the model) stays pristine
    log = Log()
    Pins.ridx = 0
    Pins.now = cfg.now
    _Capture.top = None
    _Capture.depth = 0
    _Capture.log = log
    _Capture.recursion = False
    out = None
    _before = Leaks.snap()
    with GlobalFlags(cfg), VMWide(cfg, log) as vw_, (Watch(seconds) if seconds else Watch()):
        try:
            F.run_script(script, cache_vals, cfg.contract_objs(log), cfg.flags, vw_.per_call(),
                         cfg.max_items, cfg.max_item_size, cfg.limit)
            out = 'done'
        except RecursionError:
            out = 'recursion'
        except ImplTimeout:
            raise
        except BaseException as e:
            out = 'raised:' + exn_name(e)
    if (cfg.sigext or cfg.ctplugins or cfg.contracts) and not Watch.fired:
        Leaks.check(_before, 'run_script(%s, cache %s, %d per-call plugin scope(s), %d per-call contract(s))' % (
            hx(script)[:200], cache_str(cache_vals, False)[:200], len(cfg.plugins(Log())), len(cfg.contracts)))
    if Watch.fired or out is None:
        return 'timeout'
    if _Capture.recursion and out != 'recursion':
        return 'recursion'
    if out == 'recursion':
        return 'recursion'
    tape, stack, cache = _Capture.top
    return ' | '.join([out, str(tape.pointer), zhex(tape.callstack_count), stack_str(stack.list()),
                       cache_str(cache), ','.join(log) or '-'])


def impl_run_auth(scripts, cache_vals, cfg, share=False):
    r = _impl_run_auth(scripts, cache_vals, cfg, None, share)
    if r == 'timeout' and not share:
        r = _impl_run_auth(scripts, cache_vals, cfg, 4 * Watch().seconds)
    return r


def _impl_run_auth(scripts, cache_vals, cfg, seconds, share=False):
    if not share:           # share=True: the embedder's own dictionary object is handed in (an embedder may reuse one dict)
        cache_vals = copy.deepcopy(cache_vals)
    log = Log()
    Pins.ridx = 0
    Pins.now = cfg.now
    _Capture.top = None
    _Capture.depth = 0
    _Capture.log = log
    _Capture.recursion = False
    v = None
    _before = Leaks.snap()
    with GlobalFlags(cfg), VMWide(cfg, log) as vw_, (Watch(seconds) if seconds else Watch()):
        v = F.run_auth_scripts(list(scripts), cache_vals, cfg.contract_objs(log), vw_.per_call(),
                               cfg.max_items, cfg.max_item_size, cfg.limit)
    if (cfg.sigext or cfg.ctplugins or cfg.contracts) and not Watch.fired:
        Leaks.check(_before, 'run_auth_scripts([%s], %d per-call plugin scope(s), %d per-call contract(s))' % (
            ', '.join(hx(x)[:80] for x in scripts), len(cfg.plugins(Log())), len(cfg.contracts)))
    if Watch.fired or v is None:
        return 'timeout'
    if _Capture.recursion:
        return 'recursion'
    tape, stack, cache = _Capture.top
    return ' | '.join(['verdict:%d' % (1 if v else 0), '-', '-', stack_str(stack.list()),
                       cache_str(cache), ','.join(log) or '-'])


# ---------------------------------------------------------------- oracle service
def _signed_be(z):
    a = abs(z)
    n = (a.bit_length() - 1) // 8 + 1 if a else 1
    return (b'\x01' if z < 0 else b'\x00') + a.to_bytes(n, 'big')


def _of_signed_be(b):
    m = int.from_bytes(b[1:], 'big')
    return -m if b[0] else m


def _d(b): return struct.unpack('!d', b)[0]
def _pd(x): return struct.pack('!d', x)
def _bool(x): return [b'\x01' if x else b'\x00']


def oracle(name, args):
    """returns list of bytes; raises on error"""
    a = args
    if name == 'Sha256': return [hashlib.sha256(a[0]).digest()]
    if name == 'Sha512': return [hashlib.sha512(a[0]).digest()]
    if name == 'Shake256': return [hashlib.shake_256(a[0]).digest(a[1][0])]
    if name == 'Reduce': return [nb.crypto_core_ed25519_scalar_reduce(a[0])]
    if name == 'BaseMult': return [nb.crypto_scalarmult_ed25519_base_noclamp(a[0])]
    if name == 'Mult': return [nb.crypto_scalarmult_ed25519_noclamp(a[0], a[1])]
    if name == 'PointAdd': return [nb.crypto_core_ed25519_add(a[0], a[1])]
    if name == 'PointSub': return [nb.crypto_core_ed25519_sub(a[0], a[1])]
    if name == 'ScalarAdd': return [nb.crypto_core_ed25519_scalar_add(a[0], a[1])]
    if name == 'ScalarSub': return [nb.crypto_core_ed25519_scalar_sub(a[0], a[1])]
    if name == 'ScalarMul': return [nb.crypto_core_ed25519_scalar_mul(a[0], a[1])]
    if name == 'ValidPoint': return _bool(nb.crypto_core_ed25519_is_valid_point(a[0]))
    if name == 'Sign': return [SigningKey(a[0]).sign(a[1]).signature]
    if name == 'Verify':
        try:
            VerifyKey(a[0]).verify(a[1], a[2])
            return _bool(True)
        except nacl.exceptions.BadSignatureError:
            return _bool(False)
    if name == 'Random':
        return [det_random(int.from_bytes(a[0], 'big'), int.from_bytes(a[1], 'big'))]
    if name == 'Log2':
        return [math.floor(math.log2(int.from_bytes(a[0], 'big'))).to_bytes(4, 'big')]
    if name == 'Utf8Valid':
        try:
            a[0].decode('utf-8'); return _bool(True)
        except UnicodeDecodeError:
            return _bool(False)
    if name == 'StrLen': return [len(a[0].decode('utf-8')).to_bytes(4, 'big')]
    if name == 'StrSplit':
        s = a[0].decode('utf-8'); i = int.from_bytes(a[1], 'big')
        return [s[:i].encode('utf-8'), s[i:].encode('utf-8')]
    if name == 'FUnpack': return [_pd(struct.unpack('!f', a[0])[0])]
    if name == 'FPack': return [struct.pack('!f', _d(a[0]))]
    if name == 'FAdd': return [_pd(_d(a[0]) + _d(a[1]))]
    if name == 'FSub': return [_pd(_d(a[0]) - _d(a[1]))]
    if name == 'FDiv': return [_pd(_d(a[0]) / _d(a[1]))]
    if name == 'FMod': return [_pd(_d(a[0]) % _d(a[1]))]
    if name == 'FIsNan': return _bool(math.isnan(_d(a[0])))
    if name == 'FLt': return _bool(_d(a[0]) < _d(a[1]))
    if name == 'FLe': return _bool(_d(a[0]) <= _d(a[1]))
    if name == 'I2F': return [_pd(1.0 * _of_signed_be(a[0]))]
    if name == 'F2I': return [_signed_be(int(_d(a[0])))]
    raise KeyError(name)


# ---------------------------------------------------------------- model co-process
class Model:
    def __init__(self, binary=MODEL_BIN):
        self.p = subprocess.Popen([binary], stdin=subprocess.PIPE, stdout=subprocess.PIPE,
                                  text=True, bufsize=1)
        self.oracle_calls = 0
        self.cfgline = None

    def close(self):
        try:
            self.p.stdin.write('QUIT\n'); self.p.stdin.flush()
        except Exception:
            pass
        self.p.wait(timeout=5)

    def cmd(self, line):
        self.p.stdin.write(line + '\n')
        self.p.stdin.flush()
        while True:
            r = self.p.stdout.readline()
            if not r:
                raise RuntimeError('model process died on: ' + line[:200])
            r = r.rstrip('\n')
            if r.startswith('? '):
                toks = r[2:].split(' ')
                self.oracle_calls += 1
                try:
                    res = oracle(toks[0], [b'' if t == '-' else bytes.fromhex(t) for t in toks[1:]])
                    self.p.stdin.write('ok ' + ' '.join(hx(x) for x in res) + '\n')
                except BaseException as e:
                    self.p.stdin.write('err ' + exn_name(e) + '\n')
                self.p.stdin.flush()
            elif r.startswith('= '):
                r = r[2:]
                # last field = model-only instrumentation (allocation requests)
                if ' | ' in r and line.split(' ', 1)[0] in ('RUN', 'AUTH', 'RUNF', 'AUTHF'):
                    r, self.last_allocs = r.rsplit(' | ', 1)
                return r
            else:
                raise RuntimeError('unexpected model output: ' + r[:200])

    def set_cfg(self, cfg, auth=False):
        line = cfg.line(auth)
        if line != self.cfgline:
            assert self.cmd(line) == 'ok'
            self.cfgline = line

    def run_script(self, script, cache_vals, cfg, fuel=20000):
        self.set_cfg(cfg)
        return self.cmd('RUN %d %s %s' % (fuel, hx(script), cache_str(cache_vals, False)))

    def run_script_fork(self, fcode, script, cache_vals, cfg, fuel=20000):
        self.set_cfg(cfg)
        return self.cmd('RUNF %d %d %s %s' % (fuel, fcode, hx(script), cache_str(cache_vals, False)))

    def run_auth_fork(self, fcode, scripts, cache_vals, cfg, fuel=20000):
        self.set_cfg(cfg, auth=True)
        return self.cmd('AUTHF %d %d %s %s' % (fuel, fcode, cache_str(cache_vals, False), ' '.join(hx(s) for s in scripts)))

    def run_auth(self, scripts, cache_vals, cfg, fuel=20000):
        self.set_cfg(cfg, auth=True)
        return self.cmd('AUTH %d %s %s' % (fuel, cache_str(cache_vals, False), ' '.join(hx(s) for s in scripts)))


_EXN_TAIL = b'Error|'.hex()


def _exn_text_moved(line):
    """an exception text (compared by class only: its real length is unknown to the model) sits on the
    stack or under a cache key other than b'E'"""
    f = line.split(' | ')
    if len(f) < 5:
        return False
    if any(it.endswith(_EXN_TAIL) for it in f[3].split(',')):
        return True
    for ent in f[4].split(','):
        if not ent.startswith('b45=') and _EXN_TAIL + ';' in ent.replace(']', ';') :
            return True
    return False


def exntext_excuse(cfg, scripts, i, m):
    """Exception messages are compared by class only, so their real length is unknown to the model.  Under a small
    max_item_size that length can decide a size check once the text is read back from cache[b'E'].  A disagreement
    is excused (and counted as skip-exntext) only if an exception text exists and the script contains a read of key
    b'E' (its content may then flow into any instruction), or the limit is small and the text visibly moved to the
    stack or another key."""
    if i == m:
        return False
    has_text = (_EXN_TAIL in i) or (_EXN_TAIL in m)
    reads_e = any(pat in sc for sc in scripts for pat in (b'\x01\x45', b'\x02\x45'))
    if has_text and reads_e:
        return True          # the text itself may have been hashed / measured / concatenated: content is not modelled
    return cfg.max_item_size < 256 and (_exn_text_moved(m) or _exn_text_moved(i))


def compare_script(model, script, cache_vals, cfg, fuel=20000):
    """returns (status, impl_line, model_line); status in agree/differ/skip-*"""
    i = impl_run_script(script, cache_vals, cfg)
    if i == 'timeout':
        # exponentially branching recursion (a definition calling itself twice) terminates in principle but not in practice:
        # if the formal semantics also exhausts its step budget the two agree that the run is long; if the semantics ends
        # quickly, the implementation hangs where it should not
        m = model.run_script(script, cache_vals, cfg, fuel)
        if m == 'fuel' or m.startswith('unmod:'):
            return 'skip-long-run', 'timeout', m
        return 'differ', 'timeout: the implementation did not finish within the per-case watchdog', m
    if i == 'recursion':
        return 'skip-recursion', i, ''
    m = model.run_script(script, cache_vals, cfg, fuel)
    if m.startswith('unmod:'):
        return 'skip-unmodelled', i, m
    if m == 'fuel':
        return 'skip-fuel', i, m
    if exntext_excuse(cfg, [script], i, m):
        return 'skip-exntext', i, m      # message length decides a size check; messages are not modelled
    return ('agree' if i == m else 'differ'), i, m


def compare_auth(model, scripts, cache_vals, cfg, fuel=20000):
    try:
        i = impl_run_auth(scripts, cache_vals, cfg)
    except RecursionError:
        return 'skip-recursion', '', ''
    if i == 'timeout':
        m = model.run_auth(scripts, cache_vals, cfg, fuel)
        if m == 'fuel' or m.startswith('unmod:'):
            return 'skip-long-run', 'timeout', m
        return 'differ', 'timeout: the implementation did not finish within the per-case watchdog', m
    if i == 'recursion':
        return 'skip-recursion', i, ''
    m = model.run_auth(scripts, cache_vals, cfg, fuel)
    if m.startswith('unmod:'):
        return 'skip-unmodelled', i, m
    if m == 'fuel':
        return 'skip-fuel', i, m
    if exntext_excuse(cfg, list(scripts), i, m):
        return 'skip-exntext', i, m      # message length decides a size check; messages are not modelled
    return ('agree' if i == m else 'differ'), i, m
