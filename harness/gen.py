"""Structured bytecode generators (independent of the compiler: bytes are assembled here).

All randomness comes from one random.Random instance handed in by the caller.
"""
import struct
from tsh import F, SigningKey, nb, hashlib

OPC = {name: code for code, (name, _) in F.opcodes.items()}


def op(name): return bytes([OPC['OP_' + name]])


def u8(n): return bytes([n & 255])
def u16(n): return (n & 0xffff).to_bytes(2, 'big')


def push(v: bytes) -> bytes:
    if len(v) == 1:
        return op('PUSH0') + v
    if len(v) < 256:
        return op('PUSH1') + u8(len(v)) + v
    return op('PUSH2') + u16(len(v)) + v


def pushi(n: int) -> bytes:
    return push(F.int_to_bytes(n))


INT_POOL = [0, 1, -1, 2, 3, 5, 7, 10, -10, 127, 128, -128, -129, 255, 256, 32767, 32768, -32768,
            65535, 65536, 2**31 - 1, 2**31, 2**32, 2**63 - 1, 2**63, -2**63, 2**64, 2**127, 10**30, -10**30]
FLOAT_POOL = [0.0, 1.0, -1.0, 0.5, 2.0, 3.25, 1e10, -1e10, 3.4e38, 1e-40, float('inf'), float('-inf'), float('nan')]
SEEDS = [bytes([i]) * 32 for i in (1, 2, 3, 4, 5)]
KEYS = [bytes(SigningKey(s).verify_key) for s in SEEDS]
CACHE_KEYS = [b'a', b'P', b'k1', b'E', b'X', b's', b'IR', b'returned', b'timestamp', b'sigfield1', b'', b'\x00']
STR_KEYS = ['sigfield1', 'sigfield2', 'sigfield8', 'timestamp', 'foo', 'returned', 'missing', 'num', 'flt', 'txt', 'lst', 'ba', 'ba']
UTF8 = [b'abc', 'héllo'.encode(), '日本'.encode(), b'\xff\xfe', b'', b'a', 'x\U0001f600y'.encode()]


class Gen:
    def __init__(self, rng, max_depth=4, contracts=(), allow_crypto=True):
        self.r = rng
        self.max_depth = max_depth
        self.contracts = [c for c, _ in contracts]
        self.allow_crypto = allow_crypto

    # ---- values
    def rint(self):
        r = self.r
        c = r.random()
        if c < 0.55: return r.choice(INT_POOL)
        if c < 0.8: return r.randint(-300, 300)
        return r.randint(-2**r.choice([8, 16, 40, 70, 130]), 2**r.choice([8, 16, 40, 70, 130]))

    def rbytes(self, lo=0, hi=40):
        r = self.r
        c = r.random()
        if c < 0.15 and lo == 0: return r.choice([b'', b'\x00', b'\xff', b'\x01', b'\x80', b'\x00\x00', b'\x00\x01'])
        n = r.randint(lo, hi)
        return bytes(r.getrandbits(8) for _ in range(n))

    def rval(self):
        r = self.r
        c = r.random()
        if c < 0.45: return F.int_to_bytes(self.rint())
        if c < 0.55: return struct.pack('!f', r.choice(FLOAT_POOL))
        if c < 0.62: return r.choice(UTF8)
        if c < 0.70: return r.choice(KEYS + SEEDS)
        return self.rbytes()

    def rfloat(self):
        r = self.r
        if r.random() < 0.7: return struct.pack('!f', r.choice(FLOAT_POOL))
        return bytes(r.getrandbits(8) for _ in range(4))

    # ---- instruction snippets; each returns bytes
    fork_code = None      # forkstream: an unassigned code that carries a soft fork in one of the two VMs

    def s_fork(self):
        r = self.r
        v = r.choice([op('TRUE'), op('TRUE'), op('FALSE'), push(self.rval()), b''])
        more = b''.join(push(self.rval()) for _ in range(r.choice([0, 0, 1])))
        n = r.choice([0, 1, 1, 1, 2, 2, 3, 127, 128, 255])
        body = more + v + bytes([self.fork_code, n])
        if r.random() < 0.2:      # the TRY caveat of the property: a raise of the fork op swallowed
            exc = self.block(3, 0, 2)
            return op('TRY_EXCEPT') + u16(len(body)) + body + u16(len(exc)) + exc
        return body

    def s_hostile_len(self):
        """a two-byte length field that exceeds what is left of the script (or has its top bit set): every length
        field of every block instruction, the other fields being valid"""
        r = self.r
        bad = u16(r.choice([0x7fff, 0x8000, 0x8001, 0xff00, 0xfff0, 0xfffe, 0xffff]))
        body = self.s_push() if r.random() < 0.7 else b''
        tail = self.s_push() if r.random() < 0.5 else b''
        cond = r.choice([op('TRUE'), op('FALSE')])
        k = r.choice(['IF', 'IF_ELSE:1', 'IF_ELSE:2', 'TRY:1', 'TRY:2', 'LOOP', 'DEF', 'PUSH2'])
        if k == 'IF': return cond + op('IF') + bad + body + tail
        if k == 'IF_ELSE:1': return cond + op('IF_ELSE') + bad + body + u16(0) + tail
        if k == 'IF_ELSE:2': return cond + op('IF_ELSE') + u16(len(body)) + body + bad + tail
        if k == 'TRY:1': return op('TRY_EXCEPT') + bad + body + u16(0) + tail
        if k == 'TRY:2': return op('TRY_EXCEPT') + u16(len(body)) + body + bad + tail
        if k == 'LOOP': return cond + op('LOOP') + bad + body + tail
        if k == 'DEF': return op('DEF') + u8(r.choice([0, 1])) + bad + body + tail
        return op('PUSH2') + bad + body + tail

    def snippet(self, depth):
        r = self.r
        if self.fork_code is not None and r.random() < 0.15:
            return self.s_fork()
        if r.random() < 0.012:
            return self.s_hostile_len()
        c = r.random()
        if c < 0.30: return self.s_push()
        if c < 0.55: return self.s_arith()
        if c < 0.70: return self.s_stackop()
        if c < 0.80: return self.s_cache()
        if c < 0.90 and depth < self.max_depth: return self.s_control(depth)
        if c < 0.93 and depth < self.max_depth: return self.s_recursive(depth)
        if c < 0.985: return self.s_misc()
        return self.s_raw()

    def s_push(self):
        r = self.r
        c = r.random()
        if c < 0.15: return op('TRUE')
        if c < 0.3: return op('FALSE')
        if c < 0.33:   # non-minimal / odd push encodings
            v = self.rval()
            return r.choice([op('PUSH1') + u8(len(v) % 256) + v[:255], op('PUSH2') + u16(len(v)) + v,
                             op('PUSH1') + u8(0), op('PUSH2') + u16(0)])
        return push(self.rval())

    def s_arith(self):
        r = self.r
        k = r.choice(['ADD_INTS', 'SUBTRACT_INTS', 'MULT_INTS', 'DIV_INT', 'DIV_INTS', 'MOD_INT', 'MOD_INTS',
                      'LESS', 'LESS_OR_EQUAL', 'ADD_FLOATS', 'SUBTRACT_FLOATS', 'DIV_FLOAT', 'DIV_FLOATS',
                      'MOD_FLOAT', 'MOD_FLOATS', 'FLOAT_LESS', 'FLOAT_LESS_OR_EQUAL', 'INT_TO_FLOAT',
                      'FLOAT_TO_INT', 'XOR', 'OR', 'AND', 'NOT', 'EQUAL', 'SIZE', 'CONCAT', 'SPLIT',
                      'CONCAT_STR', 'SPLIT_STR'])
        pre = b''
        if k in ('ADD_INTS', 'SUBTRACT_INTS', 'MULT_INTS'):
            n = r.choice([0, 1, 2, 2, 2, 3, 4])
            for _ in range(n if r.random() < 0.9 else max(0, n - 1)):
                pre += pushi(self.rint())
            return pre + op(k) + u8(n)
        if k in ('DIV_INT', 'MOD_INT'):
            d = F.int_to_bytes(self.rint()) if r.random() < 0.85 else self.rbytes(0, 3)
            return pushi(self.rint()) + op(k) + u8(len(d)) + d
        if k in ('DIV_INTS', 'MOD_INTS', 'LESS', 'LESS_OR_EQUAL'):
            return pushi(self.rint()) + pushi(self.rint()) + op(k)
        if k in ('ADD_FLOATS', 'SUBTRACT_FLOATS'):
            n = r.choice([0, 1, 2, 2, 3])
            for _ in range(n):
                pre += push(self.rfloat() if r.random() < 0.93 else self.rbytes(0, 6))
            return pre + op(k) + u8(n)
        if k in ('DIV_FLOAT', 'MOD_FLOAT'):
            return push(self.rfloat()) + op(k) + self.rfloat()
        if k in ('DIV_FLOATS', 'MOD_FLOATS', 'FLOAT_LESS', 'FLOAT_LESS_OR_EQUAL'):
            a = self.rfloat() if r.random() < 0.93 else self.rbytes(0, 6)
            return push(a) + push(self.rfloat()) + op(k)
        if k == 'INT_TO_FLOAT':
            return pushi(self.rint() if r.random() < 0.9 else 2**1100) + op(k)
        if k == 'FLOAT_TO_INT':
            return push(self.rfloat()) + op(k)
        if k in ('XOR', 'OR', 'AND', 'EQUAL', 'CONCAT'):
            a = self.rval()
            b = a if (k == 'EQUAL' and r.random() < 0.4) else self.rval()
            return push(a) + push(b) + op(k)
        if k in ('NOT', 'SIZE'):
            return push(self.rval()) + op(k)
        if k == 'SPLIT':
            v = self.rbytes(0, 12)
            return push(v) + pushi(r.choice([0, 1, len(v), len(v) - 1, -1, 3])) + op(k)
        if k == 'CONCAT_STR':
            return push(r.choice(UTF8)) + push(r.choice(UTF8)) + op(k)
        if k == 'SPLIT_STR':
            v = r.choice(UTF8)
            return push(v) + pushi(r.choice([0, 1, 2, len(v), -1])) + op(k)
        return op(k)

    def s_stackop(self):
        r = self.r
        # usually make sure there is something to work on
        if r.random() < 0.75:
            return b''.join(push(self.rval()) for _ in range(r.choice([1, 2, 3]))) + self.s_stackop_core()
        return self.s_stackop_core()

    def s_stackop_core(self):
        r = self.r
        k = r.choice(['DUP', 'COPY', 'SWAP', 'SWAP2', 'REVERSE', 'DEPTH', 'POP0', 'POP1', 'VERIFY',
                      'EQUAL_VERIFY', 'NOP'])
        if k == 'COPY': return op(k) + u8(r.choice([0, 1, 2, 3, 255]))
        if k == 'SWAP': return op(k) + u8(r.choice([0, 1, 2, 3, 200])) + u8(r.choice([0, 1, 2, 5]))
        if k == 'REVERSE': return op(k) + u8(r.choice([0, 1, 2, 3, 4, 250]))
        if k == 'POP1': return op(k) + u8(r.choice([0, 1, 2, 3, 100]))
        if k == 'NOP':
            code = r.choice([c for c in range(256) if c not in F.opcodes])
            return bytes([code]) + u8(r.choice([0, 1, 2, 3, 127, 128, 255]))
        return op(k)

    def s_cache(self):
        r = self.r
        k = r.choice(['WRITE_CACHE', 'READ_CACHE', 'READ_CACHE_SIZE', 'READ_CACHE_STACK',
                      'READ_CACHE_STACK_SIZE', 'GET_VALUE', 'GET_VALUE'])
        key = r.choice(CACHE_KEYS) if r.random() < 0.9 else self.rbytes(0, 5)
        if k == 'WRITE_CACHE':
            n = r.choice([0, 1, 1, 2, 3])
            pre = b''.join(push(self.rval()) for _ in range(n))
            return pre + op(k) + u8(len(key)) + key + u8(n if r.random() < 0.9 else n + 1)
        if k in ('READ_CACHE', 'READ_CACHE_SIZE'):
            return op(k) + u8(len(key)) + key
        if k in ('READ_CACHE_STACK', 'READ_CACHE_STACK_SIZE'):
            return push(key) + op(k)
        sk = r.choice(STR_KEYS).encode() if r.random() < 0.92 else self.rbytes(0, 4)
        gv = op('GET_VALUE') + u8(len(sk)) + sk
        x = r.random()
        if x < 0.25:      # the fetched value meets a longer / shorter operand in a bitwise op, a concat, a dup
            other = push(self.rbytes(7, 12) if r.random() < 0.7 else self.rbytes(0, 3))
            bop = op(r.choice(['XOR', 'OR', 'AND', 'XOR', 'CONCAT', 'EQUAL']))
            return (gv + other + bop) if r.random() < 0.5 else (other + gv + bop)
        return gv

    def block(self, depth, lo=0, hi=4):
        return b''.join(self.snippet(depth + 1) for _ in range(self.r.randint(lo, hi)))

    def s_control(self, depth):
        r = self.r
        k = r.choice(['IF', 'IF', 'IF_ELSE', 'IF_ELSE', 'TRY', 'TRY', 'LOOP', 'DEF', 'CALL', 'DEFCALL',
                      'EVAL', 'RETURN', 'RETURN'])
        cond = r.choice([op('TRUE'), op('TRUE'), op('FALSE'), op('FALSE'), push(self.rval()), push(self.rval()), b''])
        if k == 'IF':
            b = self.block(depth)
            return cond + op('IF') + u16(len(b)) + b
        if k == 'IF_ELSE':
            a, b = self.block(depth), self.block(depth)
            return cond + op('IF_ELSE') + u16(len(a)) + a + u16(len(b)) + b
        if k == 'TRY':
            a, b = self.block(depth), self.block(depth, 0, 2)
            return op('TRY_EXCEPT') + u16(len(a)) + a + u16(len(b)) + b
        if k == 'LOOP':
            # counter loops: push n; loop { body; push -1 add 2 dup? } ...
            style = r.random()
            if style < 0.5:
                n = r.choice([0, 1, 2, 3])
                body = self.block(depth, 0, 2) + pushi(-1) + op('ADD_INTS') + u8(2)
                return pushi(n) + op('LOOP') + u16(len(body)) + body
            if style < 0.8:
                body = self.block(depth, 0, 2) + r.choice([op('FALSE'), op('RETURN'), b''])
                return cond + op('LOOP') + u16(len(body)) + body
            body = self.block(depth, 0, 2)
            return op('TRUE') + op('LOOP') + u16(len(body)) + body
        if k == 'DEF':
            b = self.block(depth, 0, 3)
            return op('DEF') + u8(r.choice([0, 1, 2, 255])) + u16(len(b)) + b
        if k == 'CALL':
            return op('CALL') + u8(r.choice([0, 1, 2, 255]))
        if k == 'DEFCALL':
            h = r.choice([0, 1, 2])
            b = self.block(depth, 0, 3)
            if r.random() < 0.25:
                b += op('CALL') + u8(h)          # self recursion
            return op('DEF') + u8(h) + u16(len(b)) + b + op('CALL') + u8(h)
        if k == 'EVAL':
            b = self.block(depth, 0, 3)
            return push(b) + op('EVAL')
        return op('RETURN')

    def s_recursive(self, depth):
        """recursion / definition-scoping patterns: re-entered definitions with TRY around the inner call,
        mutual recursion, counters, definitions made inside bodies, RETURN inside CALL inside LOOP/IF"""
        r = self.r
        h, h2 = r.sample([0, 1, 2, 3], 2)
        H, H2 = u8(h), u8(h2)
        small = lambda: self.block(depth + 1, 0, 2)
        wrap_try = lambda body, exc=b'': op('TRY_EXCEPT') + u16(len(body)) + body + u16(len(exc)) + exc
        defn = lambda hh, body: op('DEF') + hh + u16(len(body)) + body
        call = lambda hh: op('CALL') + hh
        k = r.randrange(10)
        if k == 9:
            # a definition repeated WORD FOR WORD in a nested scope (IF / TRY / EXCEPT / EVAL body), next to a local (re)definition of
            # the function it calls: the repeated definition belongs to the nested scope and sees the local one
            f_body = call(H2) + r.choice([b'', push(b'f')])
            outer = r.choice([b'', defn(H2, push(b'global'))]) + defn(H, f_body)
            inner = defn(H2, push(b'local')) + r.choice([defn(H, f_body), defn(H, f_body), defn(H, f_body + b''), b'']) + call(H)
            where = r.choice(['if', 'try', 'except', 'eval', 'if/try'])
            if where == 'if': mid = op('TRUE') + op('IF') + u16(len(inner)) + inner
            elif where == 'try': mid = wrap_try(inner, push(b'except ran'))
            elif where == 'except': mid = wrap_try(op('FALSE') + op('VERIFY'), inner)
            elif where == 'eval': mid = push(inner) + op('EVAL')
            else:
                t_ = wrap_try(inner, push(b'except ran'))
                mid = op('TRUE') + op('IF') + u16(len(t_)) + t_
            return outer + mid + r.choice([b'', wrap_try(call(H), push(b'E')), call(H2) if outer[:1] == op('DEF') and len(outer) > len(defn(H, f_body)) else b''])
        if k == 0:
            # outer activation catches the raise of the inner one, then continues
            guard = r.choice([op('VERIFY'), op('POP0'), pushi(1) + op('ADD_INTS') + u8(2) + op('VERIFY')])
            inner = r.choice([op('FALSE'), b'', pushi(0)]) + call(H)
            tail = r.choice([push(b'A'), op('TRUE'), small()])
            body = guard + wrap_try(inner, r.choice([b'', small()])) + tail
            return defn(H, body) + r.choice([op('TRUE'), pushi(1)]) + call(H) + small()
        if k == 1:
            body = pushi(1) + op('ADD_INTS') + u8(2) + wrap_try(call(H), r.choice([b'', call(H)]))
            return defn(H, body) + pushi(0) + call(H)
        if k == 2:
            # counter recursion that stops itself
            n = r.choice([1, 2, 3, 9])
            body = op('DUP') + pushi(0) + op('EQUAL') + op('IF') + u16(1) + op('RETURN') + pushi(-1) + op('ADD_INTS') + u8(2) + call(H)
            if r.random() < 0.5:
                body = wrap_try(body, b'')
            return defn(H, body) + pushi(n) + call(H) + small()
        if k == 3:
            # mutual recursion with a TRY in one of them
            b1 = small() + call(H2)
            b2 = wrap_try(r.choice([op('FALSE') + op('VERIFY'), call(H), b'']), small()) + small()
            return defn(H, b1) + defn(H2, b2) + call(H) + small()
        if k == 4:
            # definitions made inside bodies: which table sees them?
            inner_def = defn(H2, r.choice([op('TRUE'), push(b'Z')]))
            where = r.choice(['def', 'if', 'try', 'loop', 'eval'])
            if where == 'def':
                pre = defn(H, inner_def) + call(H)
            elif where == 'if':
                pre = op('TRUE') + op('IF') + u16(len(inner_def)) + inner_def
            elif where == 'try':
                pre = wrap_try(inner_def)
            elif where == 'loop':
                b = inner_def + op('FALSE')
                pre = op('TRUE') + op('LOOP') + u16(len(b)) + b + op('POP0')
            else:
                pre = push(inner_def) + op('EVAL')
            use = r.choice([call(H2), op('TRUE') + op('IF') + u16(2) + call(H2), wrap_try(call(H2), push(b'E'))])
            return pre + use
        if k == 5:
            # RETURN inside CALL inside LOOP / IF / EVAL: who ends?
            body = r.choice([op('RETURN'), op('TRUE') + op('IF') + u16(1) + op('RETURN') + push(b'n'), wrap_try(op('RETURN')) + push(b'n')])
            inner = defn(H, body + push(b'x')) + call(H) + push(b'y')
            ctx = r.choice(['loop', 'if', 'eval', 'top'])
            if ctx == 'loop':
                b = inner + op('FALSE')
                return op('TRUE') + op('LOOP') + u16(len(b)) + b + push(b'z')
            if ctx == 'if':
                return op('TRUE') + op('IF') + u16(len(inner)) + inner + push(b'z')
            if ctx == 'eval':
                return push(inner) + op('EVAL') + push(b'z')
            return inner + push(b'z')
        if k == 6:
            # call budget: recursion until the limit, inside / outside TRY, EVAL recursion
            body = r.choice([call(H), push(b'') + op('POP0') + call(H)])
            return defn(H, body) + r.choice([call(H), wrap_try(call(H), push(b'L'))]) + small()
        if k == 7:
            # EVAL recursion via DUP EVAL
            s = op('DUP') + op('EVAL')
            return push(s) + r.choice([op('DUP') + op('EVAL'), wrap_try(op('DUP') + op('EVAL'), push(b'L'))])
        # redefinition while running / after use
        return defn(H, push(b'1')) + call(H) + defn(H, push(b'2')) + call(H) + defn(H, defn(H, push(b'3')) + call(H)) + call(H) + call(H)

    def s_misc(self):
        r = self.r
        k = r.choice(['SHA256', 'SHAKE256', 'RANDOM', 'SET_FLAG', 'UNSET_FLAG', 'CHECK_TIMESTAMP',
                      'CHECK_TIMESTAMP_VERIFY', 'CHECK_EPOCH', 'CHECK_EPOCH_VERIFY', 'GET_MESSAGE',
                      'INVOKE', 'CHECK_TRANSFER', 'CHECK_TEMPLATE', 'CLAMP_SCALAR', 'MERKLEVAL', 'CRYPTO'])
        if k == 'SHA256': return push(self.rval()) + op(k)
        if k == 'SHAKE256': return push(self.rval()) + op(k) + u8(r.choice([0, 1, 20, 32, 255]))
        if k == 'RANDOM': return pushi(r.choice([0, 1, 5, 32, -1, 1024, 1025, 10**6])) + op(k)
        if k in ('SET_FLAG', 'UNSET_FLAG'):
            f = r.choice([b'\x01', b'\x09', b'ts_threshold', b'', b'x'])
            return op(k) + u8(len(f)) + f
        if k.startswith('CHECK_TIMESTAMP') or k.startswith('CHECK_EPOCH'):
            from tsh import Pins
            base = Pins.now
            c = base + r.choice([-100, -61, -60, -59, -1, 0, 1, 59, 60, 61, 100])
            v = r.choice([c.to_bytes(5, 'big'), F.int_to_bytes(c), b'', b'\x00', (2**40).to_bytes(6, 'big')])
            return push(v) + op(k)
        if k == 'GET_MESSAGE': return op(k) + u8(r.choice([0, 1, 2, 3, 0x80, 0xff, r.getrandbits(8)]))
        if k == 'INVOKE':
            cid = r.choice(self.contracts) if self.contracts and r.random() < 0.85 else b'nope'
            n = r.choice([0, 1, 2])
            pre = b''.join(push(self.rval()) for _ in range(n))
            return pre + pushi(n if r.random() < 0.9 else -1) + push(cid) + op(k)
        if k == 'CHECK_TRANSFER':
            cid = r.choice(self.contracts) if self.contracts and r.random() < 0.85 else b'nope'
            n = r.choice([0, 1, 2])
            proofs = [bytes([r.choice([1, 3, 2]), r.getrandbits(8), 7]) for _ in range(n)]
            sources = [bytes([7 if r.random() < 0.8 else 8, r.getrandbits(8)]) for _ in range(n)]
            pre = b''.join(push(p) for p in reversed(proofs)) + b''.join(push(s) for s in reversed(sources))
            return (pre + push(u8(n)) + push(b'dest') + push(r.choice([b'', b'ab', b'abcdef'])) +
                    pushi(r.choice([0, 3, 6, 7, 100])) + push(cid) + op(k))
        if k == 'CHECK_TEMPLATE':
            fl = r.choice([0, 1, 4, 5, 0x80, 2])
            n = bin(fl).count('1')
            pre = b''.join(push(r.choice([b'abc', b'zz', b'a', b'', self.rbytes(0, 4)])) for _ in range(n))
            return pre + op(r.choice(['CHECK_TEMPLATE', 'CHECK_TEMPLATE_VERIFY'])) + u8(fl)
        if k == 'CLAMP_SCALAR': return push(self.rbytes(30, 40)) + op(k) + u8(r.choice([0, 1, 255]))
        if k == 'MERKLEVAL':
            script = self.block(3, 0, 2) or op('TRUE')
            sib = self.rbytes(0, 32)
            c = hashlib.sha256(hashlib.sha256(script).digest()).digest()
            h = hashlib.sha256(sib).digest()
            root = bytes(a ^ b for a, b in zip(c, h))
            if r.random() < 0.3:
                root = bytes([root[0] ^ 1]) + root[1:]
            return push(sib) + push(script) + op(k) + root
        if not self.allow_crypto:
            return op('DEPTH')
        return self.s_crypto()

    def s_crypto(self):
        r = self.r
        i = r.randrange(len(SEEDS))
        seed, key = SEEDS[i], KEYS[i]
        k = r.choice(['SIGNCHECK', 'SIGN_STACK', 'CSS', 'DERIVE', 'POINTS', 'SCALARS', 'ADAPTER', 'MULTISIG',
                      'TAPROOT', 'BADSIG'])
        if k == 'SIGNCHECK':
            fl = r.choice([0, 0, 1, 3, 0x80])
            allowed = r.choice([fl, 0xff, 0, fl | 4])
            okey = key if r.random() < 0.8 else r.choice(KEYS)
            return push(seed) + op('SIGN') + u8(fl) + push(okey) + op(r.choice(['CHECK_SIG', 'CHECK_SIG_VERIFY'])) + u8(allowed)
        if k == 'SIGN_STACK':
            return push(self.rbytes(0, 20)) + push(seed if r.random() < 0.9 else self.rbytes(0, 33)) + op('SIGN_STACK')
        if k == 'CSS':
            msg = self.rbytes(0, 20)
            sig = SigningKey(seed).sign(msg).signature
            if r.random() < 0.3: sig = bytes([sig[0] ^ 1]) + sig[1:]
            if r.random() < 0.1: sig = sig[:-1]
            return push(sig) + push(msg) + push(key if r.random() < 0.85 else self.rbytes(31, 33)) + op('CHECK_SIG_STACK')
        if k == 'DERIVE':
            return push(self.rbytes(0, 40)) + op('DERIVE_SCALAR') + op('DERIVE_POINT')
        if k == 'POINTS':
            n = r.choice([0, 1, 2, 3])
            pre = b''.join(push(r.choice(KEYS) if r.random() < 0.9 else self.rbytes(31, 33)) for _ in range(n))
            return pre + op(r.choice(['ADD_POINTS', 'SUBTRACT_POINTS'])) + u8(n)
        if k == 'SCALARS':
            n = r.choice([0, 1, 2, 3])
            pre = b''.join(push(self.rbytes(32, 32) if r.random() < 0.9 else self.rbytes(0, 33)) for _ in range(n))
            return pre + op(r.choice(['ADD_SCALARS', 'SUBTRACT_SCALARS'])) + u8(n)
        if k == 'ADAPTER':
            t = self.rbytes(32, 32)
            T = nb.crypto_scalarmult_ed25519_base_noclamp(F.clamp_scalar(t))
            m = self.rbytes(0, 10)
            c = r.random()
            if c < 0.4:
                return push(seed) + push(m) + push(T) + op('MAKE_ADAPTER_SIG_PUBLIC')
            if c < 0.6:
                return push(m) + push(t) + push(seed) + op('MAKE_ADAPTER_SIG_PRIVATE')
            if c < 0.8:
                return (push(seed) + push(m) + push(T) + op('MAKE_ADAPTER_SIG_PUBLIC') + op('SWAP2') + push(m) +
                        push(T if r.random() < 0.8 else key) + push(key) + op('CHECK_ADAPTER_SIG'))
            return (push(seed) + push(m) + push(T) + op('MAKE_ADAPTER_SIG_PUBLIC') + op('SWAP2') + push(t) +
                    op('DECRYPT_ADAPTER_SIG'))
        if k == 'MULTISIG':
            n = r.choice([1, 2, 3])
            m = r.randint(0, n)
            idx = list(range(len(SEEDS))); r.shuffle(idx)
            ks = idx[:n]
            signers = [r.choice(ks) if r.random() < 0.85 else r.randrange(len(SEEDS)) for _ in range(m)]
            pre = b''
            for s in signers:
                pre += push(SEEDS[s]) + op('SIGN') + u8(0)
            for kk in ks:
                pre += push(KEYS[kk])
            return pre + op(r.choice(['CHECK_MULTISIG', 'CHECK_MULTISIG_VERIFY'])) + u8(0) + u8(m) + u8(n)
        if k == 'TAPROOT':
            script = r.choice([op('TRUE'), op('FALSE'), op('TRUE') + op('RETURN')])
            X = key
            t = F.clamp_scalar(hashlib.sha256(X + hashlib.sha256(script).digest()).digest())
            root = nb.crypto_core_ed25519_add(nb.crypto_scalarmult_ed25519_base_noclamp(t), X)
            if r.random() < 0.5:
                w = push(script if r.random() < 0.8 else op('TRUE') + op('TRUE')) + push(X)
            else:
                x = nb.crypto_core_ed25519_scalar_add(F.derive_key_from_seed(seed), t)
                w = push(b'sigplaceholder' * 5)[:66]
                w = push(self.rbytes(64, 65))
            return w + push(root if r.random() < 0.85 else self.rbytes(31, 33)) + op('TAPROOT') + u8(r.choice([0, 0xff]))
        # BADSIG
        return push(self.rbytes(63, 66)) + push(key if r.random() < 0.8 else self.rbytes(31, 33)) + op('CHECK_SIG') + u8(r.getrandbits(8))

    def s_raw(self):
        r = self.r
        c = r.random()
        if c < 0.5:
            return bytes([r.choice(list(F.opcodes))])          # bare opcode, operand = whatever follows
        return bytes(r.getrandbits(8) for _ in range(r.randint(1, 4)))

    def program(self, lo=1, hi=8):
        r = self.r
        # half of the programs shield (some of) their snippets with TRY so that execution goes on past an error
        # and later instructions meet the states earlier ones left behind
        x = r.random()
        wrap = 0.0 if x < 0.5 else (0.6 if x < 0.8 else 1.0)
        parts = []
        for _ in range(r.randint(lo, hi)):
            sn = self.snippet(0)
            if wrap and r.random() < wrap and len(sn) < 60000:
                exc = b'' if r.random() < 0.8 else self.s_push()
                sn = op('TRY_EXCEPT') + u16(len(sn)) + sn + u16(len(exc)) + exc
            parts.append(sn)
        return b''.join(parts)

    def raw_program(self, hi=24):
        r = self.r
        return bytes(r.getrandbits(8) if r.random() < 0.5 else r.choice(list(F.opcodes)) for _ in range(r.randint(0, hi)))

    def cache_vals(self):
        r = self.r
        c = {}
        if r.random() < 0.7: c['sigfield1'] = self.rbytes(0, 12)
        if r.random() < 0.4: c['sigfield2'] = self.rbytes(0, 12)
        if r.random() < 0.2: c['sigfield3'] = b'abc'
        if r.random() < 0.15: c['sigfield8'] = self.rbytes(0, 5)
        if r.random() < 0.3:
            from tsh import Pins
            c['timestamp'] = Pins.now + r.choice([-100, -1, 0, 1, 30, 59, 60, 61, 100])
            if r.random() < 0.15:
                c['timestamp'] = r.choice([0, 0, 1, 2 ** 31 - 1])       # the ends of the domain are timestamps too
        if r.random() < 0.1: c['num'] = self.rint()
        if r.random() < 0.1: c['flt'] = r.choice([0.5, 1.0, -2.0])
        if r.random() < 0.1: c['txt'] = 'hé'
        if r.random() < 0.1: c['lst'] = [b'a', 'b', 3]
        if r.random() < 0.05: c['foo'] = True
        if r.random() < 0.08: c['ba'] = bytearray(self.rbytes(1, 6))
        if r.random() < 0.5:       # a dict has an insertion order; the cache's meaning must not depend on it
            items = list(c.items()); r.shuffle(items); c = dict(items)
        # a sigfield the embedder holds as a mutable bytearray (valid: the message is built by concatenation) -- it must come back unchanged
        for k_ in ('sigfield1', 'sigfield2', 'sigfield8'):
            if k_ in c and type(c[k_]) is bytes and r.random() < 0.07:
                c[k_] = bytearray(c[k_])
        if r.random() < 0.03: c['timestamp'] = 'notint'
        if r.random() < 0.03: c['sigfield1'] = 5
        return c
