"""C11 / C12 streams: abstract programs rendered in many equivalent spellings, reference assembler,
compile_script / decompile_script vs the extracted Asm model (encode . parse_listing, decompile)."""
import collections, hashlib, os, random, signal, struct, sys, time

sys.path.insert(0, os.path.dirname(os.path.abspath(__file__)))
import vmstream


def _init():
    global tsh, F, P, T
    import tsh as _t
    tsh = _t
    F, P, T = tsh.F, tsh.P, tsh.T


NONE_OPS = ['FALSE', 'TRUE', 'POP0', 'SIZE', 'READ_CACHE_STACK', 'READ_CACHE_STACK_SIZE', 'DIV_INTS', 'MOD_INTS',
            'DIV_FLOATS', 'MOD_FLOATS', 'DUP', 'SHA256', 'VERIFY', 'EQUAL', 'EQUAL_VERIFY', 'CHECK_TIMESTAMP',
            'CHECK_TIMESTAMP_VERIFY', 'CHECK_EPOCH', 'CHECK_EPOCH_VERIFY', 'EVAL', 'RANDOM', 'NOT', 'RETURN', 'DEPTH',
            'SWAP2', 'CONCAT', 'CONCAT_STR', 'CHECK_TRANSFER', 'LESS', 'LESS_OR_EQUAL', 'FLOAT_LESS',
            'FLOAT_LESS_OR_EQUAL', 'INT_TO_FLOAT', 'FLOAT_TO_INT', 'SIGN_STACK', 'CHECK_SIG_STACK', 'DERIVE_SCALAR',
            'DERIVE_POINT', 'MAKE_ADAPTER_SIG_PUBLIC', 'MAKE_ADAPTER_SIG_PRIVATE', 'CHECK_ADAPTER_SIG',
            'DECRYPT_ADAPTER_SIG', 'XOR', 'INVOKE', 'OR', 'AND', 'SPLIT', 'SPLIT_STR']
S8_OPS = ['PUSH0', 'POP1', 'ADD_INTS', 'SUBTRACT_INTS', 'MULT_INTS', 'ADD_FLOATS', 'SUBTRACT_FLOATS', 'ADD_POINTS',
          'CALL', 'COPY', 'SHAKE256', 'REVERSE', 'CLAMP_SCALAR', 'ADD_SCALARS', 'SUBTRACT_SCALARS', 'SUBTRACT_POINTS']
X8_OPS = ['CHECK_SIG', 'CHECK_SIG_VERIFY', 'SIGN', 'TAPROOT', 'GET_MESSAGE', 'CHECK_TEMPLATE', 'CHECK_TEMPLATE_VERIFY']
VAR1_OPS = ['READ_CACHE', 'READ_CACHE_SIZE', 'SET_FLAG', 'UNSET_FLAG', 'GET_VALUE']
VAR1INT_OPS = ['DIV_INT', 'MOD_INT']
FIX4_OPS = ['DIV_FLOAT', 'MOD_FLOAT']
MSIG_OPS = ['CHECK_MULTISIG', 'CHECK_MULTISIG_VERIFY']


def code(name):
    return F.opcodes_inverse['OP_' + name][0]


def s8(b):
    return b if b < 128 else b - 256


# ---------------------------------------------------------------- random abstract programs
class AstGen:
    def __init__(self, rng, max_depth=3):
        self.r, self.max_depth = rng, max_depth

    def val(self, lo=0, hi=40):
        r = self.r
        c = r.random()
        if c < 0.25:
            return F.int_to_bytes(r.choice([0, 1, -1, 127, 128, -128, -129, 255, 256, 65535, 2**31, -2**40, 2**53 + 1, -(2**53 + 1), 2**62 + 1, 10**20 + 1, r.getrandbits(63) | 1, r.randint(-70000, 70000)]))
        if c < 0.4:
            return r.choice([b'abc', b'hello world', b'a b', b'x', b'q"z', b'\xc3\xa9', 'héllo'.encode(), 'ключ'.encode(), '日本'.encode(), 'naïve ü'.encode()])
        n = r.randint(lo, hi)
        return bytes(r.getrandbits(8) for _ in range(n))

    def instr(self, depth):
        r = self.r
        c = r.random()
        if c < 0.22: return ('op0', r.choice(NONE_OPS))
        if c < 0.36: return ('s8', r.choice(S8_OPS), r.choice([0, 1, 2, 3, 127, 128, 200, 255, r.getrandbits(8)]))
        if c < 0.43: return ('x8', r.choice(X8_OPS), r.choice([0, 1, 0xff, 0x80, r.getrandbits(8)]))
        if c < 0.60:
            v = self.val()
            if r.random() < 0.06: v = bytes(r.getrandbits(8) for _ in range(r.choice([255, 256, 257, 300, 1000])))
            elif depth == 0 and r.random() < 0.006: v = os.urandom(1) * r.choice([32767, 32768, 40000, 65535])       # the upper half of the two-byte size range (top level only: a block holds 65535 bytes)
            if len(v) == 1: return ('s8', 'PUSH0', v[0])
            if len(v) < 256: return ('push1', v)
            return ('push2', v)
        if c < 0.63: return ('push1', r.choice([b'', b'\x07']))                 # non-minimal PUSH1 forms
        if c < 0.65: return ('push2', self.val(0, 5))                           # non-minimal PUSH2
        if c < 0.70: return ('var1', r.choice(VAR1_OPS), self.val(0, 12))
        if c < 0.74:
            v = F.int_to_bytes(r.choice([1, -1, 5, -10, 127, 128, 255, 256, 2**63 - 1, 2**63, -2**63, r.randint(-10**6, 10**6)])) \
                if r.random() < 0.7 else r.choice([b'', b'\x00\x05', b'\x00', b'\xff\xff', b'\x00\x80',
                                                   # non-minimal (sign-extended) encodings of the ends of each width, and the minimal ones
                                                   b'\xff\x80', b'\xff\x80\x00', b'\xff\xff\x80', b'\xff\x80\x00\x00', b'\x00\x7f', b'\x00\x7f\xff',
                                                   b'\x80', b'\x80\x00', b'\x80\x00\x00', b'\x7f', b'\x7f\xff', b'\x00\x00\x80', b'\xff\x7f'])
            return ('var1int', r.choice(VAR1INT_OPS), v)
        if c < 0.77: return ('wc', self.val(0, 6), r.choice([0, 1, 2, 255]))
        if c < 0.79: return ('fix4', r.choice(FIX4_OPS), struct.pack('!f', r.choice([1.0, -2.5, 0.0, 1e10])) if r.random() < 0.6 else bytes(r.getrandbits(8) for _ in range(4)))
        if c < 0.81: return ('swap', r.getrandbits(8) if r.random() < 0.3 else r.randint(0, 3), r.randint(0, 3))
        if c < 0.83: return ('msig', r.choice(MSIG_OPS), r.choice([0, 0xff, 1]), r.randint(0, 3), r.randint(0, 3))
        if c < 0.845: return ('fix32', 'MERKLEVAL', bytes(r.getrandbits(8) for _ in range(32)))
        if c < 0.87: return ('nop', r.choice([c for c in range(256) if c not in F.opcodes]), r.choice([0, 1, 2, 127, 128, 200, 255]))
        if depth >= self.max_depth: return ('op0', r.choice(NONE_OPS))
        k = r.random()
        if k < 0.3: return ('if', self.prog(depth + 1, 0, 3))
        if k < 0.5: return ('ifelse', self.prog(depth + 1, 0, 3), self.prog(depth + 1, 0, 3))
        if k < 0.7: return ('try', self.prog(depth + 1, 0, 3), self.prog(depth + 1, 0, 2))
        if k < 0.85: return ('loop', self.prog(depth + 1, 0, 3))
        return ('def', r.choice([0, 1, 7, 255]), self.prog(depth + 1, 0, 3, nodef=True))

    def prog(self, depth=0, lo=1, hi=7, nodef=False):
        out = []
        for _ in range(self.r.randint(lo, hi)):
            i = self.instr(depth)
            if nodef and i[0] == 'def':
                i = ('op0', 'TRUE')
            out.append(i)
        return out


# ---------------------------------------------------------------- reference assembler (the documented encoding)
def enc1(i):
    k = i[0]
    if k == 'op0': return bytes([code(i[1])])
    if k in ('s8', 'x8'): return bytes([code(i[1]), i[2]])
    if k == 'push1': return bytes([code('PUSH1'), len(i[1])]) + i[1]
    if k in ('var1', 'var1int'): return bytes([code(i[1]), len(i[2])]) + i[2]
    if k == 'wc': return bytes([code('WRITE_CACHE'), len(i[1])]) + i[1] + bytes([i[2]])
    if k == 'push2': return bytes([code('PUSH2')]) + len(i[1]).to_bytes(2, 'big') + i[1]
    if k in ('fix4', 'fix32'): return bytes([code(i[1])]) + i[2]
    if k == 'swap': return bytes([code('SWAP'), i[1], i[2]])
    if k == 'msig': return bytes([code(i[1]), i[2], i[3], i[4]])
    if k == 'nop': return bytes([i[1], i[2]])
    if k == 'def':
        b = enc(i[2]); return bytes([code('DEF'), i[1]]) + len(b).to_bytes(2, 'big') + b
    if k == 'if':
        b = enc(i[1]); return bytes([code('IF')]) + len(b).to_bytes(2, 'big') + b
    if k == 'loop':
        b = enc(i[1]); return bytes([code('LOOP')]) + len(b).to_bytes(2, 'big') + b
    if k in ('ifelse', 'try'):
        a, b = enc(i[1]), enc(i[2])
        return bytes([code('IF_ELSE' if k == 'ifelse' else 'TRY_EXCEPT')]) + len(a).to_bytes(2, 'big') + a + len(b).to_bytes(2, 'big') + b
    raise ValueError(k)


def enc(p):
    return b''.join(enc1(i) for i in p)


# ---------------------------------------------------------------- canonical listing (decompiler format), as lines
def listing(p, ind=0):
    out = []
    pad = '    ' * ind
    for i in p:
        k = i[0]
        if k == 'op0': out.append(pad + 'OP_' + i[1])
        elif k == 's8': out.append(pad + 'OP_%s d%d' % (i[1], s8(i[2])))
        elif k == 'x8': out.append(pad + 'OP_%s x%02x' % (i[1], i[2]))
        elif k == 'push1': out.append(pad + 'OP_PUSH1 d%d x%s' % (len(i[1]), i[1].hex()))
        elif k == 'var1': out.append(pad + 'OP_%s x%s' % (i[1], i[2].hex()))
        elif k == 'var1int':
            v = i[2]
            if len(v) > 0 and F.int_to_bytes(F.bytes_to_int(v)) == v:
                out.append(pad + 'OP_%s d%d' % (i[1], F.bytes_to_int(v)))
            else:
                out.append(pad + 'OP_%s x%s' % (i[1], v.hex()))
        elif k == 'wc': out.append(pad + 'OP_WRITE_CACHE x%s d%d' % (i[1].hex(), i[2]))
        elif k == 'push2': out.append(pad + 'OP_PUSH2 d%d x%s' % (len(i[1]), i[1].hex()))
        elif k in ('fix4', 'fix32'): out.append(pad + 'OP_%s x%s' % (i[1], i[2].hex()))
        elif k == 'swap': out.append(pad + 'OP_SWAP d%d d%d' % (i[1], i[2]))
        elif k == 'msig': out.append(pad + 'OP_%s x%02x d%d d%d' % (i[1], i[2], i[3], i[4]))
        elif k == 'nop': out.append(pad + 'NOP%d d%d' % (i[1], s8(i[2])))
        elif k == 'def':
            out.append(pad + 'OP_DEF %d {' % i[1]); out += listing(i[2], ind + 1); out.append(pad + '}')
        elif k == 'if':
            out.append(pad + 'OP_IF {'); out += listing(i[1], ind + 1); out.append(pad + '}')
        elif k == 'loop':
            out.append(pad + 'OP_LOOP {'); out += listing(i[1], ind + 1); out.append(pad + '}')
        elif k == 'ifelse':
            out.append(pad + 'OP_IF {'); out += listing(i[1], ind + 1); out.append(pad + '} ELSE {')
            out += listing(i[2], ind + 1); out.append(pad + '}')
        elif k == 'try':
            out.append(pad + 'OP_TRY {'); out += listing(i[1], ind + 1)
            ex = listing(i[2], ind + 1)
            if ex:
                out.append(pad + '} EXCEPT {'); out += ex
            out.append(pad + '}')
    return out


# ---------------------------------------------------------------- spelling variants
class Speller:
    def __init__(self, rng):
        self.r = rng
        inv = collections.defaultdict(list)
        for a, o in F.opcode_aliases.items():
            inv[o].append(a)
        self.aliases = inv
        self.used = set()

    def name(self, n):
        r = self.r
        full = 'OP_' + n
        opts = [full] + [a for a in self.aliases.get(full, [])]
        s = r.choice(opts)
        c = r.random()
        if c < 0.4: s = s.lower()
        elif c < 0.5: s = ''.join(ch.lower() if r.random() < 0.5 else ch for ch in s)
        return s

    def comment(self):
        r = self.r
        if r.random() < 0.12:
            q = r.choice(['#', '"', "'"])
            return ' %s %s %s ' % (q, r.choice(['note', 'push d1', 'x00 true', 'OP_TRUE', 'hello world 42']), q)
        return ' '

    def num8(self, b, signed):
        r = self.r
        if r.random() < 0.5:
            return 'x%02x' % b
        return 'd%d' % (s8(b) if signed else b)

    def sval(self, v):
        """v written as a string value s"..." / s'...' (None when v is not such text): letters of any script, digits, _ - . and single inner blanks"""
        try:
            t = v.decode('utf-8')
        except Exception:
            return None
        if not t or not all(ch.isalnum() or ch in ' _-.' for ch in t) or t.startswith(' ') or t.endswith(' ') or '  ' in t:
            return None
        return self.r.choice(['s"%s"', "s'%s'"]) % t

    def pushval(self, v):
        """a value symbol for the PUSH pseudo-op that denotes exactly v (or None)"""
        r = self.r
        opts = ['x' + v.hex()]
        try:
            if len(v) > 0 and F.int_to_bytes(F.bytes_to_int(v)) == v:
                opts.append('d%d' % F.bytes_to_int(v))
        except Exception:
            pass
        try:
            sv = self.sval(v)
            if sv:
                opts.append(sv); opts.append(sv)
        except Exception:
            pass
        return r.choice(opts)

    def block(self, p, kind, depth):
        """body with braces or END_ terminators"""
        r = self.r
        body = self.prog(p, depth + 1)
        return body

    def render1(self, i, depth):
        r = self.r
        k = i[0]
        c = self.comment()
        if k == 'op0': return self.name(i[1]) + c
        if k == 's8':
            if i[1] == 'PUSH0' and r.random() < 0.5:
                return self.name_push() + ' ' + self.pushval(bytes([i[2]])) + c
            return self.name(i[1]) + ' ' + self.num8(i[2], True) + c
        if k == 'x8': return self.name(i[1]) + ' ' + (('x%02x' % i[2]) if r.random() < 0.6 or i[2] > 127 else 'd%d' % i[2]) + c
        if k == 'push1':
            v = i[1]
            if 2 <= len(v) <= 255 and r.random() < 0.6:
                return self.name_push() + ' ' + self.pushval(v) + c
            sv = self.sval(v)
            if sv and r.random() < 0.5:         # explicit OP_PUSH1 with a string value, with or without the size operand
                return self.name('PUSH1') + (' d%d ' % len(v) if r.random() < 0.5 else ' ') + sv + c
            return self.name('PUSH1') + ' d%d x%s' % (len(v), v.hex()) + c
        if k == 'push2':
            v = i[1]
            if 256 <= len(v) <= 65535 and r.random() < 0.6:
                return self.name_push() + ' x' + v.hex() + c
            return self.name('PUSH2') + ' d%d x%s' % (len(v), v.hex()) + c
        if k == 'var1':
            v = i[2]
            if i[1] == 'READ_CACHE' and v and v.isalnum() and r.random() < 0.4:
                return '@' + v.decode() + c
            if i[1] == 'READ_CACHE_SIZE' and v and v.isalnum() and r.random() < 0.4:
                return '@#' + v.decode() + c
            sv = self.sval(v)
            if sv and r.random() < 0.4:
                return self.name(i[1]) + ' ' + sv + c
            return self.name(i[1]) + ' x' + v.hex() + c
        if k == 'var1int':
            v = i[2]
            if len(v) > 0 and F.int_to_bytes(F.bytes_to_int(v)) == v and r.random() < 0.6:
                return self.name(i[1]) + ' d%d' % F.bytes_to_int(v) + c
            return self.name(i[1]) + ' x' + v.hex() + c
        if k == 'wc':
            key = i[1]
            if key and key.isalnum() and r.random() < 0.4:
                return '@= %s %d' % (key.decode(), i[2]) + c
            cnt = ('d%d' % i[2]) if r.random() < 0.6 else ('x%02x' % i[2])
            return self.name('WRITE_CACHE') + ' x%s %s' % (key.hex(), cnt) + c
        if k in ('fix4', 'fix32'): return self.name(i[1]) + ' x' + i[2].hex() + c
        if k == 'swap': return self.name('SWAP') + ' ' + self.num8(i[1], False) + ' ' + self.num8(i[2], False) + c
        if k == 'msig': return self.name(i[1]) + ' ' + self.num8(i[2], False) + ' ' + self.num8(i[3], False) + ' ' + self.num8(i[4], False) + c
        if k == 'nop':
            nm = 'NOP%d' % i[1]
            return (nm if r.random() < 0.6 else nm.lower()) + ' ' + (('d%d' % s8(i[2])) if r.random() < 0.6 else 'x%02x' % i[2]) + c
        brace = r.random() < 0.6
        # "} ELSE" / "} EXCEPT" bind to the nearest brace block: an END_-style outer block whose first body ends with a
        # brace-style inner IF/TRY would be a different program (dangling else), so use braces there
        def _ends_open(body):
            return bool(body) and body[-1][0] in ('if', 'try', 'ifelse')
        if k in ('ifelse', 'try') and _ends_open(i[1]):
            brace = True
        if k == 'def':
            h = r.choice(['%d' % i[1], 'd%d' % i[1], 'x%02x' % i[1]])
            body = self.prog(i[2], depth + 1)
            nm = r.choice(['def', 'DEF', 'OP_DEF', 'op_def'])
            return ('%s %s { %s } ' % (nm, h, body)) if brace else ('%s %s %s END_DEF ' % (nm, h, body))
        if k == 'loop':
            body = self.prog(i[1], depth + 1)
            nm = r.choice(['loop', 'LOOP', 'OP_LOOP'])
            return ('%s { %s } ' % (nm, body)) if brace else ('%s %s end_loop ' % (nm, body))
        if k == 'if':
            body = self.prog(i[1], depth + 1)
            nm = r.choice(['if', 'IF', 'OP_IF', 'op_if'])
            return ('%s { %s } ' % (nm, body)) if brace else ('%s %s END_IF ' % (nm, body))
        if k == 'ifelse':
            a, b = self.prog(i[1], depth + 1), self.prog(i[2], depth + 1)
            nm = r.choice(['if', 'IF', 'OP_IF'])
            return ('%s { %s } else { %s } ' % (nm, a, b)) if brace else ('%s %s ELSE %s end_if ' % (nm, a, b))
        if k == 'try':
            a, b = self.prog(i[1], depth + 1), self.prog(i[2], depth + 1)
            nm = r.choice(['try', 'TRY', 'OP_TRY'])
            if not i[2] and r.random() < 0.5:
                return ('%s { %s } ' % (nm, a)) if brace else ('%s %s END_TRY ' % (nm, a))
            return ('%s { %s } except { %s } ' % (nm, a, b)) if brace else ('%s %s EXCEPT %s END_EXCEPT ' % (nm, a, b))
        raise ValueError(k)

    def name_push(self):
        return self.r.choice(['push', 'PUSH', 'OP_PUSH', 'Push'])

    def prog(self, p, depth=0):
        r = self.r
        parts = []
        j = 0
        while j < len(p):
            i = p[j]
            # hoisted IF condition: "cond IF body" == "IF ( cond ) body"
            if (j + 1 < len(p) and p[j + 1][0] in ('if', 'ifelse') and i[0] in ('op0', 'push1', 's8', 'x8')
                    and r.random() < 0.35):
                nxt = p[j + 1]
                cond = self.render1(i, depth)
                if nxt[0] == 'if':
                    parts.append('if ( %s ) { %s } ' % (cond, self.prog(nxt[1], depth + 1)))
                else:
                    parts.append('if ( %s ) { %s } else { %s } ' % (cond, self.prog(nxt[1], depth + 1), self.prog(nxt[2], depth + 1)))
                j += 2
                continue
            parts.append(self.render1(i, depth))
            j += 1
        ws = r.choice([' ', '\n', '  ', '\t', '\n    '])
        return ws.join(parts)


def uses_macro_variant(rng, p):
    """source using a macro / comptime block that must compile to enc(p): returns (src) or None"""
    pushes = [i for i in p if i[0] == 'push1' and 2 <= len(i[1]) <= 255]
    if not pushes:
        return None
    sp = Speller(rng)
    c = rng.random()
    out = []
    if c < 0.5:
        out.append('!= mypush [ v ] { push v }')
        for i in p:
            if i[0] == 'push1' and 2 <= len(i[1]) <= 255:
                out.append('!mypush [ x%s ]' % i[1].hex())
            else:
                out.append(sp.render1(i, 0))
    elif c < 0.75:
        for i in p:
            if i[0] == 'push1' and 2 <= len(i[1]) <= 255:
                # run-time comptime: the block is executed and its top stack item becomes the pushed value
                v = i[1]
                k = rng.randrange(1, len(v))
                out.append('push ~! { push x%s push x%s %s } ' % (v[:k].hex(), v[k:].hex(), rng.choice(['concat', 'cat', 'OP_CONCAT'])))
            else:
                out.append(sp.render1(i, 0))
    else:
        for i in p:
            if i[0] == 'push1' and 2 <= len(i[1]) <= 255:
                # comptime: the block is compiled and its bytecode becomes the pushed value
                inner = [('op0', 'TRUE')] * 0
                out.append('push ~ { OP_PUSH1 d%d x%s } ' % (len(i[1]) - 2, i[1][2:].hex()) if i[1][0] == code('PUSH1') and i[1][1] == len(i[1]) - 2 else 'push x%s' % i[1].hex())
            else:
                out.append(sp.render1(i, 0))
    return ' '.join(out)


MACRO_TEMPLATES = ['push V', 'push V true', 'true push V', 'push V push V', 'push V not', 'push1 V check_sig x00',
                   'push V check_sig_verify x00 true', 'if { push V } else { false }', 'def 1 { push V } call d1', 'false not']
MACRO_ARGS = ['x0102', 'x0304', 'd7', 's"ab"']


def macro_history(rng, stats, viol, src_model):
    """the same macro NAME invoked with the same ARGUMENT symbols against different templates — in consecutive compiles of one
    process, and inside one source (use in a ~ { } block, redefinition, use again): every source must compile to what the
    source with the template written out compiles to (and to what the model says)"""
    name = rng.choice(['mm', 'lock'])
    arg = rng.choice(MACRO_ARGS)
    tail = rng.choice(['', ' false', ' true not'])
    for _ in range(3):
        t = rng.choice(MACRO_TEMPLATES)
        forms = [('!= %s [ V ] { %s } !%s [ %s ]%s' % (name, t, name, arg, tail), t.replace('V', arg) + tail)]
        t2 = rng.choice(MACRO_TEMPLATES)
        forms.append(('!= %s [ V ] { %s } push ~ { !%s [ %s ] } != %s [ V ] { %s } !%s [ %s ]%s' % (name, t, name, arg, name, t2, name, arg, tail),
                      'push ~ { %s } %s%s' % (t.replace('V', arg), t2.replace('V', arg), tail)))
        for src, flat in forms:
            stats['compile:macro-history'] += 1
            try:
                want = P.compile_script(flat)
            except BaseException:
                continue
            try:
                got, outc = P.compile_script(src), 'ok'
            except BaseException as e:
                got, outc = None, type(e).__name__
            if got != want:
                stats['direct-fail'] += 1
                if len(viol) < 8:
                    viol.append(dict(what='a macro source does not compile to the bytes of the same source with the template written out (%s)' % outc,
                                     source=src, written_out=flat, expected=want.hex(), got=(got.hex() if got is not None else None)))
            src_model(src, got, outc, 'macro-history')
    # a macro defined or REDEFINED inside a comptime block is the macro of the code after the block (documented: "macros defined within
    # comptime blocks can be invoked outside of them")
    for src, flat in (('push ~ { != k [ ] { true } !k [ ] } !k [ ]', 'push ~ { true } true'),
                      ('!= m [ ] { true } push ~ { != m [ ] { false } !m [ ] } !m [ ]', 'push ~ { false } false'),
                      ('!= m [ ] { true } !m [ ] push ~ { != m [ ] { false } } !m [ ]', 'true push x false') ,
                      ('!= p [ a ] { push a } push ~ { push ~ { != p [ a ] { push a not } false } } !p [ x07 ]', 'push ~ { push ~ { false } } push x07 not')):
        stats['compile:macro-in-comptime'] += 1
        try:
            want = P.compile_script(flat)
        except BaseException:
            want = None
        try:
            got, outc = P.compile_script(src), 'ok'
        except BaseException as e:
            got, outc = None, type(e).__name__
        if got != want:
            stats['direct-fail'] += 1
            if len(viol) < 8:
                viol.append(dict(what='a macro (re)defined inside a comptime block is not the macro of the code after the block (%s)' % outc,
                                 source=src, written_out=flat, expected=(want.hex() if want is not None else None), got=(got.hex() if got is not None else None)))
        src_model(src, got, outc, 'macro-in-comptime')
    # macros of two parameters whose NAMES read like values (d1, x0a ...), invoked with arguments spelled like the other parameter's name:
    # every parameter is replaced by its own argument, once (the arguments are not substituted again)
    f0, f1 = rng.choice([('d1', 'd2'), ('x0a', 'x0b'), ('d2', 'd1'), ('x01', 'd1')])
    for a0, a1 in ((f1, f0), (f1, 'd9'), ('d9', f0), (f1, f1), ('x07', 'x08')):
        tmpl = rng.choice(['push %s push %s', 'push %s push %s push %s', 'push %s if { push %s } push %s', 'true push %s not push %s'])
        holes = [rng.choice([f0, f1]) for _ in range(tmpl.count('%s'))]
        if f0 not in holes: holes[0] = f0
        if f1 not in holes: holes[-1] = f1
        t = tmpl % tuple(holes)
        flat = tmpl % tuple({f0: a0, f1: a1}[h_] for h_ in holes)
        src = '!= mm [ %s %s ] { %s } true !mm [ %s %s ] false' % (f0, f1, t, a0, a1)
        flat = 'true %s false' % flat
        stats['compile:macro-params-like-values'] += 1
        try:
            want = P.compile_script(flat)
        except BaseException:
            continue
        try:
            got, outc = P.compile_script(src), 'ok'
        except BaseException as e:
            got, outc = None, type(e).__name__
        if got != want:
            stats['direct-fail'] += 1
            if len(viol) < 8:
                viol.append(dict(what='a macro call does not compile to the template with every parameter replaced by its own argument (%s)' % outc,
                                 source=src, written_out=flat, expected=want.hex(), got=(got.hex() if got is not None else None)))
        src_model(src, got, outc, 'macro-params-like-values')


MALFORMED = [
    'OP_COPY d200', 'OP_COPY d-129', 'push', 'if { true', 'true if true', 'def 0 { true', 'try { true', 'loop { true',
    'OP_FOO', 'push d', 'OP_PUSH1 d1', 'OP_MERKLEVAL x00', 'OP_SWAP d1', 'OP_SWAP d256 d1', 'OP_CHECK_MULTISIG x00 d1',
    'push x' + 'ab' * 65536, 'OP_DIV_FLOAT x0000', 'def 300 { }', 'NOP255 d200', 'OP_WRITE_CACHE x00', '# unterminated comment',
    'push s"unterminated', '!undefined [ x00 ]', '@= 1 [ x00', 'OP_PUSH0 x0102', 'try { true } except { true } except { false }',
    # macro calls with more / fewer values than the macro has parameters: nothing written may be dropped
    '!= m [ a ] { push a } !m [ d1 x0203 ] false', '!= m [ ] { true } !m [ d1 ]', '!= m [ a b ] { push a push b } !m [ d1 ]',
    '!= m [ a b ] { push a push b } !m [ d1 d2 d3 ] true', '!= m [ a b c ] { push a if { push b } else { push c } } !m [ d1 x0203 s"four" d-5 ]',
    '!= m [ a ] { push a } !m [ ] true',
]


class Watchdog:
    def __init__(self, seconds): self.s = seconds
    def __enter__(self):
        def h(sig, fr): raise TimeoutError('watchdog')
        self.old = signal.signal(signal.SIGALRM, h)
        signal.setitimer(signal.ITIMER_REAL, self.s)
    def __exit__(self, *a):
        signal.setitimer(signal.ITIMER_REAL, 0)
        signal.signal(signal.SIGALRM, self.old)


def impl_decompile(b, timeout=5):
    try:
        with Watchdog(timeout):
            return ('ok', P.decompile_script(b))
    except TimeoutError:
        return ('timeout', None)
    except RecursionError:
        return ('recursion', None)
    except BaseException as e:
        return ('raise', type(e).__name__)


def c11_task(task):
    seed, n = task
    _init()
    rng = random.Random(seed)
    model = tsh.Model()
    model.set_cfg(tsh.Cfg())         # ~! { } comptime blocks run on the VM model under the default configuration
    stats = collections.Counter()
    dis, viol, samples = [], [], []
    digests = set()
    def src_model_syms(syms, nm, got=None, outc=None, have_impl=False):
        if not have_impl:
            try:
                got, outc = P.assemble(list(syms)), 'ok'
            except BaseException as e:
                got, outc = None, type(e).__name__
        if any((' ' in x or not x.isascii()) and not x[:1] in 'sS' for x in syms):
            stats['srcmodel:unm'] += 1
            return
        m = model.cmd('ASRC ' + ' '.join((x.encode('utf-8', 'surrogatepass').hex() or '-') for x in syms)) if syms else 'ok -'
        if m == 'unm':
            stats['srcmodel:unm'] += 1
            return
        impl = ('ok ' + tsh.hx(got)) if got is not None else 'err'
        stats['srcmodel:' + ('agree' if m == impl else 'differ') + (':rejected' if impl == 'err' else '')] += 1
        if m != impl and len(dis) < 5:
            dis.append(dict(stream='Assembler.assemble_r vs parsing.assemble on the symbols of a %s source' % nm,
                            symbols=syms[:40], model=m[:200], impl=impl[:200], impl_exception=outc))

    def src_model(src, got, outc, nm):
        # text level: Tokenizer.get_symbols / compile_text on the source text itself
        if src.isascii():
            try:
                isy = 'ok:' + ','.join((x.encode().hex() or '-') for x in P.get_symbols(src))
            except BaseException:
                isy = 'err'
            icp = ('ok:' + tsh.hx(got)) if got is not None else 'err'
            m = model.cmd('CTXT ' + (src.encode().hex() or '-')).split(' ')
            for what, mi, ii in (('get_symbols', m[0], isy), ('compile_text', m[1], icp)):
                if mi == 'unm':
                    stats['textmodel:' + what + ':unm'] += 1
                elif mi == ii or (what == 'compile_text' and mi.startswith('ok:') and ii.startswith('ok:') and mi[3:].replace('-', '') == ii[3:].replace('-', '')):
                    stats['textmodel:' + what + ':agree'] += 1
                else:
                    stats['textmodel:' + what + ':differ'] += 1
                    if len(dis) < 5:
                        dis.append(dict(stream='Tokenizer.%s vs parsing on the text of a %s source' % (what, nm), source=src[:300],
                                        model=mi[:200], impl=ii[:200]))
        try:
            syms = P.get_symbols(src)
        except BaseException:
            return
        src_model_syms(syms, nm, got, outc, have_impl=True)

    for it in range(n):
        if it % 8 == 0:
            macro_history(rng, stats, viol, src_model)
        g = AstGen(rng, max_depth=rng.choice([1, 2, 3]))
        p = g.prog()
        ref = enc(p)
        lst = listing(p)
        toks = ' '.join(lst).split()
        m = model.cmd('ASM ' + ' '.join(toks)) if toks else 'ok - wf'
        digests.add(hashlib.sha256(ref).digest()[:8])
        want = 'ok ' + tsh.hx(ref) + ' wf'
        if m != want:
            stats['model-differs'] += 1
            if len(dis) < 5:
                dis.append(dict(stream='model encode(parse_listing(listing)) vs reference assembler', listing=lst[:12], model=m[:200], reference=ref.hex()[:200]))
        # every spelling must compile to the reference bytes
        variants = [('canonical', '\n'.join(lst))]
        for v in range(3):
            variants.append(('spelling%d' % v, Speller(rng).prog(p)))
        mv = uses_macro_variant(rng, p)
        if mv:
            variants.append(('macro/comptime', mv))
        for nm, src in variants:
            stats['compile:' + nm.rstrip('0123456789')] += 1
            try:
                got = P.compile_script(src)
                outc = 'ok'
            except BaseException as e:
                got, outc = None, type(e).__name__
            if got is None:
                stats['rejected:' + nm.rstrip('0123456789')] += 1       # rejecting is allowed by the property; mis-assembling is not
                if nm == 'canonical':
                    stats['direct-fail'] += 1
                    if len(viol) < 8:
                        viol.append(dict(what='the decompiler-format listing of a well-formed program is rejected (%s)' % outc, source=src[:600]))
            elif got != ref:
                stats['direct-fail'] += 1
                if len(viol) < 8:
                    viol.append(dict(what='%s source does not compile to the documented encoding (%s)' % (nm, outc),
                                     source=src[:600], expected=ref.hex()[:300], got=(got.hex()[:300] if got is not None else None)))
            # the source-level model (model/Assembler.v: assemble_r on the symbols of the source) vs the compiler, on the
            # source as written and on a damaged copy (a symbol dropped / doubled / swapped / replaced)
            src_model(src, got, outc, nm)       # macros and ~ { } comptime blocks are modelled; ~! { } is Unm in the model
            if nm != 'macro/comptime':
                if rng.random() < 0.3:          # the same source with its whitespace re-drawn (tabs, newlines, runs)
                    ws = ''.join(rng.choice([' ', '  ', '\t', '\n', ' \n ', '\r\n', '\x0b', '\x0c', '\x1c']) if ch == ' ' else ch for ch in src)
                    try:
                        g2, o2 = P.compile_script(ws), 'ok'
                    except BaseException as e2:
                        g2, o2 = None, type(e2).__name__
                    src_model(ws, g2, o2, nm + '+whitespace')
                try:
                    syms = P.get_symbols(src)
                except BaseException:
                    syms = []
                if syms and rng.random() < 0.5:
                    j = rng.randrange(len(syms))
                    k = rng.random()
                    if k < 0.3: bad = syms[:j] + syms[j + 1:]
                    elif k < 0.5: bad = syms[:j] + [syms[j]] + syms[j:]
                    elif k < 0.7 and len(syms) > 1:
                        j2 = rng.randrange(len(syms)); bad = list(syms); bad[j], bad[j2] = bad[j2], bad[j]
                    else: bad = syms[:j] + [rng.choice(['}', '{', 'ELSE', 'END_IF', 'd1', 'x01', 'TRUE', 'd300', '(', ')', 'xfff'])] + syms[j + 1:]
                    src_model_syms(bad, 'damaged')
        if len(samples) < 2:
            samples.append(dict(listing=lst[:8], spelling=variants[1][1][:200], bytes=ref.hex()[:120]))
    # the SOURCE TEXTS the real builders of tools.py generate (f-string templates, comments, ~! { } comptime blocks that run
    # hashes and signatures at compile time) through the model's compile_text: must give the builder's own bytes
    import builders as _B
    for _ in range(max(1, n // 40)):
        for nm, sc in _B.src_cases(rng):
            if isinstance(sc, Exception) or not getattr(sc, 'src', '').strip():
                continue
            stats['builder-source'] += 1
            m = model.cmd('CTXT ' + (sc.src.encode().hex() or '-')).split(' ')
            want = 'ok:' + tsh.hx(sc.bytes)
            if m[1] == 'unm':
                stats['builder-source:unm'] += 1
            elif m[1] == want or (m[1].startswith('ok:') and m[1][3:].replace('-', '') == sc.bytes.hex()):
                stats['builder-source:agree'] += 1
            else:
                stats['builder-source:differ'] += 1
                if len(dis) < 5:
                    dis.append(dict(stream='compile_text of the source text of %s vs its bytes' % nm, source=sc.src[:300], model=m[1][:200], impl=want[:200]))
    # PUSH of a value at every size boundary, in every way a source can supply the value: the documented encoding, or (0 and 65536
    # bytes, which no PUSH form can carry) a rejection -- never other bytes
    for L in (0, 1, 2, 255, 256, 257, 65535, 65536):
        v = bytes(rng.getrandbits(8) | 1 for _ in range(L))
        hx = v.hex()
        if L == 0: want = None
        elif L == 1: want = bytes([code('PUSH0')]) + v
        elif L < 256: want = bytes([code('PUSH1'), L]) + v
        elif L < 65536: want = bytes([code('PUSH2')]) + L.to_bytes(2, 'big') + v
        else: want = None
        forms = ['push x%s true' % hx, 'PUSH x%s true' % hx, 'OP_PUSH x%s true' % hx, 'op_push x%s true' % hx,
                 '@= v [ x%s ] true' % hx, '!= m [ a ] { push a } !m [ x%s ] true' % hx]
        if L == 0:
            forms += ['push ~ { } true', 'push x', 'true push x', 'if { push x } true', 'def 0 { push x } true']
        elif L <= 300:
            forms += ['if { push x%s } true' % hx, 'push ~ { push x%s } true' % ('ab' * L) ]
        for src in forms:
            stats['push-boundary'] += 1
            try:
                got, outc = P.compile_script(src), 'ok'
            except BaseException as e:
                got, outc = None, type(e).__name__
            if 'push ~ { push' in src or src.startswith(('if', 'def', 'true')) or src == 'push x':
                pass                                    # compared with the model only
            elif want is None and got is not None:
                stats['direct-fail'] += 1
                if len(viol) < 8:
                    viol.append(dict(what='PUSH of a %d-byte value cannot be encoded and must be rejected; it was assembled' % L, source=src[:100], got=got.hex()[:100]))
            elif want is not None and got is not None and got != want + bytes([code('TRUE')]) and not src.startswith('@='):
                stats['direct-fail'] += 1
                if len(viol) < 8:
                    viol.append(dict(what='PUSH of a %d-byte value does not compile to the documented encoding' % L, source=src[:100],
                                     expected=(want + bytes([code('TRUE')])).hex()[:100], got=got.hex()[:100]))
            if L < 1000:
                src_model(src, got, outc, 'push-boundary')
            elif want is not None and got is None and not src.startswith(('@=', '!=')):
                stats['direct-fail'] += 1
                if len(viol) < 8:
                    viol.append(dict(what='PUSH of a %d-byte value is rejected (%s); the documented encoding exists' % (L, outc), source=src[:100]))
    # comptime blocks whose value is EMPTY, in operand positions: the block stands for the value symbol x (the empty value), it does not vanish
    for src, wantx in (('push1 d0 ~ { } true', '030001'), ('push1 ~ { } true', '030001'), ('push1 d0 ~ { # nothing # } true', '030001'),
                       ('push1 ~! { push1 d0 x } true', '030001'), ('add_ints ~ { } true', '0e0001'), ('push ~ { } x01', None),
                       ('push ~ { } true', None), ('if { push1 d0 ~ { } } true', '2b00020300' + '01'), ('push1 d0 ~ { } push1 d1 ~ { true }', '0300030101')):
        stats['empty-comptime'] += 1
        try:
            got, outc = P.compile_script(src), 'ok'
        except BaseException as e:
            got, outc = None, type(e).__name__
        if (got.hex() if got is not None else None) != wantx:
            stats['direct-fail'] += 1
            if len(viol) < 8:
                viol.append(dict(what='a comptime block with an empty value in an operand position: %s' % ('must be rejected, compiled' if wantx is None else 'does not compile to the documented encoding (%s)' % outc),
                                 source=src, expected=wantx, got=(got.hex() if got is not None else None)))
        src_model(src, got, outc, 'empty-comptime')
    # sources that cannot be encoded must be rejected, not silently mis-assembled
    for src in MALFORMED:
        stats['malformed'] += 1
        try:
            src_model_syms(P.get_symbols(src), 'malformed')
        except BaseException:
            pass
        try:
            b = P.compile_script(src)
            stats['direct-fail'] += 1
            if len(viol) < 8:
                viol.append(dict(what='malformed source accepted', source=src[:100], got=b.hex()[:100]))
        except BaseException:
            pass
    model.close()
    return dict(n=n, stats=dict(stats), disagreements=dis, violations=viol, samples=samples, distinct=len(digests),
                oracle_calls=model.oracle_calls, labels={})


def c12_task(task):
    seed, n = task
    _init()
    import gen as G, builders
    rng = random.Random(seed)
    model = tsh.Model()
    stats = collections.Counter()
    dis, viol, samples = [], [], []
    digests = set()

    def one(b, origin):
        stats[origin] += 1
        digests.add(hashlib.sha256(b).digest()[:8])
        st, val = impl_decompile(b)
        m = model.cmd('DEC ' + tsh.hx(b))
        if st == 'timeout':
            stats['direct-fail'] += 1
            if len(viol) < 8:
                viol.append(dict(what='decompile_script did not terminate within the watchdog', bytes=b.hex()[:200], origin=origin))
            return
        if st == 'recursion':
            stats['skip-recursion'] += 1
            return
        impl = 'ok ' + '|'.join(val) if st == 'ok' else 'none'
        if impl != m:
            stats['differ'] += 1
            if len(dis) < 5:
                dis.append(dict(stream='decompile', bytes=b.hex()[:300], impl=impl[:300], model=m[:300], origin=origin))
        else:
            stats['agree'] += 1
        if st == 'ok' and origin not in ('compiler', 'builder') and len(b) < 4000:
            # "the listing names, in order, exactly the instructions and operands present in the bytecode": for ANY byte string that
            # decompiles, a listing that compiles must compile to those very bytes (a listing the compiler refuses — a DEF directly
            # inside a DEF — is not counted here)
            try:
                back_ = P.compile_script('\n'.join(val))
            except BaseException:
                back_ = None
            if back_ is not None:
                stats['listing-recompiled(any origin)'] += 1
                if back_ != b:
                    stats['direct-fail'] += 1
                    if len(viol) < 8:
                        viol.append(dict(what='decompile_script returned a listing for %s bytes that names other instructions than the bytes hold: it compiles to %s' % (origin, back_.hex()[:200]),
                                         bytes=b.hex()[:300], listing=val[:10]))
        if origin in ('compiler', 'builder') :
            if st != 'ok':
                stats['direct-fail'] += 1
                if len(viol) < 8:
                    viol.append(dict(what='decompile_script raised %s on %s output' % (val, origin), bytes=b.hex()[:300]))
                return
            try:
                back = P.compile_script('\n'.join(val))
            except BaseException as e:
                back = type(e).__name__
            if back != b:
                stats['direct-fail'] += 1
                if len(viol) < 8:
                    viol.append(dict(what='compile(decompile(b)) != b for %s output' % origin, bytes=b.hex()[:300],
                                     listing=val[:10], back=(back.hex()[:300] if isinstance(back, bytes) else back)))
            # the same text through the model of the real front end (theorem C12_listing_text_compiles is about compile_text)
            text = '\n'.join(val)
            if len(text) < 20000 and (origin == 'builder' or rng.random() < 0.3):
                mm = model.cmd('CTXT ' + (text.encode().hex() or '-')).split(' ')
                if len(mm) > 1 and mm[1] != 'unm':
                    want = 'ok:' + tsh.hx(b)
                    if mm[1] == want or (mm[1].startswith('ok:') and mm[1][3:].replace('-', '') == want[3:].replace('-', '')):
                        stats['listing-text:compile_text agrees'] += 1
                    else:
                        stats['differ'] += 1
                        if len(dis) < 5:
                            dis.append(dict(stream='compile_text (model) on the text of the decompiler listing', bytes=b.hex()[:300],
                                            model=mm[1][:300], listing=val[:10], origin=origin))
                else:
                    stats['listing-text:unm'] += 1
    # exhaustive short strings
    # compiler output holding a push from the upper half of the two-byte size range (once per task; top level and inside a block)
    for L_ in (32767, 32768, rng.choice([40000, 65000]), 65535):
        for tmpl_ in ('OP_PUSH x%s', 'OP_TRUE OP_PUSH x%s OP_POP0') + (('OP_IF { OP_PUSH x%s }',) if L_ < 65000 else ()):
            try:
                one(P.compile_script(tmpl_ % (bytes([rng.getrandbits(8)]) * L_).hex()), 'compiler')
            except BaseException:
                stats['large-push-not-compiled'] += 1
    for it in range(n):
        c = rng.random()
        if c < 0.35:
            g = AstGen(rng, max_depth=rng.choice([1, 2, 3]))
            p = g.prog()
            src = Speller(rng).prog(p)
            try:
                b = P.compile_script(src)
            except BaseException:
                continue
            one(b, 'compiler')
        elif c < 0.5:
            fam = rng.choice([builders.c13, builders.c14, builders.c15, builders.c04, builders.c05, builders.c17])
            try:
                scs = fam(rng)
            except Exception:
                continue
            for sc in scs[:6]:
                if sc[0] != 'MT' and sc[1] and 'corrupt' not in sc[0] and 'flipped' not in sc[0]:
                    for s_ in sc[1]:
                        one(s_, 'builder')
        elif c < 0.75:
            g = G.Gen(rng)
            b = g.program(1, 6)
            j = rng.random()
            if j < 0.4 and b:
                k = rng.randrange(len(b)); b = b[:k]                       # truncation
            elif j < 0.7 and b:
                k = rng.randrange(len(b)); b = b[:k] + bytes([rng.getrandbits(8)]) + b[k + 1:]
            one(b, 'mutated')
        else:
            b = bytes(rng.getrandbits(8) for _ in range(rng.choice([1, 2, 3, 4, 8, 20, 60])))
            if rng.random() < 0.1:
                b = bytes([code('PUSH2'), rng.choice([0x7f, 0x80, 0xff]), rng.getrandbits(8)]) + bytes(rng.randint(0, 40))
            one(b, 'random')
        if len(samples) < 2 and it > 3:
            samples.append(dict(bytes=b.hex()[:80], impl=str(impl_decompile(b))[:160]))
    model.close()
    return dict(n=sum(stats[k] for k in ('compiler', 'builder', 'mutated', 'random', 'short')), stats=dict(stats), disagreements=dis,
                violations=viol, samples=samples, distinct=len(digests), oracle_calls=model.oracle_calls, labels={})


def c12_short_task(task):
    """all byte strings of length <= 2 and (thorough) length 3 with the first byte in the chunk"""
    first_bytes, maxlen = task
    _init()
    model = tsh.Model()
    stats = collections.Counter()
    dis, viol = [], []
    n = 0
    for f in first_bytes:
        todo = [bytes([f])] + [bytes([f, a]) for a in range(256)]
        if maxlen >= 3:
            todo += [bytes([f, a, b]) for a in range(256) for b in range(256)]
        for b in todo:
            n += 1
            st, val = impl_decompile(b, 3)
            if st == 'timeout':
                if len(viol) < 8:
                    viol.append(dict(what='decompile_script did not terminate', bytes=b.hex()))
                continue
            m = model.cmd('DEC ' + tsh.hx(b))
            impl = 'ok ' + '|'.join(val) if st == 'ok' else 'none'
            if impl != m:
                stats['differ'] += 1
                if len(dis) < 5:
                    dis.append(dict(stream='decompile(short)', bytes=b.hex(), impl=impl[:200], model=m[:200]))
            else:
                stats['agree'] += 1
    model.close()
    return dict(n=n, stats=dict(stats), disagreements=dis, violations=viol, samples=[dict(bytes='04fffd', impl=str(impl_decompile(b'\x04\xff\xfd')))],
                distinct=n, oracle_calls=model.oracle_calls, labels={})
