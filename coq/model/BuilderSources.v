(* The SOURCE TEXTS produced by the lock / witness builders of tapescript/tools.py.

   Every builder formats an f-string template and hands the text to Script.from_src, which keeps the
   text in .src and compile_script(text) in .bytes.  model/Builders.v gives the BYTES of the builders as
   functions of their parameters; this file gives the TEXTS, as functions of the same parameters;
   proofs/BuilderSourcesProofs.v shows that compile_text (model/Assembler.v) maps the one to the other.

   Conventions
     - [hexs b] is bytes.hex() (lower case, two digits per byte) and [dec z] is str(int): the functions
       Asm.hex / Asm.dec of the listing printer.  [X v] is the token x<hex> and [D z] the token d<decimal>.
     - A template is given by its list of whitespace-separated TOKENS, in the order of the real
       f-string, comments included; the text is the tokens joined by single blanks ([unwords]).  The
       real texts use newlines and indentation: only the tokens matter
       (TokenizerProofs.whitespace_irrelevant); every template is compared with the real .src on sample
       arguments in proofs/BuilderSourcesProofs.v (get_symbols of both texts, and the compiled bytes).
       [W "a b c"] is the token list of a literal piece of template text.
     - sigflags is a Python str interpolated as x{sigflags}; the builders are used with two hex digits:
       the parameter [fl : byte] stands for sigflags = hexs [fl] (lower case).
     - Integers computed by the builder (int(time())+timeout, hash_size, quorum_size, len(pubkeys)) are
       parameters.
     - "push ~! { push x<key> shake256 d<n> }" (make_single_sig_lock2, make_scripthash_lock,
       make_htlc2_sha256_lock, make_htlc2_shake256_lock) runs the block on the VM at compile time: the
       assembler model takes the VM as a parameter [ct] (model/Assembler.v).  For those builders the
       template is given both AS WRITTEN ([..._toks] / [..._src]) and AFTER parse_comptime, i.e. with
       the block replaced by the symbol x<hex of the top stack item>, the digest being a parameter
       (the definitions named ..._ct_...); proofs/BuilderSourcesProofs.v connects the two whenever ct
       of the assembled block returns the digest.
     - make_single_sig_witness, make_taproot_witness_keyspend and make_scripthash_witness all end with the
       one-push text push x<value> ([single_sig_witness_src] / [scripthash_witness_src]); the signing scripts that
       the witness builders run first are not part of the returned Script.
     - NOT covered: make_graftroot_lock ("@= k [ x<key> ]": the bracket form of set_variable is Unm in
       model/Assembler.v; the text is given as [graftroot_lock_src] and shown to be Unm),
       make_graftroot_witness_surrogate / make_graftap_witness_scriptspend ("push ~! { ... sign_stack }":
       a signature computed at compile time), the deprecated make_adapter_lock_pub / make_adapter_lock_prv. *)
From Coq Require Import ZArith List Bool String Ascii.
From Coq.Strings Require Import Byte.
From TS Require Import Bytes Asm Tokenizer.
Import ListNotations.
Local Open Scope string_scope.
Local Open Scope list_scope.

(* bytes.hex() and str(int) *)
Notation hexs := Asm.hex (only parsing).
(* [dec] is Asm.dec *)

(* the tokens x<hex> and d<decimal> *)
Definition X (v : bytes) : string := String "x" (hexs v).
Definition D (z : Z) : string := String "d" (dec z).
(* the tokens of a literal piece of template text *)
Definition W (text : string) : list string := split_py text.
(* the text of a template *)
Definition text_of (toks : list string) : string := unwords toks.

(* ---------- single signature ---------- *)

(* make_single_sig_lock:  f'push x{pubkey.hex()} check_sig x{sigflags}' *)
Definition single_sig_lock_toks (pk : bytes) (fl : byte) : list string :=
  ["push"; X pk; "check_sig"; X [fl]].
Definition single_sig_lock_src (pk : bytes) (fl : byte) : string := text_of (single_sig_lock_toks pk fl).

(* make_single_sig_lock2, after comptime (h = shake256(pubkey, 20)):
     dup shake256 d20  push ~! { push x{pubkey.hex()} shake256 d20 }  equal_verify  check_sig x{sigflags} *)
Definition single_sig_lock2_ct_toks (h : bytes) (fl : byte) : list string :=
  W "dup shake256 d20 push" ++ [X h] ++ W "equal_verify check_sig" ++ [X [fl]].
Definition single_sig_lock2_ct_src (h : bytes) (fl : byte) : string := text_of (single_sig_lock2_ct_toks h fl).
(* the text as written (outside the model: Unm) *)
Definition single_sig_lock2_toks (pk : bytes) (fl : byte) : list string :=
  W "dup shake256 d20 push ~! { push" ++ [X pk] ++ W "shake256 d20 } equal_verify check_sig" ++ [X [fl]].
Definition single_sig_lock2_src (pk : bytes) (fl : byte) : string := text_of (single_sig_lock2_toks pk fl).

(* make_single_sig_witness: f'push x{sig.hex()}';  make_single_sig_witness2: f'push x{sig.hex()} push x{pubkey.hex()}' *)
Definition push_toks (v : bytes) : list string := ["push"; X v].
Definition single_sig_witness_src (sig : bytes) : string := text_of (push_toks sig).
Definition single_sig_witness2_src (sig pk : bytes) : string := text_of (push_toks sig ++ push_toks pk).

(* ---------- multisig ----------
   for pk in pubkeys: src += f'push x{pk.hex()}\n'
   src += f'check_multisig x{sigflags} d{quorum_size} d{len(pubkeys)}' *)
Definition multisig_lock_toks (pks : list bytes) (fl : byte) (m : Z) : list string :=
  flat_map push_toks pks ++ ["check_multisig"; X [fl]; D m; D (Z.of_nat (List.length pks))].
Definition multisig_lock_src (pks : list bytes) (fl : byte) (m : Z) : string := text_of (multisig_lock_toks pks fl m).

(* ---------- timestamps ----------
   make_timestamp_after_lock:  f'push d{ts} check_timestamp_verify' / f'push d{ts} check_timestamp'
   make_timestamp_before_lock: f'push d{ts} check_timestamp not verify' / f'push d{ts} check_timestamp not'
   make_timestamp_between_lock: after(begin, True) + before(end, op_verify); Script.__add__ joins the two
   texts with a newline and CONCATENATES the two byte strings (the joined text is not compiled) *)
Definition ts_after_lock_toks (ts : Z) (ver : bool) : list string :=
  ["push"; D ts; if ver then "check_timestamp_verify" else "check_timestamp"].
Definition ts_before_lock_toks (ts : Z) (ver : bool) : list string :=
  ["push"; D ts; "check_timestamp"; "not"] ++ (if ver then ["verify"] else []).
Definition ts_between_lock_toks (t1 t2 : Z) (ver : bool) : list string :=
  ts_after_lock_toks t1 true ++ ts_before_lock_toks t2 ver.
Definition ts_after_lock_src (ts : Z) (ver : bool) : string := text_of (ts_after_lock_toks ts ver).
Definition ts_before_lock_src (ts : Z) (ver : bool) : string := text_of (ts_before_lock_toks ts ver).
Definition ts_between_lock_src (t1 t2 : Z) (ver : bool) : string := text_of (ts_between_lock_toks t1 t2 ver).

(* ---------- scripthash ----------
   make_scripthash_lock, after comptime (h = shake256(script, hashsize)):
     dup shake256 d{hashsize}  push ~! { push x{script.bytes.hex()} shake256 d{hashsize} }  equal_verify  eval
   make_scripthash_witness: f'push x{script.bytes.hex()}' *)
Definition scripthash_lock_ct_toks (h : bytes) (n : Z) : list string :=
  ["dup"; "shake256"; D n; "push"; X h; "equal_verify"; "eval"].
Definition scripthash_lock_ct_src (h : bytes) (n : Z) : string := text_of (scripthash_lock_ct_toks h n).
(* the run-time block  ~! { push x<v> shake256 d<k> } *)
Definition hash_block_toks (v : bytes) (k : Z) : list string :=
  ["~!"; "{"; "push"; X v; "shake256"; D k; "}"].
(* the text as written *)
Definition scripthash_lock_toks (script : bytes) (n : Z) : list string :=
  ["dup"; "shake256"; D n; "push"] ++ hash_block_toks script n ++ ["equal_verify"; "eval"].
Definition scripthash_lock_src (script : bytes) (n : Z) : string := text_of (scripthash_lock_toks script n).
Definition scripthash_witness_src (script : bytes) : string := text_of (push_toks script).

(* ---------- PTLC / HTLC ----------
   the common tail (ts = int(time()) + timeout):
     if { push x{receiver} } else { push d{ts} check_timestamp_verify push x{refund} } check_sig x{sigflags} *)
Definition refund_tail_toks (rcv : bytes) (ts : Z) (refund : bytes) (fl : byte) : list string :=
  W "if { push" ++ [X rcv] ++ W "} else { push" ++ [D ts] ++ W "check_timestamp_verify push" ++ [X refund]
  ++ W "} check_sig" ++ [X [fl]].
(* make_ptlc_lock *)
Definition ptlc_lock_toks := refund_tail_toks.
Definition ptlc_lock_src (rcv : bytes) (ts : Z) (refund : bytes) (fl : byte) : string :=
  text_of (ptlc_lock_toks rcv ts refund fl).
(* make_htlc_sha256_lock:  sha256 push x{digest} equal <tail> *)
Definition htlc_sha256_lock_toks (digest rcv : bytes) (ts : Z) (refund : bytes) (fl : byte) : list string :=
  ["sha256"; "push"; X digest; "equal"] ++ refund_tail_toks rcv ts refund fl.
Definition htlc_sha256_lock_src (digest rcv : bytes) (ts : Z) (refund : bytes) (fl : byte) : string :=
  text_of (htlc_sha256_lock_toks digest rcv ts refund fl).
(* make_htlc_shake256_lock:  shake256 d{hash_size} push x{digest} equal <tail> *)
Definition htlc_shake256_lock_toks (n : Z) (digest rcv : bytes) (ts : Z) (refund : bytes) (fl : byte)
  : list string :=
  ["shake256"; D n; "push"; X digest; "equal"] ++ refund_tail_toks rcv ts refund fl.
Definition htlc_shake256_lock_src (n : Z) (digest rcv : bytes) (ts : Z) (refund : bytes) (fl : byte) : string :=
  text_of (htlc_shake256_lock_toks n digest rcv ts refund fl).

(* make_htlc2_sha256_lock / make_htlc2_shake256_lock, after comptime (hr = shake256(receiver, k),
   hf = shake256(refund, k); k = 20 resp. hash_size):
     <first> push x{digest} equal
     if { dup shake256 d{k} push ~! { push x{receiver} shake256 d{k} } }
     else { push d{ts} check_timestamp_verify dup shake256 d{k} push ~! { push x{refund} shake256 d{k} } }
     equal_verify check_sig x{sigflags} *)
Definition htlc2_tail_ct_toks (k : Z) (digest hr : bytes) (ts : Z) (hf : bytes) (fl : byte) : list string :=
  ["push"; X digest] ++ W "equal if { dup shake256" ++ [D k; "push"; X hr] ++ W "} else { push" ++ [D ts]
  ++ W "check_timestamp_verify dup shake256" ++ [D k; "push"; X hf] ++ W "} equal_verify check_sig" ++ [X [fl]].
Definition htlc2_sha256_lock_ct_toks (digest hr : bytes) (ts : Z) (hf : bytes) (fl : byte) : list string :=
  "sha256" :: htlc2_tail_ct_toks 20 digest hr ts hf fl.
Definition htlc2_shake256_lock_ct_toks (n : Z) (digest hr : bytes) (ts : Z) (hf : bytes) (fl : byte)
  : list string :=
  "shake256" :: D n :: htlc2_tail_ct_toks n digest hr ts hf fl.
(* the texts as written (rcv, refund: the public keys) *)
Definition htlc2_tail_toks (k : Z) (digest rcv : bytes) (ts : Z) (refund : bytes) (fl : byte) : list string :=
  ["push"; X digest] ++ W "equal if { dup shake256" ++ [D k; "push"] ++ hash_block_toks rcv k
  ++ W "} else { push" ++ [D ts] ++ W "check_timestamp_verify dup shake256" ++ [D k; "push"]
  ++ hash_block_toks refund k ++ W "} equal_verify check_sig" ++ [X [fl]].
Definition htlc2_sha256_lock_toks (digest rcv : bytes) (ts : Z) (refund : bytes) (fl : byte) : list string :=
  "sha256" :: htlc2_tail_toks 20 digest rcv ts refund fl.
Definition htlc2_shake256_lock_toks (n : Z) (digest rcv : bytes) (ts : Z) (refund : bytes) (fl : byte)
  : list string :=
  "shake256" :: D n :: htlc2_tail_toks n digest rcv ts refund fl.
Definition htlc2_sha256_lock_src (digest rcv : bytes) (ts : Z) (refund : bytes) (fl : byte) : string :=
  text_of (htlc2_sha256_lock_toks digest rcv ts refund fl).
Definition htlc2_shake256_lock_src (n : Z) (digest rcv : bytes) (ts : Z) (refund : bytes) (fl : byte) : string :=
  text_of (htlc2_shake256_lock_toks n digest rcv ts refund fl).
Definition htlc2_sha256_lock_ct_src (digest hr : bytes) (ts : Z) (hf : bytes) (fl : byte) : string :=
  text_of (htlc2_sha256_lock_ct_toks digest hr ts hf fl).
Definition htlc2_shake256_lock_ct_src (n : Z) (digest hr : bytes) (ts : Z) (hf : bytes) (fl : byte) : string :=
  text_of (htlc2_shake256_lock_ct_toks n digest hr ts hf fl).

(* make_htlc_witness: push x{sig} push x{preimage};  make_htlc2_witness: push x{sig} push x{pubkey} push x{preimage} *)
Definition htlc_witness_src (sig preimage : bytes) : string := text_of (push_toks sig ++ push_toks preimage).
Definition htlc2_witness_src (sig pk preimage : bytes) : string :=
  text_of (push_toks sig ++ push_toks pk ++ push_toks preimage).
(* make_ptlc_witness: with a tweak scalar f'push x{sig.hex()}{sigflags} true';
   without: make_single_sig_witness(...) + Script.from_src('true');
   make_ptlc_refund_witness / make_graftroot_witness_keyspend: make_single_sig_witness(...) + 'false' *)
Definition ptlc_witness_tweak_src (sig : bytes) (fl : byte) : string :=
  text_of ["push"; String "x" (hexs sig ++ hexs [fl]); "true"].
Definition sig_then_src (sig : bytes) (flag : bool) : string :=
  text_of (push_toks sig ++ [if flag then "true" else "false"]).

(* ---------- taproot, merkle ---------- *)

(* make_taproot_lock: f'push x{root.hex()} tr x{sigflags}' *)
Definition taproot_lock_toks (root : bytes) (fl : byte) : list string := ["push"; X root; "tr"; X [fl]].
Definition taproot_lock_src (root : bytes) (fl : byte) : string := text_of (taproot_lock_toks root fl).
(* make_taproot_witness_keyspend: f'push x{sig.hex()}' ;
   make_taproot_witness_scriptspend: f'push x{committed_script.bytes.hex()} push x{pubkey.hex()}' *)
Definition taproot_witness_scriptspend_src (script pk : bytes) : string :=
  text_of (push_toks script ++ push_toks pk).

(* ScriptNode.locking_script: f'OP_MERKLEVAL x{self.root().hex()}' *)
Definition merkle_lock_toks (root : bytes) : list string := ["OP_MERKLEVAL"; X root].
Definition merkle_lock_src (root : bytes) : string := text_of (merkle_lock_toks root).
(* ScriptLeaf / ScriptNode.unlocking_script, one level: f'push x{commitment.hex()}\npush x{script.hex()}' *)
Definition unlock_piece_src (commitment script : bytes) : string :=
  text_of (push_toks commitment ++ push_toks script).

(* make_nonnative_taproot_lock *)
Definition nonnative_taproot_lock_toks (root : bytes) (fl : byte) : list string :=
  W "def 0 { push" ++ [X root] ++
  W "} if ( dup size push d32 equal ) { # stack: script, internal pubkey # dup swap d0 d2 dup swap d1 d3 sha256 cat sha256 clamp_scalar x00 derive_point add_points d2 call d0 eqv eval } else { # stack: signature # call d0 check_sig"
  ++ [X [fl]; "}"].
Definition nonnative_taproot_lock_src (root : bytes) (fl : byte) : string :=
  text_of (nonnative_taproot_lock_toks root fl).

(* ---------- adapters ----------
   make_adapter_locks_pub: script1, and script2 (called script3 by make_adapter_locks_prv) = a comment and
   the text of make_single_sig_lock;  make_adapter_decrypt;  make_adapter_witness *)
Definition adapter_check_lock_toks (fl : byte) (tweak_point pk : bytes) : list string :=
  W "# required push by unlocking script: signature adapter sa # # required push by unlocking script: nonce point R # get_message"
  ++ [X [fl]; "push"; X tweak_point; "push"; X pk; "check_adapter_sig"].
Definition adapter_check_lock_src (fl : byte) (tweak_point pk : bytes) : string :=
  text_of (adapter_check_lock_toks fl tweak_point pk).
Definition adapter_sig_lock_toks (pk : bytes) (fl : byte) : list string :=
  W "# required push by unlocking script: decrypted signature #" ++ single_sig_lock_toks pk fl.
Definition adapter_sig_lock_src (pk : bytes) (fl : byte) : string := text_of (adapter_sig_lock_toks pk fl).
Definition adapter_decrypt_toks (t : bytes) : list string := ["push"; X t; "decrypt_adapter_sig"].
Definition adapter_decrypt_src (t : bytes) : string := text_of (adapter_decrypt_toks t).
Definition adapter_witness_src (sa R : bytes) : string := text_of (push_toks sa ++ push_toks R).

(* ---------- delegated keys ---------- *)

(* make_delegate_key_lock *)
Definition delegate_key_lock_toks (root : bytes) (fl : byte) : list string :=
  W "# required push: signature from delegate key # # required push: cert of form: delegate public key + begin ts + end ts + can + sig # push d41 split @= s 1 # sig # dup push d40 split pop0 # can # push d36 split @= e 1 # end ts # push d32 split @= b 1 @= d 1 # begin ts and delegate pubkey # # prove the timestamp is within the cert bounds # # val s""timestamp"" dup @b less verify # # @e swap2 less verify # @b check_timestamp_verify @e check_timestamp not verify @s swap2 push"
  ++ [X root] ++ W "check_sig_stack verify @d check_sig" ++ [X [fl]].
Definition delegate_key_lock_src (root : bytes) (fl : byte) : string := text_of (delegate_key_lock_toks root fl).
(* make_delegate_key_witness: push x{sig} push x{cert} *)
Definition delegate_key_witness_src (sig cert : bytes) : string := text_of (push_toks sig ++ push_toks cert).

(* make_delegate_key_chain_lock *)
Definition delegate_key_chain_lock_toks (root : bytes) (fl : byte) : list string :=
  W "def 0 { # required push: signature from delegate key or additional cert # # required push: cert of form: delegate public key + begin ts + end ts ts + can + sig # # required push: authorizing pubkey # @= r 1 # authorizing pubkey # push d41 split @= s 1 # sig # dup push d40 split @= c 1 # can delegate further # push d36 split @= e 1 # end ts ts # push d32 split @= b 1 @= d 1 # begin ts and delegate pubkey # # prove the timestamp is within the cert bounds # # val s""timestamp"" dup @b less verify # # @e swap2 less verify # @b check_timestamp_verify @e check_timestamp not verify @s swap2 @r check_sig_stack verify if ( @c and ) { @d call d0 } else { @d check_sig"
  ++ [X [fl]] ++ W "} } push" ++ [X root] ++ W "call d0".
Definition delegate_key_chain_lock_src (root : bytes) (fl : byte) : string :=
  text_of (delegate_key_chain_lock_toks root fl).
(* make_delegate_key_chain_witness:
     f'push x{sig.hex()} false\npush ' + ' true\npush '.join([f'x{c.hex()}' for c in certs])
   with certs = c0 :: cs (an empty list gives the text "push x<sig> false push": rejected by the compiler) *)
Definition delegate_key_chain_witness_toks (sig c0 : bytes) (cs : list bytes) : list string :=
  push_toks sig ++ "false" :: push_toks c0 ++ flat_map (fun c => "true" :: push_toks c) cs.
Definition delegate_key_chain_witness_src (sig c0 : bytes) (cs : list bytes) : string :=
  text_of (delegate_key_chain_witness_toks sig c0 cs).

(* ---------- graftroot (outside the model) ----------
   make_graftroot_lock: "@= k [ x{pubkey} ] if { dup swap d1 d2 @k check_sig_stack verify eval } else { @k check_sig x{sigflags} }" *)
Definition graftroot_lock_toks (pk : bytes) (fl : byte) : list string :=
  W "@= k [" ++ [X pk] ++ W "] if { dup swap d1 d2 @k check_sig_stack verify eval } else { @k check_sig" ++ [X [fl]; "}"].
Definition graftroot_lock_src (pk : bytes) (fl : byte) : string := text_of (graftroot_lock_toks pk fl).
(* _make_graftap_committed_script: dup swap d1 d2 push x{pubkey} check_sig_stack verify eval *)
Definition graftap_committed_toks (pk : bytes) : list string :=
  W "dup swap d1 d2 push" ++ [X pk] ++ W "check_sig_stack verify eval".
Definition graftap_committed_src (pk : bytes) : string := text_of (graftap_committed_toks pk).
