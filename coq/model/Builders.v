(* The bytes produced by the lock / witness builders of tapescript/tools.py, as functions of their
   parameters, written through the documented encoding (Asm.encode).  Definitions only; tied to the real
   builders by the correspondence run (driver command BLD).  Values that the Python builders compute with
   unmodelled functions (hash digests, int_to_bytes(timestamp), curve points) are parameters. *)
From Coq Require Import ZArith List Bool.
From Coq.Strings Require Import Byte.
From TS Require Import Bytes Ops Asm.
Import ListNotations.

Definition P1 (v : bytes) : instr := IVar1 O_PUSH1 v.           (* OP_PUSH1 <len> <v> (2 <= len v <= 255, or 0) *)
Definition P0 (b : byte) : instr := IOp1 O_PUSH0 b.
Definition WC (k : bytes) (n : byte) : instr := IWriteCache k n.
Definition RC (k : bytes) : instr := IVar1 O_READ_CACHE k.

(* make_single_sig_lock / witness *)
Definition single_sig_lock (pk : bytes) (fl : byte) : bytes := encode [P1 pk; IOp1 O_CHECK_SIG fl].
Definition single_sig_witness (sig : bytes) : bytes := encode [P1 sig].
(* make_single_sig_lock2 (h = shake256(pk, 20)) / witness2 *)
Definition single_sig_lock2 (h : bytes) (fl : byte) : bytes :=
  encode [IOp0 O_DUP; IOp1 O_SHAKE256 x14; P1 h; IOp0 O_EQUAL_VERIFY; IOp1 O_CHECK_SIG fl].
Definition single_sig_witness2 (sig pk : bytes) : bytes := encode [P1 sig; P1 pk].
(* make_multisig_lock *)
Definition multisig_lock (pks : list bytes) (fl m : byte) : bytes :=
  encode (map P1 pks ++ [IMultisig O_CHECK_MULTISIG fl m (z2b (Z.of_nat (List.length pks)))]).
(* make_timestamp_*_lock (c = int_to_bytes(ts)) *)
Definition ts_after_lock (c : bytes) (ver : bool) : bytes :=
  encode [P1 c; IOp0 (if ver then O_CHECK_TIMESTAMP_VERIFY else O_CHECK_TIMESTAMP)].
Definition ts_before_lock (c : bytes) (ver : bool) : bytes :=
  encode ([P1 c; IOp0 O_CHECK_TIMESTAMP; IOp0 O_NOT] ++ (if ver then [IOp0 O_VERIFY] else [])).
Definition ts_between_lock (c1 c2 : bytes) (ver : bool) : bytes := ts_after_lock c1 true ++ ts_before_lock c2 ver.
(* make_scripthash_lock (h = shake256(script, n)) / witness *)
Definition scripthash_lock (h : bytes) (n : byte) : bytes :=
  encode [IOp0 O_DUP; IOp1 O_SHAKE256 n; P1 h; IOp0 O_EQUAL_VERIFY; IOp0 O_EVAL].
Definition scripthash_witness (script : bytes) : instr := P1 script.
(* make_ptlc_lock (c = int_to_bytes(now + timeout)) *)
Definition refund_arm (c refund : bytes) : list instr := [P1 c; IOp0 O_CHECK_TIMESTAMP_VERIFY; P1 refund].
Definition ptlc_lock (rcv c refund : bytes) (fl : byte) : bytes :=
  encode [IIfElse [P1 rcv] (refund_arm c refund); IOp1 O_CHECK_SIG fl].
(* make_htlc_sha256_lock / make_htlc_shake256_lock *)
Definition htlc_sha256_lock (digest rcv c refund : bytes) (fl : byte) : bytes :=
  encode [IOp0 O_SHA256; P1 digest; IOp0 O_EQUAL; IIfElse [P1 rcv] (refund_arm c refund); IOp1 O_CHECK_SIG fl].
Definition htlc_shake256_lock (n : byte) (digest rcv c refund : bytes) (fl : byte) : bytes :=
  encode [IOp1 O_SHAKE256 n; P1 digest; IOp0 O_EQUAL; IIfElse [P1 rcv] (refund_arm c refund); IOp1 O_CHECK_SIG fl].
(* make_htlc2_* : keys committed by hash (hr = shake256(rcv, k), hf = shake256(refund, k)) *)
Definition htlc2_lock (first : instr) (k : byte) (digest hr c hf : bytes) (fl : byte) : bytes :=
  encode [first; P1 digest; IOp0 O_EQUAL;
          IIfElse [IOp0 O_DUP; IOp1 O_SHAKE256 k; P1 hr]
                  [P1 c; IOp0 O_CHECK_TIMESTAMP_VERIFY; IOp0 O_DUP; IOp1 O_SHAKE256 k; P1 hf];
          IOp0 O_EQUAL_VERIFY; IOp1 O_CHECK_SIG fl].
Definition htlc2_sha256_lock := htlc2_lock (IOp0 O_SHA256) x14.
Definition htlc2_shake256_lock (n : byte) := htlc2_lock (IOp1 O_SHAKE256 n) n.
(* make_delegate_key_lock *)
Definition ck (s : bytes) : bytes := s.
Definition delegate_key_lock (root : bytes) (fl : byte) : bytes :=
  encode [P0 x29; IOp0 O_SPLIT; WC [x73] x01; IOp0 O_DUP; P0 x28; IOp0 O_SPLIT; IOp0 O_POP0;
          P0 x24; IOp0 O_SPLIT; WC [x65] x01; P0 x20; IOp0 O_SPLIT; WC [x62] x01; WC [x64] x01;
          RC [x62]; IOp0 O_CHECK_TIMESTAMP_VERIFY; RC [x65]; IOp0 O_CHECK_TIMESTAMP; IOp0 O_NOT; IOp0 O_VERIFY;
          RC [x73]; IOp0 O_SWAP2; P1 root; IOp0 O_CHECK_SIG_STACK; IOp0 O_VERIFY; RC [x64]; IOp1 O_CHECK_SIG fl].
Definition delegate_key_witness (sig cert : bytes) : bytes := encode [P1 sig; P1 cert].
(* make_graftroot_lock *)
Definition graftroot_lock (pk : bytes) (fl : byte) : bytes :=
  encode [P1 pk; WC [x6b] x01;
          IIfElse [IOp0 O_DUP; ISwap x01 x02; RC [x6b]; IOp0 O_CHECK_SIG_STACK; IOp0 O_VERIFY; IOp0 O_EVAL]
                  [RC [x6b]; IOp1 O_CHECK_SIG fl]].
(* make_taproot_lock (root computed by the builder) *)
Definition taproot_lock (root : bytes) (fl : byte) : bytes := encode [P1 root; IOp1 O_TAPROOT fl].
(* ScriptNode.locking_script *)
Definition merkle_lock (root : bytes) : bytes := encode [IFix O_MERKLEVAL root].
(* make_adapter_locks_pub: script1 (check adapter) ; make_adapter_decrypt *)
Definition adapter_check_lock (fl : byte) (tweak_point pk : bytes) : bytes :=
  encode [IOp1 O_GET_MESSAGE fl; P1 tweak_point; P1 pk; IOp0 O_CHECK_ADAPTER_SIG].
Definition adapter_decrypt (t : bytes) : bytes := encode [P1 t; IOp0 O_DECRYPT_ADAPTER_SIG].

(* make_nonnative_taproot_lock (root computed by the builder) *)
(* def 0 { push x<root> } *)
Definition nn_def (root : bytes) : instr := IDef x00 [P1 root].
(* the script-path arm *)
Definition nn_script_arm : list instr :=
  [IOp0 O_DUP; ISwap x00 x02; IOp0 O_DUP; ISwap x01 x03; IOp0 O_SHA256; IOp0 O_CONCAT; IOp0 O_SHA256;
   IOp1 O_CLAMP_SCALAR x00; IOp0 O_DERIVE_POINT; IOp1 O_ADD_POINTS x02; IOp1 O_CALL x00;
   IOp0 O_EQUAL_VERIFY; IOp0 O_EVAL].
(* the key-path arm *)
Definition nn_key_arm (fl : byte) : list instr := [IOp1 O_CALL x00; IOp1 O_CHECK_SIG fl].
(* "if ( cond ) { a } else { b }" compiles to  cond ; OP_IF_ELSE a b ; "push d32" compiles to OP_PUSH0 x20 *)
Definition nonnative_taproot_lock (root : bytes) (fl : byte) : bytes :=
  encode [nn_def root; IOp0 O_DUP; IOp0 O_SIZE; P0 x20; IOp0 O_EQUAL; IIfElse nn_script_arm (nn_key_arm fl)].

(* make_delegate_key_chain_lock / make_delegate_key_chain_witness *)
Definition chain_call_arm : list instr := [RC [x64]; IOp1 O_CALL x00].
Definition chain_sig_arm (fl : byte) : list instr := [RC [x64]; IOp1 O_CHECK_SIG fl].
Definition chain_body (fl : byte) : list instr :=
  [WC [x72] x01;
   P0 x29; IOp0 O_SPLIT; WC [x73] x01;
   IOp0 O_DUP;
   P0 x28; IOp0 O_SPLIT; WC [x63] x01;
   P0 x24; IOp0 O_SPLIT; WC [x65] x01;
   P0 x20; IOp0 O_SPLIT; WC [x62] x01; WC [x64] x01;
   RC [x62]; IOp0 O_CHECK_TIMESTAMP_VERIFY;
   RC [x65]; IOp0 O_CHECK_TIMESTAMP; IOp0 O_NOT; IOp0 O_VERIFY;
   RC [x73]; IOp0 O_SWAP2; RC [x72]; IOp0 O_CHECK_SIG_STACK; IOp0 O_VERIFY;
   RC [x63]; IOp0 O_AND;
   IIfElse chain_call_arm (chain_sig_arm fl)].

Definition delegate_key_chain_lock (root : bytes) (fl : byte) : bytes :=
  encode [IDef x00 (chain_body fl); P1 root; IOp1 O_CALL x00].

(* make_delegate_key_chain_witness(prvkey, certs, ...): "push sig ; false ; push certs[0] ; true ; push certs[1] ; ..."
   ([c0 :: cs] is the Python list: c0 authorises the signing key, the LAST one is signed by the root) *)
Definition delegate_key_chain_witness (sig c0 : bytes) (cs : list bytes) : bytes :=
  encode (P1 sig :: IOp0 O_FALSE :: P1 c0 :: flat_map (fun c => [IOp0 O_TRUE; P1 c]) cs).

