(* From SOURCE TEXT to symbols: tapescript/parsing.py get_symbols, and compile_script as
   get_symbols followed by assemble (model/Assembler.v).  Executable definitions only; theorems are in
   proofs/TokenizerProofs.v.

     def get_symbols(script):
         splits = [s for s in script.split()]; splits.reverse(); symbols = []
         while len(splits):
             token = splits.pop()
             if token[:2] in (s+DQ, s+SQ):                     -- a string value (DQ, SQ: the quotes)
                 quote = token[1]
                 found = quote in token[3:]                     -- (T1) token[3:], not token[2:]
                 parts = [token]
                 while not found and len(splits):
                     next = splits.pop(); parts.append(next)
                     if quote in next: found = True
                 yert(found, 'unterminated string encountered')
                 symbols.append(' '.join(parts))                -- (T2) joined with ONE space
             elif token[0] not in ('s','d','x','!','@'): symbols.append(token.upper())
             elif token[0] == 'd' and not token[1:].isnumeric(): symbols.append(token.upper())
             elif token[0] == 'x' and not is_hex(token[1:]):     symbols.append(token.upper())
             elif token[0] == 's' and token[1] not in (DQ, SQ): symbols.append(token.upper())    -- (T3)
             elif token[:2] in ('@=', '!='):
                 symbols.append(token); symbols.append(splits.pop())                              -- (T4)
             else: symbols.append(token)
         return symbols

   The text is a Coq string, i.e. a sequence of BYTES; a Python str is a sequence of code points.
   A text with a byte >= 128 is outside the model (Unm): str.split() also splits at U+0085, U+00A0
   and other Unicode blanks, str.upper / isnumeric are modelled for ASCII only.

   ODDITIES OF get_symbols (each checked against the real code):
     T1  the closing quote of a string value is looked for from the FOURTH character of the first
         token on: s"" (the empty string) and s"" followed by more text never close there, the
         following tokens are swallowed up to the next one containing the quote (or SyntaxError
         "unterminated string"); the empty string value cannot be written.
     T2  the parts of a string value are re-joined with single spaces: every run of blanks, tabs or
         newlines inside a string value becomes ONE space (a string value written with two blanks
         between a and b is the 3-byte string a b).
     T3  the token "s" alone raises IndexError (token[1]), not SyntaxError.
     T4  every token STARTING WITH "@=" or "!=" (e.g. "@=x") takes the next token unchanged as a
         symbol; IndexError when it is the last token.
     T5  after the closing quote anything may follow in the same token (s"a"b is one symbol; the
         helpers of the assembler ignore what follows the second quote). *)
From Coq Require Import ZArith List Bool NArith String Ascii.
From Coq.Strings Require Import Byte.
From TS Require Import Bytes Codec Ops Names Asm Tables Assembler.
Import ListNotations.
Local Open Scope string_scope.
Local Open Scope list_scope.

(* ---------- str.split() ---------- *)

(* the ASCII characters for which str.isspace() holds: \t \n \x0b \x0c \r, \x1c..\x1f, space *)
Definition is_ws (c : ascii) : bool :=
  let n := N_of_ascii c in
  (n =? 32)%N || ((9 <=? n)%N && (n <=? 13)%N) || ((28 <=? n)%N && (n <=? 31)%N).

Definition cons_tok (w : string) (ts : list string) : list string :=
  match w with EmptyString => ts | _ => w :: ts end.
(* (the word being read at the start of s, the words after it) *)
Fixpoint split_go (s : string) : string * list string :=
  match s with
  | EmptyString => (EmptyString, [])
  | String c t =>
    let '(w, ts) := split_go t in
    if is_ws c then (EmptyString, cons_tok w ts) else (String c w, ts)
  end.
Definition split_py (s : string) : list string := let '(w, ts) := split_go s in cons_tok w ts.

(* ---------- the loop ---------- *)

(* q in s *)
Fixpoint has_char (q : ascii) (s : string) : bool :=
  match s with EmptyString => false | String c t => Ascii.eqb c q || has_char q t end.

(* token[:2] is s + a quote: the quote *)
Definition str_start (t : string) : option ascii :=
  match t with
  | String c0 (String c1 _) =>
    if Ascii.eqb c0 "s" && (Ascii.eqb c1 dquote || Ascii.eqb c1 squote) then Some c1 else None
  | _ => None
  end.
(* token[:2] in ('@=', '!=') *)
Definition takes_next (t : string) : bool := is_prefix "@=" t || is_prefix "!=" t.

(* what the loop is doing when it pops the next token *)
Inductive gstate :=
| GNormal
| GInStr (quote : ascii) (parts : string)   (* inside a string value: ' '.join(parts) so far *)
| GTakeNext.                                 (* after @= / !=: the next token is taken as it is *)

(* an ordinary token (not a string start, not @= / !=): the casing branches; "s" alone: IndexError *)
Definition ordinary (t : string) : res string :=
  if String.eqb t "s" then Err else Ok (norm_token t).

Fixpoint gs_loop (st : gstate) (toks : list string) : res (list string) :=
  match toks with
  | [] =>
    match st with
    | GNormal => Ok []
    | GInStr _ _ => Err          (* yert(found, 'unterminated string encountered') *)
    | GTakeNext => Err           (* splits.pop(): IndexError *)
    end
  | t :: r =>
    match st with
    | GInStr q acc =>
      let acc' := (acc ++ String " " t)%string in
      if has_char q t then rbind (gs_loop GNormal r) (fun l => Ok (acc' :: l))
      else gs_loop (GInStr q acc') r
    | GTakeNext => rbind (gs_loop GNormal r) (fun l => Ok (t :: l))
    | GNormal =>
      match str_start t with
      | Some q =>
        if has_char q (sdrop 3 t) then rbind (gs_loop GNormal r) (fun l => Ok (t :: l))
        else gs_loop (GInStr q t) r
      | None =>
        if takes_next t then rbind (gs_loop GTakeNext r) (fun l => Ok (t :: l))
        else rbind (ordinary t) (fun s => rbind (gs_loop GNormal r) (fun l => Ok (s :: l)))
      end
    end
  end.

Definition all_ascii (s : string) : bool := sall (fun c => (N_of_ascii c <? 128)%N) s.

Definition get_symbols (text : string) : res (list string) :=
  if all_ascii text then gs_loop GNormal (split_py text) else Unm.

(* compile_script(script) = assemble(get_symbols(script), macros={}): assemble starts with
   parse_comptime, which assemble_r treats as the identity / Unm *)
Definition compile_text (fl2 : Z -> Z) (text : string) : res bytes :=
  rbind (get_symbols text) (assemble_r fl2).
