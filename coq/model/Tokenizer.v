(* From SOURCE TEXT to symbols: tapescript/parsing.py get_symbols.  This file comes BEFORE
   model/Assembler.v (macro invocations re-tokenise the instantiated template): it also holds the
   result type [res], the character / string helpers and [norm_token]; compile_script
   ([compile_text] = get_symbols then assemble_r) is defined at the end of model/Assembler.v.
   Executable definitions only; theorems are in proofs/TokenizerProofs.v.

     def get_symbols(script):
         splits = [s for s in script.split()]; splits.reverse(); symbols = []
         while len(splits):
             token = splits.pop()
             if token[:2] in (s+DQ, s+SQ):                     -- a string value (DQ, SQ: the quotes)
                 quote = token[1]
                 found = quote in token[3:]                     -- (T1) token[3:], not token[2:]
                 parts = [token]
                 while not found and len(splits):
                     next = splits.pop(); parts.append(next)
                     if quote in next: found = True
                 yert(found, 'unterminated string encountered')
                 symbols.append(' '.join(parts))                -- (T2) joined with ONE space
             elif token[0] not in ('s','d','x','!','@'): symbols.append(token.upper())
             elif token[0] == 'd' and not token[1:].isnumeric(): symbols.append(token.upper())
             elif token[0] == 'x' and not is_hex(token[1:]):     symbols.append(token.upper())
             elif token[0] == 's' and token[1] not in (DQ, SQ): symbols.append(token.upper())    -- (T3)
             elif token[:2] in ('@=', '!='):
                 symbols.append(token); symbols.append(splits.pop())                              -- (T4)
             else: symbols.append(token)
         return symbols

   The text is a Coq string, i.e. a sequence of BYTES; a Python str is a sequence of code points.
   A text with a byte >= 128 is outside the model (Unm): str.split() also splits at U+0085, U+00A0
   and other Unicode blanks, str.upper / isnumeric are modelled for ASCII only.

   ODDITIES OF get_symbols (each checked against the real code):
     T1  the closing quote of a string value is looked for from the FOURTH character of the first
         token on: s"" (the empty string) and s"" followed by more text never close there, the
         following tokens are swallowed up to the next one containing the quote (or SyntaxError
         "unterminated string"); the empty string value cannot be written.
     T2  the parts of a string value are re-joined with single spaces: every run of blanks, tabs or
         newlines inside a string value becomes ONE space (a string value written with two blanks
         between a and b is the 3-byte string a b).
     T3  the token "s" alone raises IndexError (token[1]), not SyntaxError.
     T4  every token STARTING WITH "@=" or "!=" (e.g. "@=x") takes the next token unchanged as a
         symbol; IndexError when it is the last token.
     T5  after the closing quote anything may follow in the same token (s"a"b is one symbol; the
         helpers of the assembler ignore what follows the second quote). *)
From Coq Require Import ZArith List Bool NArith String Ascii.
From Coq.Strings Require Import Byte.
From TS Require Import Bytes Asm.
Import ListNotations.
Local Open Scope string_scope.
Local Open Scope list_scope.

(* ---------- result type ---------- *)

Inductive res (A : Type) : Type :=
| Ok (a : A)
| Err          (* the Python raises *)
| Unm.         (* not modelled *)
Arguments Ok {A} a.
Arguments Err {A}.
Arguments Unm {A}.

Definition rbind {A B : Type} (r : res A) (f : A -> res B) : res B :=
  match r with Ok a => f a | Err => Err | Unm => Unm end.
Definition of_opt {A : Type} (o : option A) : res A :=
  match o with Some a => Ok a | None => Err end.

(* ---------- characters and strings (ASCII) ---------- *)

Definition asc_between (lo hi : N) (c : ascii) : bool :=
  let n := N_of_ascii c in (lo <=? n)%N && (n <=? hi)%N.
Definition is_digit (c : ascii) : bool := asc_between 48 57 c.
Definition is_upper (c : ascii) : bool := asc_between 65 90 c.
Definition is_lower (c : ascii) : bool := asc_between 97 122 c.
Definition is_alnum_c (c : ascii) : bool := is_digit c || is_upper c || is_lower c.
Definition lower_c (c : ascii) : ascii :=
  if is_upper c then ascii_of_N (N_of_ascii c + 32) else c.
Definition upper_c (c : ascii) : ascii :=
  if is_lower c then ascii_of_N (N_of_ascii c - 32) else c.

Fixpoint smap (f : ascii -> ascii) (s : string) : string :=
  match s with EmptyString => EmptyString | String c t => String (f c) (smap f t) end.
Definition lower_s : string -> string := smap lower_c.
Definition upper_s : string -> string := smap upper_c.

Fixpoint sall (f : ascii -> bool) (s : string) : bool :=
  match s with EmptyString => true | String c t => f c && sall f t end.
Definition nonempty (s : string) : bool := match s with EmptyString => false | _ => true end.

(* str.isnumeric / str.isalnum on ASCII strings *)
Definition isnumeric (s : string) : bool := nonempty s && sall is_digit s.
Definition isalnum (s : string) : bool := nonempty s && sall is_alnum_c s.
(* printable ASCII without the space: the characters that can occur in a symbol outside s-values
   (str.split() has removed every kind of whitespace) *)
Definition plain_c (c : ascii) : bool := let n := N_of_ascii c in (32 <? n)%N && (n <? 128)%N.
Definition is_ascii_s (s : string) : bool := sall plain_c s.

Definition is_prefix (p s : string) : bool := String.prefix p s.
Fixpoint sdrop (n : nat) (s : string) : string :=
  match n, s with S k, String _ t => sdrop k t | _, _ => s end.


Definition dquote : ascii := """"%char.
Definition squote : ascii := "'"%char.

(* ---------- the per-token casing rule of get_symbols (tokens that are not string literals) ----------
     token[0] not in ('s','d','x','!','@')           -> upper
     d and not token[1:].isnumeric()                 -> upper
     x and not is_hex(token[1:])                     -> upper   (is_hex pads an odd length with a 0)
     s and token[1] not a double or single quote     -> upper
     else unchanged      ("@=" / "!=" also take the next token unchanged: not a per-token rule) *)
Definition is_hex_s (s : string) : bool :=
  sall (fun c => match unnib (lower_c c) with Some _ => true | None => false end) s.
Definition norm_token (t : string) : string :=
  match t with
  | EmptyString => t
  | String c r =>
    if Ascii.eqb c "d" then (if isnumeric r then t else upper_s t)
    else if Ascii.eqb c "x" then (if is_hex_s r then t else upper_s t)
    else if Ascii.eqb c "s" then
      match r with
      | String q _ => if Ascii.eqb q dquote || Ascii.eqb q squote then t else upper_s t
      | EmptyString => t       (* token[1]: IndexError in the Python; no such symbol is produced *)
      end
    else if Ascii.eqb c "!" || Ascii.eqb c "@" then t
    else upper_s t
  end.

(* ---------- str.split() ---------- *)

(* the ASCII characters for which str.isspace() holds: \t \n \x0b \x0c \r, \x1c..\x1f, space *)
Definition is_ws (c : ascii) : bool :=
  let n := N_of_ascii c in
  (n =? 32)%N || ((9 <=? n)%N && (n <=? 13)%N) || ((28 <=? n)%N && (n <=? 31)%N).

Definition cons_tok (w : string) (ts : list string) : list string :=
  match w with EmptyString => ts | _ => w :: ts end.
(* (the word being read at the start of s, the words after it) *)
Fixpoint split_go (s : string) : string * list string :=
  match s with
  | EmptyString => (EmptyString, [])
  | String c t =>
    let '(w, ts) := split_go t in
    if is_ws c then (EmptyString, cons_tok w ts) else (String c w, ts)
  end.
Definition split_py (s : string) : list string := let '(w, ts) := split_go s in cons_tok w ts.

(* ---------- the loop ---------- *)

(* q in s *)
Fixpoint has_char (q : ascii) (s : string) : bool :=
  match s with EmptyString => false | String c t => Ascii.eqb c q || has_char q t end.

(* token[:2] is s + a quote: the quote *)
Definition str_start (t : string) : option ascii :=
  match t with
  | String c0 (String c1 _) =>
    if Ascii.eqb c0 "s" && (Ascii.eqb c1 dquote || Ascii.eqb c1 squote) then Some c1 else None
  | _ => None
  end.
(* token[:2] in ('@=', '!=') *)
Definition takes_next (t : string) : bool := is_prefix "@=" t || is_prefix "!=" t.

(* what the loop is doing when it pops the next token *)
Inductive gstate :=
| GNormal
| GInStr (quote : ascii) (parts : string)   (* inside a string value: ' '.join(parts) so far *)
| GTakeNext.                                 (* after @= / !=: the next token is taken as it is *)

(* an ordinary token (not a string start, not @= / !=): the casing branches; "s" alone: IndexError *)
Definition ordinary (t : string) : res string :=
  if String.eqb t "s" then Err else Ok (norm_token t).

Fixpoint gs_loop (st : gstate) (toks : list string) : res (list string) :=
  match toks with
  | [] =>
    match st with
    | GNormal => Ok []
    | GInStr _ _ => Err          (* yert(found, 'unterminated string encountered') *)
    | GTakeNext => Err           (* splits.pop(): IndexError *)
    end
  | t :: r =>
    match st with
    | GInStr q acc =>
      let acc' := (acc ++ String " " t)%string in
      if has_char q t then rbind (gs_loop GNormal r) (fun l => Ok (acc' :: l))
      else gs_loop (GInStr q acc') r
    | GTakeNext => rbind (gs_loop GNormal r) (fun l => Ok (t :: l))
    | GNormal =>
      match str_start t with
      | Some q =>
        if has_char q (sdrop 3 t) then rbind (gs_loop GNormal r) (fun l => Ok (t :: l))
        else gs_loop (GInStr q t) r
      | None =>
        if takes_next t then rbind (gs_loop GTakeNext r) (fun l => Ok (t :: l))
        else rbind (ordinary t) (fun s => rbind (gs_loop GNormal r) (fun l => Ok (s :: l)))
      end
    end
  end.

Definition all_ascii (s : string) : bool := sall (fun c => (N_of_ascii c <? 128)%N) s.

Definition get_symbols (text : string) : res (list string) :=
  if all_ascii text then gs_loop GNormal (split_py text) else Unm.

