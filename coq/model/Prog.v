(* Primitive (unmodelled) functions, the action vocabulary and the program monad. *)
From Coq Require Import ZArith List Bool.
From Coq.Strings Require Import Byte String.
From TS Require Import Bytes State.
Import ListNotations.
Open Scope Z_scope.

(* functions that are NOT modelled: their results come from an oracle *)
Inductive prim :=
| PSha256 | PSha512 | PShake256        (* [data] ; [data] ; [data; n] *)
| PReduce                              (* crypto_core_ed25519_scalar_reduce *)
| PBaseMult                            (* crypto_scalarmult_ed25519_base_noclamp *)
| PMult                                (* crypto_scalarmult_ed25519_noclamp [n; p] *)
| PPointAdd | PPointSub | PScalarAdd | PScalarSub | PScalarMul
| PValidPoint                          (* -> [x01] / [x00] *)
| PSign                                (* [seed; msg] -> [sig64] *)
| PVerify                              (* [vkey; msg; sig] -> [x01] / [x00] *)
| PRandom                              (* [n; idx] -> [n random bytes] *)
| PLog2                                (* [a (big-endian)] -> [floor(log2 a) (big-endian)] *)
| PUtf8Valid                           (* [b] -> [x01] / [x00] *)
| PStrLen                              (* [b] -> [len(str(b,'utf-8'))] *)
| PStrSplit                            (* [b; idx] -> [part0; part1] *)
| PFUnpack | PFPack                    (* 4 bytes <-> 8 bytes (double) *)
| PFAdd | PFSub | PFDiv | PFMod | PFIsNan | PFLt | PFLe
| PI2F | PF2I.                         (* [int as signed big-endian] <-> [double] *)

Inductive ores := OOk (r : list bytes) | OErr (e : exn).
Definition oracle := prim -> list bytes -> ores.

Inductive subkind :=
| SubCopy     (* IF / IF_ELSE / TRY / EXCEPT body: same count, copy of the definitions *)
| SubEval.    (* EVAL: count + 1, copy of the definitions *)

Inductive action : Type -> Type :=
(* stack *)
| AGet : action bytes
| APut (b : bytes) : action unit
| APeek : action bytes
| ADepth : action Z
| ASwapIdx (i j : Z) : action unit
(* tape of the current activation *)
| ARead (n : Z) : action bytes
| ASetPtrEnd : action unit
| ACount : action Z
| ACountIncr : action unit
(* cache *)
| ACacheGet (k : ckey) : action (option cval)
| ACacheSet (k : bytes) (v : cval) : action unit     (* bytes keys only *)
| AReturnedSet : action unit
| AReturnedClear : action unit
| AReturnedTest : action bool
(* configuration *)
| AConfig : action config
(* unmodelled primitives *)
| APrim (p : prim) (args : list bytes) : action ores
| ARandIdx : action Z
(* definitions and sub-tapes *)
| ADefSet (h : byte) (data : bytes) : action unit
| ADefGet (h : byte) : action (option nat)
| ACallDef (tid : nat) : action unit
| ARunSub (k : subkind) (data : bytes) : action unit
| ATrySub (data : bytes) : action (option exn)
| ALoopNew (data : bytes) : action nat
| ARunLoop (tid : nat) : action unit
(* instrumentation *)
| ALog (e : event) : action unit.

Inductive prog (A : Type) : Type :=
| Ret (a : A)
| Raise (e : exn)
| Unmod (why : string)
| Act {X : Type} (a : action X) (k : X -> prog A).
Arguments Ret {A}. Arguments Raise {A}. Arguments Unmod {A}. Arguments Act {A X}.

Fixpoint bind {A B} (p : prog A) (f : A -> prog B) : prog B :=
  match p with
  | Ret a => f a
  | Raise e => Raise e
  | Unmod w => Unmod w
  | Act a k => Act a (fun x => bind (k x) f)
  end.

Declare Scope prog_scope.
Delimit Scope prog_scope with prog.
Notation "x <- p ;; q" := (bind p (fun x => q)) (at level 61, p at next level, right associativity) : prog_scope.
Notation "p ;; q" := (bind p (fun _ => q)) (at level 61, right associativity) : prog_scope.
Open Scope prog_scope.

Definition act {X} (a : action X) : prog X := Act a Ret.

(* sert / vert / tert *)
Definition sert (c : bool) : prog unit := if c then Ret tt else Raise ScriptExecutionError.
Definition vert (c : bool) : prog unit := if c then Ret tt else Raise ValueError.
Definition tert (c : bool) : prog unit := if c then Ret tt else Raise TypeError.

Definition get : prog bytes := act AGet.
Definition put (b : bytes) : prog unit := act (APut b).
Definition read (n : Z) : prog bytes := act (ARead n).
Definition read_u8 : prog Z := b <- read 1 ;; Ret (be_to_Z b).
Definition read_u16 : prog Z := b <- read 2 ;; Ret (be_to_Z b).
Definition config_ : prog config := act AConfig.
Definition prim_list (p : prim) (args : list bytes) : prog (list bytes) :=
  r <- act (APrim p args) ;;
  match r with OOk l => Ret l | OErr e => Raise e end.
Definition prim1 (p : prim) (args : list bytes) : prog bytes :=
  r <- prim_list p args ;;
  match r with [x] => Ret x | _ => Unmod "oracle arity" end.
Definition prim_bool (p : prim) (args : list bytes) : prog bool :=
  r <- prim1 p args ;; Ret (bytes_to_bool r).

Fixpoint repeat_get (n : nat) : prog (list bytes) :=
  match n with
  | O => Ret []
  | S k => x <- get ;; r <- repeat_get k ;; Ret (x :: r)
  end.
Fixpoint put_all (l : list bytes) : prog unit :=
  match l with [] => Ret tt | x :: t => put x ;; put_all t end.
