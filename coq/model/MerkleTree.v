(* Merklized script trees of tapescript/tools.py: ScriptLeaf / ScriptNode (commitment, root, locking_script,
   unlocking_script, pack / unpack).  Definitions only, all computable.  SHA-256 is not modelled: every
   definition that hashes is parameterised by the function [H] (in the proofs: the answer of the oracle
   primitive PSha256).

   Python                                   here
   ------                                   ----
   ScriptLeaf(script)                       Leaf script_bytes        (the source text of a Script is not modelled)
   ScriptNode(left, right)                  Node l r
   leaf.commitment() = sha256(bytes)        commitment (Leaf s) = H s
   node.root()                              root l r   = xor (H (commitment l)) (H (commitment r))
   node.locking_script().bytes              lock l r   = OP_MERKLEVAL <root>   (Builders.merkle_lock)
   node.commitment()                        commitment (Node l r) = H (lock l r)
   X.unlocking_script().bytes               unlock t p, for X = the subtree of the root t at path p
   node.pack() / ScriptNode.unpack          pack / unpack

   The parent pointers of the Python objects are replaced by a path from the root. *)
From Coq Require Import ZArith List Bool.
From Coq.Strings Require Import Byte.
From TS Require Import Bytes Ops Asm Builders.
Import ListNotations.

Inductive tree := Leaf (script : bytes) | Node (l r : tree).
Inductive dir := L | R.

(* functions.xor(b1, b2) = bytes(b1[i] ^ b2[i] for i in range(len(b1))): on operands of equal length (the only
   use here: two SHA-256 digests) this is the bytewise xor; Python raises IndexError when b2 is shorter and
   truncates to len(b1) when b2 is longer, [map2] truncates to the shorter operand. *)
Definition xor_bytes (a b : bytes) : bytes := map2 byte_xor a b.

Definition pick (d : dir) (l r : tree) : tree := match d with L => l | R => r end.
Definition other (d : dir) (l r : tree) : tree := match d with L => r | R => l end.

(* the subtree at the end of a path from the root; None = the path leaves the tree *)
Fixpoint subtree (t : tree) (p : list dir) {struct p} : option tree :=
  match p with
  | [] => Some t
  | d :: p' => match t with Leaf _ => None | Node l r => subtree (pick d l r) p' end
  end.

(* the bytes of the compiler's PUSH pseudo-instruction (PUSH0 / PUSH1 / PUSH2 by operand size);
   None = ValueError (empty or >= 65536 bytes) *)
Definition push_bytes (v : bytes) : option bytes := option_map encode1 (push_instr v).

Section Merkle.
Variable H : bytes -> bytes.

Fixpoint commitment (t : tree) : bytes :=
  match t with
  | Leaf s => H s
  | Node l r => H (merkle_lock (xor_bytes (H (commitment l)) (H (commitment r))))
  end.

Definition root (l r : tree) : bytes := xor_bytes (H (commitment l)) (H (commitment r)).
Definition lock (l r : tree) : bytes := merkle_lock (root l r).

(* the byte string a tree stands for when it is pushed / EVALuated: the leaf's script, the node's lock *)
Definition tbytes (t : tree) : bytes :=
  match t with Leaf s => s | Node l r => lock l r end.

(* X.unlocking_script() = push S.commitment() ; push X.bytes ; P.unlocking_script(), P the parent of X and S
   its sibling, the root contributing nothing.  Read from the root t downwards along the path p to X: the
   pairs of the deeper levels come first. *)
Fixpoint unlock_rel (t : tree) (p : list dir) {struct p} : option bytes :=
  match p with
  | [] => Some []
  | d :: p' =>
    match t with
    | Leaf _ => None
    | Node l r =>
      let x := pick d l r in
      let s := other d l r in
      match unlock_rel x p', push_bytes (commitment s), push_bytes (tbytes x) with
      | Some w, Some a, Some b => Some (w ++ a ++ b)
      | _, _, _ => None
      end
    end
  end.

(* a ScriptLeaf without parent has no unlocking script (vert); the root node's is empty *)
Definition unlock (t : tree) (p : list dir) : option bytes :=
  match t with Leaf _ => None | Node _ _ => unlock_rel t p end.

(* the items pushed by [unlock t p], head = top of the stack = pushed last *)
Fixpoint wstack (t : tree) (p : list dir) {struct p} : list bytes :=
  match p with
  | [] => []
  | d :: p' =>
    match t with
    | Leaf _ => []
    | Node l r => tbytes (pick d l r) :: commitment (other d l r) :: wstack (pick d l r) p'
    end
  end.

End Merkle.

(* ---------- ScriptNode.pack / ScriptNode.unpack ---------- *)

Definition tag_L : byte := x4c.   (* b'L' *)
Definition tag_N : byte := x4e.   (* b'N' *)
Definition tag (t : tree) : byte := match t with Leaf _ => tag_L | Node _ _ => tag_N end.

(* ScriptLeaf.pack = the script bytes; ScriptNode.pack = struct.pack('!cH{len}scH{len}s', ...).
   struct.pack raises struct.error when a length does not fit 'H'; [packable] is the domain on which the
   Python function returns, and on it [pack] is its result (outside it the two length bytes wrap around). *)
Fixpoint pack (t : tree) : bytes :=
  match t with
  | Leaf s => s
  | Node l r => tag l :: len2 (pack l) ++ pack l ++ tag r :: len2 (pack r) ++ pack r
  end.

Fixpoint packable (t : tree) : bool :=
  match t with
  | Leaf _ => true
  | Node l r => packable l && (blen (pack l) <? 65536) && packable r && (blen (pack r) <? 65536)
  end.

Definition pack_opt (t : tree) : option bytes :=
  match t with
  | Leaf _ => Some (pack t)
  | Node _ _ => if packable t then Some (pack t) else None
  end.

(* ScriptNode.unpack: None = struct.error.  A type byte other than b'L' is taken as a node (as in Python);
   bytes behind the right payload are ignored, a right payload shorter than announced is taken as it is
   (as in Python).  ScriptLeaf.unpack additionally decompiles the script to obtain its source text, which is
   not modelled (a leaf whose bytes do not decompile makes the Python function raise).  The recursion is on
   payloads strictly shorter than the input: [unpack] supplies fuel = length of the input. *)
Fixpoint unpack_fuel (fuel : nat) (data : bytes) : option tree :=
  match fuel with
  | O => None
  | S k =>
    let sub (ty : byte) (d : bytes) : option tree :=
      if Byte.eqb ty tag_L then Some (Leaf d) else unpack_fuel k d in
    match data with
    | lt :: a :: b :: d1 =>
      let ll := Z.to_nat (be_to_Z [a; b]) in
      match skipn ll d1 with
      | rt :: c :: e :: d2 =>
        let rl := Z.to_nat (be_to_Z [c; e]) in
        match sub lt (firstn ll d1), sub rt (firstn rl d2) with
        | Some l, Some r => Some (Node l r)
        | _, _ => None
        end
      | _ => None
      end
    | _ => None
    end
  end.

Definition unpack (data : bytes) : option tree := unpack_fuel (List.length data) data.

(* entry point of the correspondence run (harness/builders.py c04): the real tree's pack() bytes are read back by
   the model's unpack; lock, unlocking script of the leaf at path p and pack of the result are compared with
   ScriptNode.locking_script / ScriptLeaf.unlocking_script / ScriptNode.pack of the implementation *)
Definition mt_check (H : bytes -> bytes) (packed : bytes) (p : list dir)
  : option (bytes * option bytes * option bytes) :=
  match unpack packed with
  | Some (Node l r) => Some (lock H l r, unlock H (Node l r) p, pack_opt (Node l r))
  | _ => None
  end.
