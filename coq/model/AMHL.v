(* Anonymous multi-hop locks: /repo/tapescript/AMHL.py (class AMHL) and tools.release_left_amhl_lock
   (/repo/tapescript/tools.py).  Definitions only, all computable, over byte strings and the oracle of
   Prog.v (nacl.bindings / hashlib are not modelled: their answers come from [orc]).

   Every result is option-valued: [None] wherever the Python raises (IndexError on an empty tuple,
   ValueError of aggregate_points on an invalid point, ValueError of clamp_scalar on a short string,
   OverflowError of i.to_bytes(8, 'big'), the length checks of release_left_amhl_lock) or the oracle answers
   with an error / a result of the wrong arity.

   Python                                              here
   ------                                              ----
   clamp_scalar(b)   (from_private_key = False)        clamp_false b
   AMHL.sample(seed, i)                                sample seed i
   AMHL.samples(n, seed)                               samples fresh n seed     (fresh = the value token_bytes(32)
                                                                                 returns when seed is None or b'')
   AMHL.oneway(scalar)                                 oneway scalar
   aggregate_points(points)                            aggregate_points points
   AMHL.setup(n_users, seed)                           setup fresh n seed
   AMHL.scalar_sum( *scalars)                          scalar_sum scalars
   AMHL.setup_for(s, i)                                setup_for s i : option view
   AMHL.check_setup(s, i, n)                           check_setup s i n : option bool
   AMHL.lock(s)                                        lock s
   AMHL.release(k, y)                                  release k y
   AMHL.verify_lock_key(l, k)                          verify_lock_key l k
   bytes_are_same(b1, b2)                              bytes_eqb b1 b2   (equal length and all-zero xor)
   tools.release_left_amhl_lock(w, sig, y)             release_left_amhl_lock w sig y

   The tuples returned by setup_for have three shapes; they are the constructors of [view]:
     (s[0][0],)                                        VFirst y0
     (s[1][i-1], s[1][i], s[0][i])                     VMid Yl Yr y
     ((s[1][i-1], 0, 0), scalar_sum( *s[0]))           VLast Yl k
   Indices are natural numbers (the Python would accept negative ints and index from the end; not modelled). *)
From Coq Require Import ZArith List Bool.
From Coq.Strings Require Import Byte.
From TS Require Import Bytes State Prog Ops.
Import ListNotations.
Local Open Scope nat_scope.

(* option monad *)
Definition obind {A B} (o : option A) (f : A -> option B) : option B :=
  match o with Some a => f a | None => None end.

Fixpoint omap {A B} (f : A -> option B) (l : list A) : option (list B) :=
  match l with
  | [] => Some []
  | a :: t => obind (f a) (fun b => obind (omap f t) (fun r => Some (b :: r)))
  end.

(* clamp_scalar(scalar, from_private_key=False) as a pure function on a string of at least 32 bytes: the first 32
   bytes with bit 255 cleared (x_i[31] &= 0b01111111).  The same function as [clamp32] of proofs/TaprootSpec.v and
   as the value returned by Ops.clamp_scalar _ false. *)
Definition clamp_pure (s : bytes) : bytes :=
  set_nth_byte (firstn 32 s) 31 (fun b => z2b (Z.land (b2z b) 127)).

(* ... with the ValueError('not a SigningKey and not 32+ bytes scalar') *)
Definition clamp_false (s : bytes) : option bytes :=
  if (blen s <? 32)%Z then None else Some (clamp_pure s).

(* the result of AMHL.setup_for *)
Inductive view :=
| VFirst (y0 : bytes)
| VMid (Yl Yr y : bytes)
| VLast (Yl k : bytes).

Section AMHL.
  Variable orc : oracle.

  (* one oracle call returning one byte string *)
  Definition oprim1 (p : prim) (args : list bytes) : option bytes :=
    match orc p args with OOk [r] => Some r | _ => None end.

  (* i.to_bytes(8, 'big'): OverflowError from 2^64 on *)
  Definition index_bytes (i : nat) : option bytes :=
    if (Z.of_nat i <? 2 ^ 64)%Z then Some (Z_to_be 8 (Z.of_nat i)) else None.

  (* def sample(seed, i): return clamp_scalar(sha256(seed + i.to_bytes(8, 'big')).digest()) *)
  Definition sample (seed : bytes) (i : nat) : option bytes :=
    obind (index_bytes i) (fun ib =>
    obind (oprim1 PSha256 [seed ++ ib]) (fun h =>
    clamp_false h)).

  (* seed = seed if seed else token_bytes(32): None and b'' are both replaced by fresh random bytes *)
  Definition eff_seed (fresh : bytes) (seed : option bytes) : bytes :=
    match seed with
    | Some (b :: t) => b :: t
    | _ => fresh
    end.

  (* def samples(n, seed=None): return tuple(AMHL.sample(seed, i) for i in range(n)) *)
  Definition samples (fresh : bytes) (n : nat) (seed : option bytes) : option (list bytes) :=
    let seed := eff_seed fresh seed in
    omap (sample seed) (seq 0 n).

  (* def oneway(scalar): return nacl.bindings.crypto_scalarmult_ed25519_base_noclamp(scalar) *)
  Definition oneway (scalar : bytes) : option bytes := oprim1 PBaseMult [scalar].

  (* functions.aggregate_points: every point is checked (in order, the first invalid one raises), then the sum is
     taken left to right; points[0] of an empty list raises IndexError *)
  Fixpoint check_points (l : list bytes) : option unit :=
    match l with
    | [] => Some tt
    | p :: t => obind (oprim1 PValidPoint [p]) (fun v =>
                if bytes_to_bool v then check_points t else None)
    end.
  Fixpoint sum_with (p : prim) (acc : bytes) (l : list bytes) : option bytes :=
    match l with
    | [] => Some acc
    | x :: t => obind (oprim1 p [acc; x]) (fun a => sum_with p a t)
    end.
  Definition aggregate_points (l : list bytes) : option bytes :=
    obind (check_points l) (fun _ =>
    match l with [] => None | x :: t => sum_with PPointAdd x t end).

  (* def setup(n_users, seed=None):
         y = AMHL.samples(n_users, seed)
         Y = [AMHL.oneway(y[0])]
         for i, y_i in enumerate(y):
             if i > 0:
                 Y.append(aggregate_points((Y[i-1], AMHL.oneway(y_i))))
         return (y, tuple(Y))
     [setup_loop prev ys] is the loop from index 1 on, [prev] = Y[i-1] (the last element appended). *)
  Fixpoint setup_loop (prev : bytes) (ys : list bytes) : option (list bytes) :=
    match ys with
    | [] => Some []
    | y_i :: t =>
        obind (oneway y_i) (fun P =>
        obind (aggregate_points [prev; P]) (fun Y_i =>
        obind (setup_loop Y_i t) (fun r => Some (Y_i :: r))))
    end.

  Definition setup (fresh : bytes) (n_users : nat) (seed : option bytes) : option (list bytes * list bytes) :=
    obind (samples fresh n_users seed) (fun y =>
    match y with
    | [] => None                                     (* y[0]: IndexError *)
    | y0 :: t =>
        obind (oneway y0) (fun Y0 =>
        obind (setup_loop Y0 t) (fun r => Some (y, Y0 :: r)))
    end).

  (* def scalar_sum( *scalars):
         sum = scalars[0]
         for i in range(1, len(scalars)): sum = crypto_core_ed25519_scalar_add(sum, scalars[i])
         return sum *)
  Definition scalar_sum (scalars : list bytes) : option bytes :=
    match scalars with
    | [] => None                                     (* scalars[0]: IndexError *)
    | x :: t => sum_with PScalarAdd x t
    end.

  (* def setup_for(s, i):
         if i == 0: return (s[0][0],)
         if i == len(s[0]): return ((s[1][i-1], 0, 0), AMHL.scalar_sum( *s[0]))
         return (s[1][i-1], s[1][i], s[0][i]) *)
  Definition setup_for (s : list bytes * list bytes) (i : nat) : option view :=
    if Nat.eqb i 0 then
      obind (nth_error (fst s) 0) (fun y0 => Some (VFirst y0))
    else if Nat.eqb i (List.length (fst s)) then
      obind (nth_error (snd s) (i - 1)) (fun Yl =>
      obind (scalar_sum (fst s)) (fun k => Some (VLast Yl k)))
    else
      obind (nth_error (snd s) (i - 1)) (fun Yl =>
      obind (nth_error (snd s) i) (fun Yr =>
      obind (nth_error (fst s) i) (fun y => Some (VMid Yl Yr y)))).

  (* def check_setup(s, i, n):
         if i == 0: return len(s) == 1 and isinstance(s[0], bytes)
         if i == n: return len(s) == 2 and type(s[0]) is tuple and len(s[0]) == 3 and
                           type(s[0][0]) is bytes and type(s[1]) is bytes
         Y_i = aggregate_points((s[0], AMHL.oneway(s[2])))
         return bytes_are_same(Y_i, s[1])
     In the third case s[2] raises IndexError on the one- and two-element shapes. *)
  Definition check_setup (s : view) (i n : nat) : option bool :=
    if Nat.eqb i 0 then
      Some (match s with VFirst _ => true | _ => false end)
    else if Nat.eqb i n then
      Some (match s with VLast _ _ => true | _ => false end)
    else
      match s with
      | VMid Yl Yr y =>
          obind (oneway y) (fun P =>
          obind (aggregate_points [Yl; P]) (fun Y_i => Some (bytes_eqb Y_i Yr)))
      | _ => None
      end.

  (* def lock(s): return (s[1], False)   -- the first component; s[1] of the final-hop shape is the key *)
  Definition lock (s : view) : option bytes :=
    match s with
    | VFirst _ => None
    | VMid _ Yr _ => Some Yr
    | VLast _ k => Some k
    end.

  (* def release(k, y): return nacl.bindings.crypto_core_ed25519_scalar_sub(k, y) *)
  Definition release (k y : bytes) : option bytes := oprim1 PScalarSub [k; y].

  (* def verify_lock_key(l, k): return bytes_are_same(l, AMHL.oneway(k)) *)
  Definition verify_lock_key (l k : bytes) : option bool :=
    obind (oneway k) (fun P => Some (bytes_eqb l P)).

  (* tools.release_left_amhl_lock(adapter_witness, signature, y):
         vert(len(adapter_witness) == 68, ...)
         vert(len(signature) == 64, ...)
         sa = adapter_witness[2:34]
         s = signature[32:]
         t = nacl.bindings.crypto_core_ed25519_scalar_sub(s, sa) # s = sa + t
         return AMHL.release(t, y) *)
  Definition release_left_amhl_lock (adapter_witness signature y : bytes) : option bytes :=
    if negb (Nat.eqb (List.length adapter_witness) 68) then None else
    if negb (Nat.eqb (List.length signature) 64) then None else
    let sa := firstn 32 (skipn 2 adapter_witness) in
    let s := skipn 32 signature in
    obind (oprim1 PScalarSub [s; sa]) (fun t =>
    release t y).

End AMHL.

(* entry points of the correspondence run (harness/builders.py c18: command AMHL / AMHLREL of the model process):
   the whole setup with every party's view and its check_setup verdict, and release_left_amhl_lock *)
Definition amhl_all (orc : oracle) (n : nat) (seed : bytes)
  : option (list bytes * list bytes * list (option view * option bool)) :=
  obind (setup orc [] n (Some seed)) (fun s =>
  Some (fst s, snd s,
        map (fun i => let v := setup_for orc s i in
                      (v, obind v (fun v' => check_setup orc v' i n))) (seq 0 (S n)))).
Definition amhl_release_left (orc : oracle) (w sg y : bytes) : option bytes := release_left_amhl_lock orc w sg y.
Definition amhl_verify_lock_key (orc : oracle) (l k : bytes) : option bool := verify_lock_key orc l k.
