(* The float codec of the VM (functions.float_to_bytes / bytes_to_float = struct.pack('!f') / struct.unpack('!f')) on
   the values it is defined for: IEEE-754 binary32, as formalised by Flocq (IEEE754.Binary / IEEE754.Bits).
   Definitions only.  A Python float holding a binary32-representable value is the exact image of such a value; the
   widening to binary64 is not modelled (this Flocq release has no conversion between formats). *)
From Coq Require Import ZArith List Bool.
From Coq.Strings Require Import Byte.
From Flocq Require Import IEEE754.Binary IEEE754.Bits.
From TS Require Import Bytes.
Import ListNotations.
Open Scope Z_scope.

(* struct.pack('!f', x): the 32 bits of x, big endian *)
Definition float_to_bytes (x : binary32) : bytes := Z_to_be 4 (bits_of_b32 x).

(* struct.unpack('!f', b): defined on 4-byte strings only (struct.error otherwise) *)
Definition bytes_to_float (b : bytes) : option binary32 :=
  if Nat.eqb (List.length b) 4 then Some (b32_of_bits (be_to_Z b)) else None.

(* what the value IS, for the correspondence with Python's float (exact rational = (-1)^s * m * 2^e) *)
Inductive fclass := FZero (s : bool) | FInf (s : bool) | FNan (s : bool) (payload : positive)
                  | FFin (s : bool) (m : positive) (e : Z).
Definition classify (x : binary32) : fclass :=
  match x with
  | B754_zero _ _ s => FZero s
  | B754_infinity _ _ s => FInf s
  | B754_nan _ _ s pl _ => FNan s pl
  | B754_finite _ _ s m e _ => FFin s m e
  end.
Definition classify_bytes (b : bytes) : option fclass := option_map classify (bytes_to_float b).
Definition roundtrip_bytes (b : bytes) : option bytes := option_map float_to_bytes (bytes_to_float b).
