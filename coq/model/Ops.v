(* The instructions of tapescript/functions.py, as programs over the action vocabulary.
   Each body follows the Python source statement by statement (same order of reads,
   pops, checks and pushes) so that partial effects at a raise agree. *)
From Coq Require Import ZArith List Bool.
From Coq.Strings Require Import Byte String.
From TS Require Import Bytes Codec State Prog.
Import ListNotations.
Open Scope Z_scope.
Open Scope prog_scope.

(* ---------- integer codec inside programs ---------- *)

Definition fl2_prog (a : Z) : prog Z :=
  if a <? 2 ^ 32 then Ret (Z.log2 a)
  else r <- prim1 PLog2 [Z_to_be (Z.to_nat (Z.log2 a / 8 + 1)) a] ;; Ret (be_to_Z r).

Definition i2b (n : Z) : prog bytes :=
  let a := Z.abs n in
  l <- (if a =? 0 then Ret 0 else fl2_prog a) ;;
  match int_to_bytes (fun _ => l) n with Some b => Ret b | None => Raise OverflowError end.

Definition b2i (b : bytes) : prog Z :=
  match bytes_to_int b with Some z => Ret z | None => Raise ValueError end.

Definition get_int : prog Z := x <- get ;; b2i x.
(* "for _ in range(n): stack.get()" for a data-dependent n: at most depth+1 pops can happen *)
Definition repeat_get_z (n : Z) : prog (list bytes) :=
  d <- act ADepth ;; repeat_get (Z.to_nat (Z.min n (d + 1))).
Definition put_bool (b : bool) : prog unit := put (if b then [xff] else [x00]).
Definition nat_of (z : Z) : nat := Z.to_nat z.
Definition flagon (c : config) (k : Z) : bool := flag_on (c_flags c) (FKInt k).
Definition cache_raw (k : bytes) (v : bytes) : prog unit := act (ACacheSet k (VOne (ABytes v))).
Definition cache_items (k : bytes) (l : list bytes) : prog unit := act (ACacheSet k (VMany (map ABytes l))).

(* ---------- plugins ---------- *)

Fixpoint log_sigext (l : list nat) : prog unit :=
  match l with [] => Ret tt | i :: t => act (ALog (EvSigExt i)) ;; log_sigext t end.
Definition run_sig_ext : prog unit := c <- config_ ;; log_sigext (c_sigext c).

(* ---------- simple instructions ---------- *)

Definition OP_FALSE : prog unit := put [x00].
Definition OP_TRUE : prog unit := put [xff].
Definition OP_PUSH0 : prog unit := b <- read 1 ;; put b.
Definition OP_PUSH1 : prog unit := n <- read_u8 ;; b <- read n ;; put b.
Definition OP_PUSH2 : prog unit := n <- read_u16 ;; b <- read n ;; put b.

Definition sigfield_key (i : Z) : ckey := KStr (str "sigfield" ++ [z2b (48 + i)]).

Fixpoint msg_go (idx : list Z) (flag : Z) (acc : bytes) : prog bytes :=
  match idx with
  | [] => Ret acc
  | i :: t =>
    v <- act (ACacheGet (sigfield_key i)) ;;
    match v with
    | None => msg_go t flag acc
    | Some v =>
      if Z.testbit flag (i - 1) then msg_go t flag acc
      else match v with
           | VOne (ABytes b) => msg_go t flag (acc ++ b)
           | VOne (AByteArr b) => msg_go t flag (acc ++ b)     (* bytes += bytearray is bytes: a sigfield held as a bytearray is read *)
           | _ => Raise TypeError
           end
    end
  end.
Definition get_message_core (flag : Z) : prog bytes := msg_go [1;2;3;4;5;6;7;8] flag [].

Definition OP_GET_MESSAGE : prog unit :=
  run_sig_ext ;; f <- read_u8 ;; m <- get_message_core f ;; put m.

Definition OP_POP0 : prog unit := x <- get ;; cache_items (str "P") [x].
Definition OP_POP1 : prog unit :=
  n <- read_u8 ;; l <- repeat_get (nat_of n) ;; cache_items (str "P") l.
Definition OP_SIZE : prog unit := x <- get ;; b <- i2b (blen x) ;; put b.
Definition OP_WRITE_CACHE : prog unit :=
  n <- read_u8 ;; k <- read n ;; c <- read_u8 ;; l <- repeat_get (nat_of c) ;; cache_items k l.

Fixpoint put_atoms (l : list atom) : prog unit :=
  match l with
  | [] => Ret tt
  | ABytes b :: t => put b ;; put_atoms t
  | _ :: t => Raise TypeError
  end.
Definition cval_items (v : cval) : list atom := match v with VOne a => [a] | VMany l => l end.

Definition read_cache_key (k : bytes) : prog unit :=
  v <- act (ACacheGet (KBytes k)) ;;
  match v with None => Raise ScriptExecutionError | Some v => put_atoms (cval_items v) end.
Definition cache_size_key (k : bytes) : prog unit :=
  v <- act (ACacheGet (KBytes k)) ;;
  match v with
  | None => b <- i2b 0 ;; put b
  | Some (VMany l) => b <- i2b (Z.of_nat (List.length l)) ;; put b
  | Some (VOne (ABytes x)) => b <- i2b (blen x) ;; put b
  | Some (VOne (AStr _)) => Unmod "len(str) of a bytes-keyed cache entry"
  | Some (VOne _) => Raise TypeError
  end.
Definition OP_READ_CACHE : prog unit := n <- read_u8 ;; k <- read n ;; read_cache_key k.
Definition OP_READ_CACHE_SIZE : prog unit := n <- read_u8 ;; k <- read n ;; cache_size_key k.
Definition OP_READ_CACHE_STACK : prog unit := k <- get ;; read_cache_key k.
Definition OP_READ_CACHE_STACK_SIZE : prog unit := k <- get ;; cache_size_key k.

(* ---------- integer arithmetic ---------- *)

Fixpoint fold_ints (n : nat) (f : Z -> Z -> Z) (acc : Z) : prog Z :=
  match n with O => Ret acc | S k => x <- get_int ;; fold_ints k f (f acc x) end.

Definition OP_ADD_INTS : prog unit :=
  n <- read_u8 ;; t <- fold_ints (nat_of n) Z.add 0 ;; b <- i2b t ;; put b.
Definition OP_SUBTRACT_INTS : prog unit :=
  n <- read_u8 ;; t0 <- get_int ;; t <- fold_ints (nat_of (n - 1)) Z.sub t0 ;; b <- i2b t ;; put b.
Definition OP_MULT_INTS : prog unit :=
  n <- read_u8 ;; t0 <- get_int ;; t <- fold_ints (nat_of (n - 1)) Z.mul t0 ;; b <- i2b t ;; put b.

Definition pydiv (a b : Z) : prog Z := if b =? 0 then Raise ZeroDivisionError else Ret (a / b).
Definition pymod (a b : Z) : prog Z := if b =? 0 then Raise ZeroDivisionError else Ret (a mod b).

Definition OP_DIV_INT : prog unit :=
  n <- read_u8 ;; d <- read n ;; divisor <- b2i d ;; dividend <- get_int ;;
  q <- pydiv dividend divisor ;; b <- i2b q ;; put b.
Definition OP_DIV_INTS : prog unit :=
  dividend <- get_int ;; divisor <- get_int ;; q <- pydiv dividend divisor ;; b <- i2b q ;; put b.
Definition OP_MOD_INT : prog unit :=
  n <- read_u8 ;; d <- read n ;; divisor <- b2i d ;; dividend <- get_int ;;
  q <- pymod dividend divisor ;; b <- i2b q ;; put b.
Definition OP_MOD_INTS : prog unit :=
  dividend <- get_int ;; divisor <- get_int ;; q <- pymod dividend divisor ;; b <- i2b q ;; put b.

(* ---------- floats: arithmetic through the oracle on 8-byte doubles ---------- *)

Definition dzero : bytes := [x00;x00;x00;x00;x00;x00;x00;x00].
Definition get_float_t : prog bytes :=       (* tert(len == 4); unpack *)
  x <- get ;; tert (blen x =? 4) ;; prim1 PFUnpack [x].
Definition bytes_to_float (x : bytes) : prog bytes := vert (blen x =? 4) ;; prim1 PFUnpack [x].
Definition check_nan (d : bytes) : prog unit := n <- prim_bool PFIsNan [d] ;; vert (negb n).
Definition put_float (d : bytes) : prog unit := b <- prim1 PFPack [d] ;; put b.

Fixpoint fold_floats (n : nat) (p : prim) (acc : bytes) : prog bytes :=
  match n with O => Ret acc | S k => x <- get_float_t ;; a <- prim1 p [acc; x] ;; fold_floats k p a end.

Definition OP_ADD_FLOATS : prog unit :=
  n <- read_u8 ;; t <- fold_floats (nat_of n) PFAdd dzero ;; check_nan t ;; put_float t.
Definition OP_SUBTRACT_FLOATS : prog unit :=
  n <- read_u8 ;; t0 <- get_float_t ;; t <- fold_floats (nat_of (n - 1)) PFSub t0 ;;
  check_nan t ;; put_float t.
Definition OP_DIV_FLOAT : prog unit :=
  d <- read 4 ;; divisor <- bytes_to_float d ;; dividend <- get_float_t ;;
  r <- prim1 PFDiv [dividend; divisor] ;; check_nan r ;; put_float r.
Definition OP_DIV_FLOATS : prog unit :=
  x <- get ;; tert (blen x =? 4) ;; dividend <- bytes_to_float x ;;
  y <- get ;; tert (blen y =? 4) ;; divisor <- bytes_to_float y ;;
  r <- prim1 PFDiv [dividend; divisor] ;; check_nan r ;; put_float r.
Definition OP_MOD_FLOAT : prog unit :=
  d <- read 4 ;; divisor <- bytes_to_float d ;; dividend <- get_float_t ;;
  r <- prim1 PFMod [dividend; divisor] ;; check_nan r ;; put_float r.
Definition OP_MOD_FLOATS : prog unit :=
  divisor <- get_float_t ;; dividend <- get_float_t ;;
  r <- prim1 PFMod [dividend; divisor] ;; check_nan r ;; put_float r.
Definition OP_FLOAT_LESS : prog unit :=
  x <- get ;; a <- bytes_to_float x ;; y <- get ;; b <- bytes_to_float y ;;
  r <- prim_bool PFLt [a; b] ;; put_bool r.
Definition OP_FLOAT_LESS_OR_EQUAL : prog unit :=
  x <- get ;; a <- bytes_to_float x ;; y <- get ;; b <- bytes_to_float y ;;
  r <- prim_bool PFLe [a; b] ;; put_bool r.
Definition signed_be (z : Z) : bytes :=    (* oracle encoding of an int: sign byte + magnitude *)
  (if z <? 0 then x01 else x00) :: Z_to_be (Z.to_nat (Z.log2 (Z.abs z) / 8 + 1)) (Z.abs z).
Definition of_signed_be (b : bytes) : Z :=
  match b with [] => 0 | s :: m => if Byte.eqb s x00 then be_to_Z m else - be_to_Z m end.
Definition OP_INT_TO_FLOAT : prog unit :=
  v <- get_int ;; d <- prim1 PI2F [signed_be v] ;; put_float d.
Definition OP_FLOAT_TO_INT : prog unit :=
  x <- get ;; d <- bytes_to_float x ;; r <- prim1 PF2I [d] ;; b <- i2b (of_signed_be r) ;; put b.

(* ---------- ed25519 helpers ---------- *)

Definition set_nth_byte (l : bytes) (i : nat) (f : byte -> byte) : bytes :=
  list_set l i (f (nth i l x00)).

(* clamp_scalar(scalar: bytes, from_private_key) *)
Definition clamp_scalar (s : bytes) (from_key : bool) : prog bytes :=
  if blen s <? 32 then Raise ValueError else
  let x := firstn 32 s in
  let x := if from_key
           then set_nth_byte (set_nth_byte x 0 (fun b => z2b (Z.land (b2z b) 248))) 31
                             (fun b => z2b (Z.lor (b2z b) 64))
           else x in
  Ret (set_nth_byte x 31 (fun b => z2b (Z.land (b2z b) 127))).

Definition H_big (parts : list bytes) : prog bytes := prim1 PSha512 [List.concat parts].
Definition H_small (parts : list bytes) : prog bytes := h <- H_big parts ;; prim1 PReduce [h].
Definition derive_key_from_seed (seed : bytes) : prog bytes :=
  h <- H_big [seed] ;; clamp_scalar (firstn 32 h) true.
Definition derive_point (x : bytes) : prog bytes := prim1 PBaseMult [x].

Fixpoint check_points (l : list bytes) : prog unit :=
  match l with
  | [] => Ret tt
  | p :: t => v <- prim_bool PValidPoint [p] ;; vert v ;; check_points t
  end.
Fixpoint sum_with (p : prim) (acc : bytes) (l : list bytes) : prog bytes :=
  match l with [] => Ret acc | x :: t => a <- prim1 p [acc; x] ;; sum_with p a t end.
Definition aggregate_points (l : list bytes) : prog bytes :=
  check_points l ;;
  match l with [] => Raise IndexError | x :: t => sum_with PPointAdd x t end.
Definition aggregate_scalars (l : list bytes) : prog bytes :=
  match l with [] => Raise IndexError | x :: t => sum_with PScalarAdd x t end.

Definition OP_ADD_POINTS : prog unit :=
  n <- read_u8 ;; l <- repeat_get (nat_of n) ;; check_points l ;; s <- aggregate_points l ;; put s.

Definition OP_COPY : prog unit :=
  n <- read_u8 ;; x <- get ;; put_all (repeat x (nat_of (n + 1))).
Definition OP_DUP : prog unit := x <- get ;; put x ;; put x.
Definition OP_SHA256 : prog unit := x <- get ;; h <- prim1 PSha256 [x] ;; put h.
Definition OP_SHAKE256 : prog unit :=
  n <- read_u8 ;; x <- get ;; h <- prim1 PShake256 [x; [z2b n]] ;; put h.
Definition OP_VERIFY : prog unit := x <- get ;; sert (bytes_to_bool x).
Definition OP_EQUAL : prog unit := a <- get ;; b <- get ;; put_bool (bytes_eqb a b).
Definition OP_EQUAL_VERIFY : prog unit := OP_EQUAL ;; OP_VERIFY.

(* ---------- signatures ---------- *)

Definition masks : list Z := [1;2;4;8;16;32;64;128].
Definition flags_permitted (flag allowed : Z) : bool :=
  forallb (fun m => (Z.land flag m =? 0) || negb (Z.land allowed m =? 0)) masks.

Definition check_sig_body (allowed : Z) : prog unit :=
  vkey <- get ;; sig <- get ;;
  vert (blen vkey =? 32) ;;
  vert ((blen sig =? 64) || (blen sig =? 65)) ;;
  let sig_flag := if blen sig =? 64 then 0 else b2z (last sig x00) in
  let sig64 := firstn 64 sig in
  sert (flags_permitted sig_flag allowed) ;;
  m <- get_message_core sig_flag ;; put m ;; message <- get ;;
  ok <- prim_bool PVerify [vkey; message; sig64] ;;
  put_bool ok.

Definition OP_CHECK_SIG : prog unit := run_sig_ext ;; a <- read_u8 ;; check_sig_body a.
Definition OP_CHECK_SIG_VERIFY : prog unit := OP_CHECK_SIG ;; OP_VERIFY.

Definition OP_CHECK_TIMESTAMP : prog unit :=
  c <- get ;; sert (0 <? blen c) ;;
  let constraint := be_to_Z c in
  t <- act (ACacheGet (KStr (str "timestamp"))) ;;
  match t with
  | None => Raise ScriptExecutionError
  | Some (VOne (AInt ts)) =>
    cfg <- config_ ;;
    match flag_get (c_flags cfg) (FKStr (str "ts_threshold")) with
    | Some (FVInt thr) =>
      let difference := ts - c_now cfg in
      if ts <? constraint then put [x00]
      else if (thr <=? difference) && (0 <? thr) then put [x00]
      else put [xff]
    | _ => Raise ScriptExecutionError
    end
  | Some _ => Raise ScriptExecutionError
  end.
Definition OP_CHECK_TIMESTAMP_VERIFY : prog unit := OP_CHECK_TIMESTAMP ;; OP_VERIFY.

Definition OP_CHECK_EPOCH : prog unit :=
  c <- get ;; sert (0 <? blen c) ;;
  let constraint := be_to_Z c in
  cfg <- config_ ;;
  match flag_get (c_flags cfg) (FKStr (str "epoch_threshold")) with
  | Some (FVInt thr) =>
    sert (0 <=? thr) ;;
    if thr <=? constraint - c_now cfg then put [x00] else put [xff]
  | _ => Raise ScriptExecutionError
  end.
Definition OP_CHECK_EPOCH_VERIFY : prog unit := OP_CHECK_EPOCH ;; OP_VERIFY.

(* ---------- control flow ---------- *)

Definition OP_RETURN : prog unit := act ASetPtrEnd ;; act AReturnedSet.
Definition propagate_return : prog unit :=
  r <- act AReturnedTest ;; if r then OP_RETURN else Ret tt.

Definition OP_DEF : prog unit :=
  h <- read 1 ;; n <- read_u16 ;; d <- read n ;; act (ADefSet (hd x00 h) d).

Definition OP_CALL : prog unit :=
  cfg <- config_ ;; c <- act ACount ;; sert (c <? c_limit cfg) ;;
  h <- read 1 ;; act ACountIncr ;;
  t <- act (ADefGet (hd x00 h)) ;;
  match t with
  | None => Raise KeyError
  | Some tid => act (ACallDef tid) ;; act AReturnedClear
  end.

Definition OP_IF : prog unit :=
  n <- read_u16 ;; d <- read n ;; c <- get ;;
  if bytes_to_bool c then act (ARunSub SubCopy d) ;; propagate_return else Ret tt.

Definition OP_IF_ELSE : prog unit :=
  n1 <- read_u16 ;; d1 <- read n1 ;; n2 <- read_u16 ;; d2 <- read n2 ;; c <- get ;;
  act (ARunSub SubCopy (if bytes_to_bool c then d1 else d2)) ;; propagate_return.

Definition eval_body : prog unit :=
  cfg <- config_ ;;
  sert (match flag_get (c_flags cfg) (FKStr (str "disallow_OP_EVAL")) with None => true | Some _ => false end) ;;
  c <- act ACount ;; sert (c <? c_limit cfg) ;;
  script <- get ;; vert (0 <? blen script) ;;
  act (ARunSub SubEval script) ;;
  r <- act AReturnedTest ;;
  if r then
    (if flag_on (c_flags cfg) (FKStr (str "eval_return")) then OP_RETURN else act AReturnedClear)
  else Ret tt.
Definition OP_EVAL : prog unit := eval_body.

Definition OP_NOT : prog unit := x <- get ;; put (map byte_not x).

Definition OP_RANDOM : prog unit :=
  cfg <- config_ ;; size <- get_int ;;
  sert ((0 <=? size) && (size <=? Z.of_nat (c_max_item_size cfg))) ;;
  act (ALog (EvAlloc size)) ;;
  i <- act ARandIdx ;;
  r <- prim1 PRandom [Z_to_be 4 size; Z_to_be 4 i] ;; put r.

Definition OP_SET_FLAG : prog unit :=
  n <- read_u8 ;; f <- read n ;; Raise ScriptExecutionError.   (* a bytes flag is never a key of flags *)
Definition OP_UNSET_FLAG : prog unit :=
  n <- read_u8 ;; f <- read n ;; Ret tt.                       (* nor of tape.flags *)

Definition OP_DEPTH : prog unit := d <- act ADepth ;; b <- i2b d ;; put b.

Definition swap_core (i j : Z) : prog unit :=
  if i =? j then Ret tt else
  d <- act ADepth ;; sert (Z.max i j <? d) ;; act (ASwapIdx i j).
Definition OP_SWAP : prog unit := i <- read_u8 ;; j <- read_u8 ;; swap_core i j.
Definition OP_SWAP2 : prog unit := a <- get ;; b <- get ;; put a ;; put b.
Definition OP_REVERSE : prog unit :=
  n <- read_u8 ;; d <- act ADepth ;; sert (n <=? d) ;; l <- repeat_get (nat_of n) ;; put_all l.
Definition OP_CONCAT : prog unit := second <- get ;; first <- get ;; put (first ++ second).
Definition OP_SPLIT : prog unit :=
  idx <- get_int ;; item <- get ;;
  sert (0 <=? idx) ;; sert (idx <? blen item) ;;
  put (firstn_z idx item) ;; put (skipn_z idx item).

Definition decode_utf8 (b : bytes) : prog unit :=
  v <- prim_bool PUtf8Valid [b] ;; if v then Ret tt else Raise UnicodeDecodeError.
Definition OP_CONCAT_STR : prog unit :=
  second <- get ;; decode_utf8 second ;; first <- get ;; decode_utf8 first ;; put (first ++ second).
Definition OP_SPLIT_STR : prog unit :=
  idx <- get_int ;; item <- get ;; decode_utf8 item ;;
  sert (0 <=? idx) ;;
  n <- prim1 PStrLen [item] ;; sert (idx <? be_to_Z n) ;;
  r <- prim_list PStrSplit [item; Z_to_be 4 idx] ;;
  match r with [p0; p1] => put p0 ;; put p1 | _ => Unmod "str split arity" end.

(* ---------- contracts ---------- *)

Fixpoint contract_get (l : list (bytes * contract)) (k : bytes) : option contract :=
  match l with [] => None | (k', c) :: t => if bytes_eqb k' k then Some c else contract_get t k end.

Definition first_byte (b : bytes) : Z := b2z (hd x00 b).
Definition last_byte (b : bytes) : Z := b2z (last b x00).

(* toy ledger mirrored by the harness contract *)
Definition toy_verify_proof (p : bytes) : bool := (0 <? blen p) && Z.odd (first_byte p).
Definition toy_verify_transfer (p s d : bytes) : bool :=
  (0 <? blen p) && (0 <? blen s) && (last_byte p =? first_byte s).
Definition toy_verify_constraint (p c : bytes) : bool := blen c <=? blen p.
Definition toy_aggregate (proofs : list bytes) : Z := fold_left (fun a p => a + blen p) proofs 0.

Fixpoint proofs_valid (proofs sources : list bytes) (dest constraint : bytes) : bool :=
  match proofs, sources with
  | p :: pt, s :: st =>
    toy_verify_proof p && toy_verify_transfer p s dest
    && ((blen constraint =? 0) || toy_verify_constraint p constraint)
    && proofs_valid pt st dest constraint
  | _, _ => true
  end.

Definition OP_CHECK_TRANSFER : prog unit :=
  cfg <- config_ ;;
  cid <- get ;; amount <- get_int ;; constraint <- get ;; dest <- get ;;
  cnt <- get ;; let count := be_to_Z cnt in
  sources <- repeat_get_z count ;; proofs <- repeat_get_z count ;;
  match contract_get (c_contracts cfg) cid with
  | None => Raise ScriptExecutionError
  | Some CTransfer =>
    put_bool (proofs_valid proofs sources dest constraint && (amount <=? toy_aggregate proofs))
  | Some _ => Raise ScriptExecutionError
  end.

Definition OP_INVOKE : prog unit :=
  cfg <- config_ ;;
  cid <- get ;; argc <- get_int ;; sert (0 <=? argc) ;;
  args <- repeat_get_z argc ;;
  match contract_get (c_contracts cfg) cid with
  | None => Raise ScriptExecutionError
  | Some c =>
    match c with
    | CTransfer => Raise ScriptExecutionError
    | CNone => act (ALog (EvInvoke cid args))
    | CBadRet => act (ALog (EvInvoke cid args)) ;; Raise TypeError
    | CEcho | CRev =>
      let result := match c with CRev => rev args | _ => args end in
      act (ALog (EvInvoke cid args)) ;;
      put_all result ;;
      if flagon cfg 0 then cache_items (str "IR") result else Ret tt
    end
  end.

Definition OP_XOR : prog unit := a <- get ;; b <- get ;; put (zip_pad byte_xor a b).
Definition OP_OR : prog unit := a <- get ;; b <- get ;; put (zip_pad byte_or a b).
Definition OP_AND : prog unit := a <- get ;; b <- get ;; put (zip_pad byte_and a b).

Definition OP_MERKLEVAL : prog unit :=
  root <- read 32 ;;
  OP_DUP ;; OP_SHA256 ;; OP_SHA256 ;; swap_core 1 2 ;; OP_SWAP2 ;; OP_SHA256 ;; OP_XOR ;;
  put root ;; OP_EQUAL_VERIFY ;; eval_body.

Definition OP_TRY_EXCEPT : prog unit :=
  n1 <- read_u16 ;; d1 <- read n1 ;; n2 <- read_u16 ;; d2 <- read n2 ;;
  r <- act (ATrySub d1) ;;
  match r with
  | Some e => cache_items (str "E") [exn_name e ++ str "|"] ;; act (ARunSub SubCopy d2)
  | None => Ret tt
  end ;;
  propagate_return.

Definition OP_LESS : prog unit := a <- get_int ;; b <- get_int ;; put_bool (a <? b).
Definition OP_LESS_OR_EQUAL : prog unit := a <- get_int ;; b <- get_int ;; put_bool (a <=? b).

Fixpoint put_values (l : list atom) : prog unit :=
  match l with
  | [] => Ret tt
  | a :: t =>
    match a with
    | ABytes b => put b
    | AStr s => put s
    | AInt z => b <- i2b z ;; put b
    | AFloat f => put f
    | ABool _ | AOther => Ret tt
    | AByteArr _ => Raise TypeError
    end ;; put_values t
  end.
Definition OP_GET_VALUE : prog unit :=
  n <- read_u8 ;; k <- read n ;; decode_utf8 k ;;
  v <- act (ACacheGet (KStr k)) ;;
  match v with None => Raise ScriptExecutionError | Some v => put_values (cval_items v) end.

Fixpoint loop_go (n : nat) (i limit : Z) (tid : nat) (cond : bytes) : prog unit :=
  if bytes_to_bool cond then
    sert (i <? limit) ;;
    match n with
    | O => Unmod "loop bound"
    | S n' =>
      act (ARunLoop tid) ;;
      r <- act AReturnedTest ;;
      if r then act AReturnedClear
      else c <- act APeek ;; loop_go n' (i + 1) limit tid c
    end
  else Ret tt.
Definition OP_LOOP : prog unit :=
  n <- read_u16 ;; d <- read n ;; c <- act APeek ;;
  cfg <- config_ ;; tid <- act (ALoopNew d) ;;
  loop_go (nat_of (c_limit cfg) + 1) 0 (c_limit cfg) tid c.

(* ---------- multisig ---------- *)

Fixpoint remove_first (l : list bytes) (x : bytes) : list bytes :=
  match l with [] => [] | y :: t => if bytes_eqb y x then t else y :: remove_first t x end.
Definition set_add (s : list bytes) (x : bytes) : list bytes :=
  if existsb (bytes_eqb x) s then s else x :: s.

(* inner loop: first key (in list order) under which [sig] verifies *)
Fixpoint ms_find (allowed : Z) (sig : bytes) (keys : list bytes) : prog (option bytes) :=
  match keys with
  | [] => Ret None
  | k :: t =>
    put sig ;; put k ;; check_sig_body allowed ;; r <- get ;;
    if bytes_to_bool r then Ret (Some k) else ms_find allowed sig t
  end.
Fixpoint ms_go (allowed : Z) (sigs keys confirmed : list bytes) : prog (list bytes) :=
  match sigs with
  | [] => Ret confirmed
  | s :: t =>
    r <- ms_find allowed s keys ;;
    match r with
    | Some k => ms_go allowed t (remove_first keys k) (set_add confirmed s)
    | None => ms_go allowed t keys confirmed
    end
  end.
Definition OP_CHECK_MULTISIG : prog unit :=
  run_sig_ext ;;
  a <- read_u8 ;; m <- read_u8 ;; n <- read_u8 ;;
  vkeys <- repeat_get (nat_of n) ;; sigs <- repeat_get (nat_of m) ;;
  confirmed <- ms_go a sigs vkeys [] ;;
  put_bool (Nat.eqb (List.length confirmed) (List.length sigs)).
Definition OP_CHECK_MULTISIG_VERIFY : prog unit := OP_CHECK_MULTISIG ;; OP_VERIFY.

Definition OP_SIGN : prog unit :=
  run_sig_ext ;; cfg <- config_ ;;
  f <- read_u8 ;; seed <- get ;; vert (blen seed =? 32) ;;
  m <- get_message_core f ;; put m ;; message <- get ;;
  sig <- prim1 PSign [seed; message] ;;
  let sig := if f =? 0 then sig else sig ++ [z2b f] in
  (if flagon cfg 9 then cache_raw (str "s") sig else Ret tt) ;;
  put sig.
Definition OP_SIGN_STACK : prog unit :=
  cfg <- config_ ;;
  seed <- get ;; msg <- get ;; vert (blen seed =? 32) ;;
  sig <- prim1 PSign [seed; msg] ;;
  (if flagon cfg 9 then cache_raw (str "s") sig else Ret tt) ;;
  put sig.
Definition OP_CHECK_SIG_STACK : prog unit :=
  vkey <- get ;; vert (blen vkey =? 32) ;;
  msg <- get ;; sig <- get ;; vert (blen sig =? 64) ;;
  r <- act (APrim PVerify [vkey; msg; sig]) ;;   (* bare except: every failure is False *)
  match r with
  | OOk [x] => put_bool (bytes_to_bool x)
  | _ => put_bool false
  end.

Definition OP_DERIVE_SCALAR : prog unit :=
  cfg <- config_ ;; seed <- get ;; x <- derive_key_from_seed seed ;;
  (if flagon cfg 1 then cache_raw (str "x") x else Ret tt) ;; put x.
Definition OP_CLAMP_SCALAR : prog unit :=
  k <- read 1 ;; v <- get ;; r <- clamp_scalar v (bytes_to_bool k) ;; put r.
Definition OP_ADD_SCALARS : prog unit :=
  n <- read_u8 ;; l <- repeat_get (nat_of n) ;; s <- aggregate_scalars l ;; put s.
Fixpoint sub_go (n : nat) (p : prim) (acc : bytes) : prog bytes :=
  match n with O => Ret acc | S k => x <- get ;; a <- prim1 p [acc; x] ;; sub_go k p a end.
Definition OP_SUBTRACT_SCALARS : prog unit :=
  n <- read_u8 ;; t <- get ;; r <- sub_go (nat_of (n - 1)) PScalarSub t ;; put r.
Definition OP_DERIVE_POINT : prog unit :=
  cfg <- config_ ;; x <- get ;; X <- derive_point x ;;
  (if flagon cfg 2 then cache_raw (str "X") X else Ret tt) ;; put X.
Definition OP_SUBTRACT_POINTS : prog unit :=
  n <- read_u8 ;; t <- get ;; r <- sub_go (nat_of (n - 1)) PPointSub t ;; put r.

Definition when (b : bool) (p : prog unit) : prog unit := if b then p else Ret tt.

Definition OP_MAKE_ADAPTER_SIG_PUBLIC : prog unit :=
  cfg <- config_ ;;
  T <- get ;; m <- get ;; seed <- get ;;
  x <- derive_key_from_seed seed ;; X <- derive_point x ;;
  hs <- H_big [seed] ;; let nonce := skipn 32 hs in
  h1 <- H_big [nonce; m] ;; h2 <- H_small [h1] ;; r <- clamp_scalar h2 false ;;
  R <- derive_point r ;;
  RT <- aggregate_points [R; T] ;;
  h3 <- H_small [RT; X; m] ;; ca <- clamp_scalar h3 false ;;
  cax <- prim1 PScalarMul [ca; x] ;; sa <- prim1 PScalarAdd [r; cax] ;;
  when (flagon cfg 3) (cache_raw (str "r") r) ;;
  when (flagon cfg 4) (cache_raw (str "R") R) ;;
  when (flagon cfg 6) (cache_raw (str "T") T) ;;
  when (flagon cfg 8) (cache_raw (str "sa") sa) ;;
  put R ;; put sa.

Definition OP_MAKE_ADAPTER_SIG_PRIVATE : prog unit :=
  cfg <- config_ ;;
  seed <- get ;; t0 <- get ;; t <- clamp_scalar t0 false ;; m <- get ;;
  x <- derive_key_from_seed seed ;; X <- derive_point x ;; T <- derive_point t ;;
  hs <- H_big [seed] ;; let nonce := skipn 32 hs in
  h2 <- H_small [nonce; m] ;; r <- clamp_scalar h2 false ;;
  R <- derive_point r ;;
  h3 <- H_small [R; X; m] ;; c <- clamp_scalar h3 false ;;
  tr <- prim1 PScalarAdd [t; r] ;;
  cx <- prim1 PScalarMul [c; x] ;; sa <- prim1 PScalarAdd [tr; cx] ;;
  when (flagon cfg 4) (cache_raw (str "R") R) ;;
  when (flagon cfg 5) (cache_raw (str "t") t) ;;
  when (flagon cfg 6) (cache_raw (str "T") T) ;;
  when (flagon cfg 8) (cache_raw (str "sa") sa) ;;
  put T ;; put R ;; put sa.

Definition OP_CHECK_ADAPTER_SIG : prog unit :=
  X <- get ;; T <- get ;; m <- get ;; R <- get ;; sa <- get ;;
  saG <- prim1 PBaseMult [sa] ;;
  (* sa must be canonical: crypto_core_ed25519_scalar_reduce(sa + 32 zero bytes) == sa (D22, fixed) *)
  sar <- prim1 PReduce [sa ++ repeat x00 32] ;;
  RT <- aggregate_points [R; T] ;;
  h <- H_small [RT; X; m] ;; ca <- clamp_scalar h false ;;
  caX <- prim1 PMult [ca; X] ;;
  RcaX <- aggregate_points [R; caX] ;;
  put_bool (bytes_eqb sar sa && bytes_eqb saG RcaX).

Definition OP_DECRYPT_ADAPTER_SIG : prog unit :=
  cfg <- config_ ;;
  t0 <- get ;; t <- clamp_scalar t0 false ;; R <- get ;; sa <- get ;;
  T <- derive_point t ;; RT <- aggregate_points [R; T] ;;
  s <- prim1 PScalarAdd [sa; t] ;;
  when (flagon cfg 7) (cache_raw (str "RT") RT) ;;
  when (flagon cfg 9) (cache_raw (str "s") s) ;;
  put RT ;; put s.

(* ---------- templates ---------- *)

Definition ct_eval (p : ctplugin) (template field : bytes) : bool :=
  match p with
  | CtTrue => true | CtFalse => false
  | CtEq => bytes_eqb template field
  | CtPrefix => bytes_eqb template (firstn (List.length template) field)
  end.
Fixpoint ct_run (l : list (nat * ctplugin)) (template field : bytes) : prog (list bool) :=
  match l with
  | [] => Ret []
  | (i, p) :: t => act (ALog (EvCt i)) ;; r <- ct_run t template field ;; Ret (ct_eval p template field :: r)
  end.

Fixpoint ct_go (idx : list Z) (flag : Z) (valid : bool) : prog bool :=
  match idx with
  | [] => Ret valid
  | i :: t =>
    if Z.testbit flag (i - 1) then
      cfg <- config_ ;;
      template <- get ;;
      f <- act (ACacheGet (sigfield_key i)) ;;
      match f with
      | None => Raise KeyError
      | Some (VOne (ABytes field)) =>
        sert (blen field <=? 1024) ;; sert (blen template <=? 1024) ;;   (* the scratch Stack() *)
        res <- ct_run (c_ctplugins cfg) template field ;;
        let v := match res with
                 | [] => bytes_eqb template field
                 | _ => existsb (fun b => b) res
                 end in
        ct_go t flag (valid && v)
      | Some _ => Raise TypeError
      end
    else ct_go t flag valid
  end.
Definition OP_CHECK_TEMPLATE : prog unit :=
  cfg <- config_ ;;
  when (match flag_get (c_flags cfg) (FKInt 10) with Some v => fval_truthy v | None => true end) run_sig_ext ;;
  f <- read_u8 ;; v <- ct_go [1;2;3;4;5;6;7;8] f true ;; put_bool v.
Definition OP_CHECK_TEMPLATE_VERIFY : prog unit := OP_CHECK_TEMPLATE ;; OP_VERIFY.

(* ---------- taproot ---------- *)

Definition OP_TAPROOT : prog unit :=
  a <- read 1 ;; root <- get ;; sert (blen root =? 32) ;;
  top <- act APeek ;;
  if blen top =? 32 then
    pubkey <- get ;; script <- get ;;
    hs <- prim1 PSha256 [script] ;; h <- prim1 PSha256 [pubkey ++ hs] ;;
    scalar <- clamp_scalar h false ;; point <- derive_point scalar ;;
    point <- aggregate_points [point; pubkey] ;;
    if bytes_eqb point root then put script ;; eval_body else put [x00]
  else
    put root ;; run_sig_ext ;; check_sig_body (be_to_Z a).

Definition NOP : prog unit :=
  b <- read 1 ;; c <- b2i b ;; sert (0 <=? c) ;; l <- repeat_get (nat_of c) ;; Ret tt.

(* ---------- opcode table ---------- *)

Inductive opcode :=
| O_FALSE | O_TRUE | O_PUSH0 | O_PUSH1 | O_PUSH2 | O_GET_MESSAGE | O_POP0 | O_POP1 | O_SIZE
| O_WRITE_CACHE | O_READ_CACHE | O_READ_CACHE_SIZE | O_READ_CACHE_STACK | O_READ_CACHE_STACK_SIZE
| O_ADD_INTS | O_SUBTRACT_INTS | O_MULT_INTS | O_DIV_INT | O_DIV_INTS | O_MOD_INT | O_MOD_INTS
| O_ADD_FLOATS | O_SUBTRACT_FLOATS | O_DIV_FLOAT | O_DIV_FLOATS | O_MOD_FLOAT | O_MOD_FLOATS
| O_ADD_POINTS | O_COPY | O_DUP | O_SHA256 | O_SHAKE256 | O_VERIFY | O_EQUAL | O_EQUAL_VERIFY
| O_CHECK_SIG | O_CHECK_SIG_VERIFY | O_CHECK_TIMESTAMP | O_CHECK_TIMESTAMP_VERIFY
| O_CHECK_EPOCH | O_CHECK_EPOCH_VERIFY | O_DEF | O_CALL | O_IF | O_IF_ELSE | O_EVAL | O_NOT
| O_RANDOM | O_RETURN | O_SET_FLAG | O_UNSET_FLAG | O_DEPTH | O_SWAP | O_SWAP2 | O_REVERSE
| O_CONCAT | O_SPLIT | O_CONCAT_STR | O_SPLIT_STR | O_CHECK_TRANSFER | O_MERKLEVAL | O_TRY_EXCEPT
| O_LESS | O_LESS_OR_EQUAL | O_GET_VALUE | O_FLOAT_LESS | O_FLOAT_LESS_OR_EQUAL | O_INT_TO_FLOAT
| O_FLOAT_TO_INT | O_LOOP | O_CHECK_MULTISIG | O_CHECK_MULTISIG_VERIFY | O_SIGN | O_SIGN_STACK
| O_CHECK_SIG_STACK | O_DERIVE_SCALAR | O_CLAMP_SCALAR | O_ADD_SCALARS | O_SUBTRACT_SCALARS
| O_DERIVE_POINT | O_SUBTRACT_POINTS | O_MAKE_ADAPTER_SIG_PUBLIC | O_MAKE_ADAPTER_SIG_PRIVATE
| O_CHECK_ADAPTER_SIG | O_DECRYPT_ADAPTER_SIG | O_INVOKE | O_XOR | O_OR | O_AND
| O_CHECK_TEMPLATE | O_CHECK_TEMPLATE_VERIFY | O_TAPROOT.

Definition all_opcodes : list opcode :=
  [ O_FALSE; O_TRUE; O_PUSH0; O_PUSH1; O_PUSH2; O_GET_MESSAGE; O_POP0; O_POP1; O_SIZE;
    O_WRITE_CACHE; O_READ_CACHE; O_READ_CACHE_SIZE; O_READ_CACHE_STACK; O_READ_CACHE_STACK_SIZE;
    O_ADD_INTS; O_SUBTRACT_INTS; O_MULT_INTS; O_DIV_INT; O_DIV_INTS; O_MOD_INT; O_MOD_INTS;
    O_ADD_FLOATS; O_SUBTRACT_FLOATS; O_DIV_FLOAT; O_DIV_FLOATS; O_MOD_FLOAT; O_MOD_FLOATS;
    O_ADD_POINTS; O_COPY; O_DUP; O_SHA256; O_SHAKE256; O_VERIFY; O_EQUAL; O_EQUAL_VERIFY;
    O_CHECK_SIG; O_CHECK_SIG_VERIFY; O_CHECK_TIMESTAMP; O_CHECK_TIMESTAMP_VERIFY;
    O_CHECK_EPOCH; O_CHECK_EPOCH_VERIFY; O_DEF; O_CALL; O_IF; O_IF_ELSE; O_EVAL; O_NOT;
    O_RANDOM; O_RETURN; O_SET_FLAG; O_UNSET_FLAG; O_DEPTH; O_SWAP; O_SWAP2; O_REVERSE;
    O_CONCAT; O_SPLIT; O_CONCAT_STR; O_SPLIT_STR; O_CHECK_TRANSFER; O_MERKLEVAL; O_TRY_EXCEPT;
    O_LESS; O_LESS_OR_EQUAL; O_GET_VALUE; O_FLOAT_LESS; O_FLOAT_LESS_OR_EQUAL; O_INT_TO_FLOAT;
    O_FLOAT_TO_INT; O_LOOP; O_CHECK_MULTISIG; O_CHECK_MULTISIG_VERIFY; O_SIGN; O_SIGN_STACK;
    O_CHECK_SIG_STACK; O_DERIVE_SCALAR; O_CLAMP_SCALAR; O_ADD_SCALARS; O_SUBTRACT_SCALARS;
    O_DERIVE_POINT; O_SUBTRACT_POINTS; O_MAKE_ADAPTER_SIG_PUBLIC; O_MAKE_ADAPTER_SIG_PRIVATE;
    O_CHECK_ADAPTER_SIG; O_DECRYPT_ADAPTER_SIG; O_INVOKE; O_XOR; O_OR; O_AND;
    O_CHECK_TEMPLATE; O_CHECK_TEMPLATE_VERIFY; O_TAPROOT ].

Definition opcode_of_nat (n : nat) : option opcode := nth_error all_opcodes n.

Definition op_prog (o : opcode) : prog unit :=
  match o with
  | O_FALSE => OP_FALSE | O_TRUE => OP_TRUE | O_PUSH0 => OP_PUSH0 | O_PUSH1 => OP_PUSH1
  | O_PUSH2 => OP_PUSH2 | O_GET_MESSAGE => OP_GET_MESSAGE | O_POP0 => OP_POP0 | O_POP1 => OP_POP1
  | O_SIZE => OP_SIZE | O_WRITE_CACHE => OP_WRITE_CACHE | O_READ_CACHE => OP_READ_CACHE
  | O_READ_CACHE_SIZE => OP_READ_CACHE_SIZE | O_READ_CACHE_STACK => OP_READ_CACHE_STACK
  | O_READ_CACHE_STACK_SIZE => OP_READ_CACHE_STACK_SIZE | O_ADD_INTS => OP_ADD_INTS
  | O_SUBTRACT_INTS => OP_SUBTRACT_INTS | O_MULT_INTS => OP_MULT_INTS | O_DIV_INT => OP_DIV_INT
  | O_DIV_INTS => OP_DIV_INTS | O_MOD_INT => OP_MOD_INT | O_MOD_INTS => OP_MOD_INTS
  | O_ADD_FLOATS => OP_ADD_FLOATS | O_SUBTRACT_FLOATS => OP_SUBTRACT_FLOATS
  | O_DIV_FLOAT => OP_DIV_FLOAT | O_DIV_FLOATS => OP_DIV_FLOATS | O_MOD_FLOAT => OP_MOD_FLOAT
  | O_MOD_FLOATS => OP_MOD_FLOATS | O_ADD_POINTS => OP_ADD_POINTS | O_COPY => OP_COPY
  | O_DUP => OP_DUP | O_SHA256 => OP_SHA256 | O_SHAKE256 => OP_SHAKE256 | O_VERIFY => OP_VERIFY
  | O_EQUAL => OP_EQUAL | O_EQUAL_VERIFY => OP_EQUAL_VERIFY | O_CHECK_SIG => OP_CHECK_SIG
  | O_CHECK_SIG_VERIFY => OP_CHECK_SIG_VERIFY | O_CHECK_TIMESTAMP => OP_CHECK_TIMESTAMP
  | O_CHECK_TIMESTAMP_VERIFY => OP_CHECK_TIMESTAMP_VERIFY | O_CHECK_EPOCH => OP_CHECK_EPOCH
  | O_CHECK_EPOCH_VERIFY => OP_CHECK_EPOCH_VERIFY | O_DEF => OP_DEF | O_CALL => OP_CALL
  | O_IF => OP_IF | O_IF_ELSE => OP_IF_ELSE | O_EVAL => OP_EVAL | O_NOT => OP_NOT
  | O_RANDOM => OP_RANDOM | O_RETURN => OP_RETURN | O_SET_FLAG => OP_SET_FLAG
  | O_UNSET_FLAG => OP_UNSET_FLAG | O_DEPTH => OP_DEPTH | O_SWAP => OP_SWAP | O_SWAP2 => OP_SWAP2
  | O_REVERSE => OP_REVERSE | O_CONCAT => OP_CONCAT | O_SPLIT => OP_SPLIT
  | O_CONCAT_STR => OP_CONCAT_STR | O_SPLIT_STR => OP_SPLIT_STR
  | O_CHECK_TRANSFER => OP_CHECK_TRANSFER | O_MERKLEVAL => OP_MERKLEVAL
  | O_TRY_EXCEPT => OP_TRY_EXCEPT | O_LESS => OP_LESS | O_LESS_OR_EQUAL => OP_LESS_OR_EQUAL
  | O_GET_VALUE => OP_GET_VALUE | O_FLOAT_LESS => OP_FLOAT_LESS
  | O_FLOAT_LESS_OR_EQUAL => OP_FLOAT_LESS_OR_EQUAL | O_INT_TO_FLOAT => OP_INT_TO_FLOAT
  | O_FLOAT_TO_INT => OP_FLOAT_TO_INT | O_LOOP => OP_LOOP | O_CHECK_MULTISIG => OP_CHECK_MULTISIG
  | O_CHECK_MULTISIG_VERIFY => OP_CHECK_MULTISIG_VERIFY | O_SIGN => OP_SIGN
  | O_SIGN_STACK => OP_SIGN_STACK | O_CHECK_SIG_STACK => OP_CHECK_SIG_STACK
  | O_DERIVE_SCALAR => OP_DERIVE_SCALAR | O_CLAMP_SCALAR => OP_CLAMP_SCALAR
  | O_ADD_SCALARS => OP_ADD_SCALARS | O_SUBTRACT_SCALARS => OP_SUBTRACT_SCALARS
  | O_DERIVE_POINT => OP_DERIVE_POINT | O_SUBTRACT_POINTS => OP_SUBTRACT_POINTS
  | O_MAKE_ADAPTER_SIG_PUBLIC => OP_MAKE_ADAPTER_SIG_PUBLIC
  | O_MAKE_ADAPTER_SIG_PRIVATE => OP_MAKE_ADAPTER_SIG_PRIVATE
  | O_CHECK_ADAPTER_SIG => OP_CHECK_ADAPTER_SIG | O_DECRYPT_ADAPTER_SIG => OP_DECRYPT_ADAPTER_SIG
  | O_INVOKE => OP_INVOKE | O_XOR => OP_XOR | O_OR => OP_OR | O_AND => OP_AND
  | O_CHECK_TEMPLATE => OP_CHECK_TEMPLATE | O_CHECK_TEMPLATE_VERIFY => OP_CHECK_TEMPLATE_VERIFY
  | O_TAPROOT => OP_TAPROOT
  end.

(* dispatch of run_tape: assigned codes run their instruction, every other code runs NOP *)
Definition dispatch (code : nat) : prog unit :=
  match opcode_of_nat code with Some o => op_prog o | None => NOP end.
