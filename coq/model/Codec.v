(* tapescript.functions: bytes_to_int, int_to_bytes, uint_to_bytes. *)
From Coq Require Import ZArith List Bool Lia.
From Coq.Strings Require Import Byte.
From TS Require Import Bytes.
Import ListNotations.
Open Scope Z_scope.

(* bytes_to_int: None = ValueError('number must not be empty') *)
Definition bytes_to_int (b : bytes) : option Z :=
  match b with
  | [] => None
  | _ =>
    let size := 8 * blen b in
    let n := be_to_Z b in
    let negative := Z.shiftr n (size - 1) in
    Some (if negative =? 0 then n else n - 2 ^ size)
  end.

(* int.to_bytes(n_bytes, 'big'): None = OverflowError *)
Definition to_bytes (n_bytes : Z) (v : Z) : option bytes :=
  if (v <? 0) || (2 ^ (8 * n_bytes) <=? v) || (n_bytes <? 0) then None
  else Some (Z_to_be (Z.to_nat n_bytes) v).

(* int_to_bytes; [fl2 a] stands for floor(log2(a)) as computed by math.log2 (float) *)
Definition int_to_bytes (fl2 : Z -> Z) (number : Z) : option bytes :=
  let negative := number <? 0 in
  let a := Z.abs number in
  let n_bits := if a =? 0 then 1 else fl2 a + 1 in
  let n_bytes := (n_bits + 7) / 8 in
  if negative then
    let n_bytes' :=
      if (n_bits mod 8 =? 0) && (2 ^ (n_bytes * 8 - 1) <? a) then n_bytes + 1 else n_bytes in
    to_bytes n_bytes' (2 ^ (n_bytes' * 8 - 1) + (2 ^ (n_bytes' * 8 - 1) - a))
  else
    let n_bytes' := if n_bits mod 8 =? 0 then n_bytes + 1 else n_bytes in
    to_bytes n_bytes' a.

Definition uint_to_bytes (fl2 : Z -> Z) (number : Z) : option bytes :=
  let n_bits := if number =? 0 then 1 else fl2 number + 1 in
  to_bytes ((n_bits + 7) / 8) number.

(* the exact floor(log2) *)
Definition fl2_exact (a : Z) : Z := Z.log2 a.
