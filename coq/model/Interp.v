(* Meaning of the actions, the fetch/dispatch loop, run_script and run_auth_scripts. *)
From Coq Require Import ZArith List Bool.
From Coq.Strings Require Import Byte String.
From TS Require Import Bytes Codec State Prog Ops.
Import ListNotations.
Open Scope Z_scope.

Inductive sres (X : Type) :=
| SOk (x : X) (fr : frame) (st : state)
| SRaise (e : exn) (fr : frame) (st : state)
| SFuel
| SUnmod (w : string).
Arguments SOk {X}. Arguments SRaise {X}. Arguments SFuel {X}. Arguments SUnmod {X}.

Definition returned_key : ckey := KStr (str "returned").

Fixpoint swap_nth (l : list bytes) (i j : nat) : list bytes :=
  list_set (list_set l i (nth j l [])) j (nth i l []).

Section Interp.
Variable orc : oracle.
Variable cfg : config.

Definition cur (fr : frame) (st : state) : tapeobj := nth_tape st (fr_tid fr).

Definition set_count (st : state) (tid : nat) (c : Z) : state :=
  let t := nth_tape st tid in
  with_tapes st (list_set (st_tapes st) tid {| to_data := to_data t; to_count := c; to_defs := to_defs t |}).

Definition new_tape (st : state) (t : tapeobj) : nat * state :=
  (List.length (st_tapes st), with_tapes st (st_tapes st ++ [t])).

(* result of running a sub-tape, seen from the calling instruction *)
Definition after_run (fr : frame) (r : outcome unit) : sres unit :=
  match r with
  | Done _ _ st' => SOk tt fr st'
  | Raised e _ st' => SRaise e fr st'
  | OutOfFuel => SFuel
  | Unmodelled w => SUnmod w
  end.

Definition step (run : nat -> state -> outcome unit) {X} (a : action X) (fr : frame) (st : state) : sres X :=
  match a in action X return sres X with
  | AGet =>
    match st_stack st with
    | [] => SRaise IndexError fr st
    | x :: s => SOk x fr (with_stack st s)
    end
  | APut b =>
    if (c_max_item_size cfg <? List.length b)%nat then SRaise ScriptExecutionError fr st
    else if (c_max_items cfg <=? List.length (st_stack st))%nat then SRaise ScriptExecutionError fr st
    else SOk tt fr (with_stack st (b :: st_stack st))
  | APeek =>
    match st_stack st with
    | [] => SRaise IndexError fr st
    | x :: _ => SOk x fr st
    end
  | ADepth => SOk (Z.of_nat (List.length (st_stack st))) fr st
  | ASwapIdx i j =>
    let n := List.length (st_stack st) in
    if ((Z.to_nat i <? n) && (Z.to_nat j <? n))%nat
    then SOk tt fr (with_stack st (swap_nth (st_stack st) (Z.to_nat i) (Z.to_nat j)))
    else SUnmod "swap index"
  | ARead n =>
    let data := to_data (cur fr st) in
    let k := Z.to_nat n in
    if (List.length data <? fr_ptr fr + k)%nat then SRaise ScriptExecutionError fr st
    else SOk (firstn k (skipn (fr_ptr fr) data))
             {| fr_tid := fr_tid fr; fr_ptr := (fr_ptr fr + k)%nat |} st
  | ASetPtrEnd =>
    SOk tt {| fr_tid := fr_tid fr; fr_ptr := List.length (to_data (cur fr st)) |} st
  | ACount => SOk (to_count (cur fr st)) fr st
  | ACountIncr => SOk tt fr (set_count st (fr_tid fr) (to_count (cur fr st) + 1))
  | ACacheGet k => SOk (cache_get (st_cache st) k) fr st
  | ACacheSet k v => SOk tt fr (with_cache st (cache_set (st_cache st) (KBytes k) v))
  | AReturnedSet => SOk tt fr (with_cache st (cache_set (st_cache st) returned_key (VOne (ABool true))))
  | AReturnedClear => SOk tt fr (with_cache st (cache_del (st_cache st) returned_key))
  | AReturnedTest =>
    SOk (match cache_get (st_cache st) returned_key with Some _ => true | None => false end) fr st
  | AConfig => SOk cfg fr st
  | APrim p args => SOk (orc p args) fr st
  | ARandIdx => SOk (st_rand st) fr (with_rand st (st_rand st + 1))
  | ADefSet h data =>
    let did := to_defs (cur fr st) in
    let '(tid, st1) := new_tape st {| to_data := data; to_count := 0; to_defs := did |} in
    SOk tt fr (with_defs st1 (list_set (st_defs st1) did (defs_put (nth_defs st1 did) h tid)))
  | ADefGet h => SOk (defs_get (nth_defs st (to_defs (cur fr st))) h) fr st
  | ACallDef tid =>
    let st1 := set_count st tid (to_count (cur fr st)) in
    after_run fr (run tid st1)
  | ARunSub k data =>
    let c := cur fr st in
    let did := List.length (st_defs st) in
    let st1 := with_defs st (st_defs st ++ [nth_defs st (to_defs c)]) in
    let '(tid, st2) := new_tape st1 {| to_data := data;
                                       to_count := match k with SubCopy => to_count c | SubEval => to_count c + 1 end;
                                       to_defs := did |} in
    after_run fr (run tid st2)
  | ATrySub data =>
    let c := cur fr st in
    let did := List.length (st_defs st) in
    let st1 := with_defs st (st_defs st ++ [nth_defs st (to_defs c)]) in
    let '(tid, st2) := new_tape st1 {| to_data := data; to_count := to_count c; to_defs := did |} in
    match run tid st2 with
    | Done _ _ st' => SOk None fr st'
    | Raised e _ st' => SOk (Some e) fr st'
    | OutOfFuel => SFuel
    | Unmodelled w => SUnmod w
    end
  | ALoopNew data =>
    let c := cur fr st in
    let '(tid, st1) := new_tape st {| to_data := data; to_count := to_count c; to_defs := to_defs c |} in
    SOk tid fr st1
  | ARunLoop tid => after_run fr (run tid st)
  | ALog e => SOk tt fr (with_log st (e :: st_log st))
  end.

Fixpoint interp (run : nat -> state -> outcome unit) {A} (p : prog A) (fr : frame) (st : state) : outcome A :=
  match p with
  | Ret a => Done a fr st
  | Raise e => Raised e fr st
  | Unmod w => Unmodelled w
  | Act a k =>
    match step run a fr st with
    | SOk x fr' st' => interp run (k x) fr' st'
    | SRaise e fr' st' => Raised e fr' st'
    | SFuel => OutOfFuel
    | SUnmod w => Unmodelled w
    end
  end.

(* run_tape: the fetch / dispatch loop, from pointer [ptr] of tape object [tid] *)
Fixpoint run_tape (fuel : nat) (tid : nat) (ptr : nat) (st : state) : outcome unit :=
  match fuel with
  | O => OutOfFuel
  | S f =>
    let data := to_data (nth_tape st tid) in
    if (List.length data <=? ptr)%nat then Done tt {| fr_tid := tid; fr_ptr := ptr |} st
    else
      let code := N.to_nat (Byte.to_N (nth ptr data x00)) in
      match interp (fun t s => run_tape f t 0%nat s) (dispatch code)
                   {| fr_tid := tid; fr_ptr := S ptr |} st with
      | Done _ fr' st' => run_tape f tid (fr_ptr fr') st'
      | Raised e fr' st' => Raised e fr' st'
      | OutOfFuel => OutOfFuel
      | Unmodelled w => Unmodelled w
      end
  end.

Definition init_cache (vals : cache) : cache :=
  fold_left (fun c kv => cache_set c (fst kv) (snd kv)) vals
            [(KStr (str "timestamp"), VOne (AInt (c_now cfg)))].

Definition init_state (script : bytes) (vals : cache) : state :=
  {| st_stack := []; st_cache := init_cache vals;
     st_tapes := [{| to_data := script; to_count := 0; to_defs := 0%nat |}];
     st_defs := [[]]; st_log := []; st_rand := 0 |}.

Definition run_script (fuel : nat) (script : bytes) (vals : cache) : outcome unit :=
  run_tape fuel 0%nat 0%nat (init_state script vals).

Inductive auth_result := AuthVerdict (b : bool) (st : state) | AuthFuel | AuthUnmod (w : string).

(* later scripts: fresh Tape sharing count and definitions of the previous top-level tape *)
Fixpoint auth_rest (fuel : nat) (scripts : list bytes) (prev : nat) (st : state) : auth_result :=
  match scripts with
  | [] =>
    match st_stack st with
    | [item] => AuthVerdict (bytes_eqb item [xff]) (with_stack st [])
    | _ => AuthVerdict false st
    end
  | s :: rest =>
    let p := nth_tape st prev in
    let '(tid, st1) := new_tape st {| to_data := s; to_count := to_count p; to_defs := to_defs p |} in
    let st2 := with_cache st1 (cache_del (st_cache st1) returned_key) in
    match run_tape fuel tid 0%nat st2 with
    | Done _ _ st' => auth_rest fuel rest tid st'
    | Raised _ _ st' => AuthVerdict false st'
    | OutOfFuel => AuthFuel
    | Unmodelled w => AuthUnmod w
    end
  end.

Definition run_auth_scripts (fuel : nat) (scripts : list bytes) (vals : cache) : auth_result :=
  match scripts with
  | [] => AuthUnmod "empty script list (ValueError before the try)"
  | s :: rest =>
    match run_script fuel s vals with
    | Done _ _ st => auth_rest fuel rest 0%nat st
    | Raised _ _ st => AuthVerdict false st
    | OutOfFuel => AuthFuel
    | Unmodelled w => AuthUnmod w
    end
  end.

End Interp.
