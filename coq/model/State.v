(* Exceptions, cache values, configuration, machine state and outcomes. *)
From Coq Require Import ZArith List Bool.
From Coq.Strings Require Import Byte String.
From TS Require Import Bytes.
Import ListNotations.
Open Scope Z_scope.

(* exception classes, compared by class name only *)
Inductive exn :=
| ScriptExecutionError | ValueError | TypeError | IndexError | KeyError
| ZeroDivisionError | OverflowError | UnicodeDecodeError | AssertionError
| BadSignatureError | CryptoError | RuntimeError | StructError | OtherError.

Definition exn_name (e : exn) : bytes :=
  match e with
  | ScriptExecutionError => str "ScriptExecutionError"
  | ValueError => str "ValueError" | TypeError => str "TypeError"
  | IndexError => str "IndexError" | KeyError => str "KeyError"
  | ZeroDivisionError => str "ZeroDivisionError" | OverflowError => str "OverflowError"
  | UnicodeDecodeError => str "UnicodeDecodeError" | AssertionError => str "AssertionError"
  | BadSignatureError => str "BadSignatureError" | CryptoError => str "CryptoError"
  | RuntimeError => str "RuntimeError" | StructError => str "error"
  | OtherError => str "OtherError"
  end.

(* cache: one namespace with str keys (embedder / interpreter) and bytes keys (script) *)
Inductive ckey := KStr (s : bytes) | KBytes (b : bytes).
Inductive atom :=
| ABytes (b : bytes) | AStr (b : bytes) | AInt (z : Z) | AFloat (b : bytes) | ABool (b : bool) | AOther
| AByteArr (b : bytes).   (* a bytearray supplied by the embedder: Stack.put rejects it (TypeError); as a sigfield it is read like bytes *)
Inductive cval := VOne (a : atom) | VMany (l : list atom).

Definition ckey_eqb (a b : ckey) : bool :=
  match a, b with
  | KStr x, KStr y => bytes_eqb x y
  | KBytes x, KBytes y => bytes_eqb x y
  | _, _ => false
  end.

Definition cache := list (ckey * cval).

Fixpoint cache_get (c : cache) (k : ckey) : option cval :=
  match c with
  | [] => None
  | (k', v) :: t => if ckey_eqb k' k then Some v else cache_get t k
  end.
Fixpoint cache_set (c : cache) (k : ckey) (v : cval) : cache :=
  match c with
  | [] => [(k, v)]
  | (k', v') :: t => if ckey_eqb k' k then (k, v) :: t else (k', v') :: cache_set t k v
  end.
Fixpoint cache_del (c : cache) (k : ckey) : cache :=
  match c with
  | [] => []
  | (k', v') :: t => if ckey_eqb k' k then cache_del t k else (k', v') :: cache_del t k
  end.

(* flags: str / int keys; int / bool values *)
Inductive fkey := FKStr (s : bytes) | FKInt (z : Z).
Inductive fval := FVInt (z : Z) | FVBool (b : bool) | FVOther.
Definition fkey_eqb (a b : fkey) : bool :=
  match a, b with
  | FKStr x, FKStr y => bytes_eqb x y
  | FKInt x, FKInt y => x =? y
  | _, _ => false
  end.
Fixpoint flag_get (f : list (fkey * fval)) (k : fkey) : option fval :=
  match f with
  | [] => None
  | (k', v) :: t => if fkey_eqb k' k then Some v else flag_get t k
  end.
Definition fval_truthy (v : fval) : bool :=
  match v with FVInt z => negb (z =? 0) | FVBool b => b | FVOther => true end.
Definition flag_on (f : list (fkey * fval)) (k : fkey) : bool :=
  match flag_get f k with Some v => fval_truthy v | None => false end.

(* mirrored plugin / contract families (the harness installs the same ones) *)
Inductive ctplugin := CtTrue | CtFalse | CtEq | CtPrefix.     (* check_template plugins *)
Inductive contract :=
| CEcho        (* abi(args) = args *)
| CNone        (* abi(args) = None *)
| CRev         (* abi(args) = reversed(args) *)
| CBadRet      (* abi(args) = [1] : not bytes *)
| CTransfer.   (* CanCheckTransfer only: deterministic toy ledger *)

Inductive event :=
| EvSigExt (id : nat)            (* signature-extension plugin [id] ran *)
| EvCt (id : nat)                (* check_template plugin ran *)
| EvInvoke (cid : bytes) (args : list bytes)
| EvAlloc (n : Z)                (* an instruction asked for n fresh bytes *)
| EvEnter (depth : nat).         (* a sub-tape started executing *)

Record config := {
  c_max_items : nat;
  c_max_item_size : nat;
  c_limit : Z;                                 (* callstack_limit *)
  c_flags : list (fkey * fval);                (* flags of every tape of the run *)
  c_sigext : list nat;                         (* signature_extensions plugins *)
  c_ctplugins : list (nat * ctplugin);         (* check_template plugins *)
  c_contracts : list (bytes * contract);
  c_now : Z;                                   (* int(time()) *)
}.

(* heap objects: Tape objects that outlive one instruction *)
Record tapeobj := { to_data : bytes; to_count : Z; to_defs : nat }.

Record state := {
  st_stack : list bytes;                       (* head = top *)
  st_cache : cache;
  st_tapes : list tapeobj;
  st_defs : list (list (byte * nat));          (* definition dicts: handle -> tape id *)
  st_log : list event;                         (* newest first *)
  st_rand : Z;                                 (* OP_RANDOM calls so far *)
}.

Record frame := { fr_tid : nat; fr_ptr : nat }.

Inductive outcome (A : Type) :=
| Done (a : A) (fr : frame) (st : state)
| Raised (e : exn) (fr : frame) (st : state)
| OutOfFuel
| Unmodelled (why : string).
Arguments Done {A}. Arguments Raised {A}. Arguments OutOfFuel {A}. Arguments Unmodelled {A}.

Definition nth_tape (st : state) (tid : nat) : tapeobj :=
  nth tid (st_tapes st) {| to_data := []; to_count := 0; to_defs := 0 |}.
Definition nth_defs (st : state) (did : nat) : list (byte * nat) := nth did (st_defs st) [].

Fixpoint list_set {A} (l : list A) (i : nat) (x : A) : list A :=
  match l, i with
  | [], _ => []
  | _ :: t, O => x :: t
  | h :: t, S j => h :: list_set t j x
  end.

Fixpoint defs_get (d : list (byte * nat)) (h : byte) : option nat :=
  match d with
  | [] => None
  | (h', t) :: r => if Byte.eqb h' h then Some t else defs_get r h
  end.
Fixpoint defs_put (d : list (byte * nat)) (h : byte) (t : nat) : list (byte * nat) :=
  match d with
  | [] => [(h, t)]
  | (h', t') :: r => if Byte.eqb h' h then (h, t) :: r else (h', t') :: defs_put r h t
  end.

Definition with_stack (st : state) (s : list bytes) : state :=
  {| st_stack := s; st_cache := st_cache st; st_tapes := st_tapes st; st_defs := st_defs st;
     st_log := st_log st; st_rand := st_rand st |}.
Definition with_cache (st : state) (c : cache) : state :=
  {| st_stack := st_stack st; st_cache := c; st_tapes := st_tapes st; st_defs := st_defs st;
     st_log := st_log st; st_rand := st_rand st |}.
Definition with_tapes (st : state) (t : list tapeobj) : state :=
  {| st_stack := st_stack st; st_cache := st_cache st; st_tapes := t; st_defs := st_defs st;
     st_log := st_log st; st_rand := st_rand st |}.
Definition with_defs (st : state) (d : list (list (byte * nat))) : state :=
  {| st_stack := st_stack st; st_cache := st_cache st; st_tapes := st_tapes st; st_defs := d;
     st_log := st_log st; st_rand := st_rand st |}.
Definition with_log (st : state) (l : list event) : state :=
  {| st_stack := st_stack st; st_cache := st_cache st; st_tapes := st_tapes st; st_defs := st_defs st;
     st_log := l; st_rand := st_rand st |}.
Definition with_rand (st : state) (r : Z) : state :=
  {| st_stack := st_stack st; st_cache := st_cache st; st_tapes := st_tapes st; st_defs := st_defs st;
     st_log := st_log st; st_rand := r |}.
