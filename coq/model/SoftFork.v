(* The VM after add_soft_fork: one unassigned opcode byte [fcode] is given a new meaning.
   The new op has the operand and the pops of NOP (one signed count byte, that many items
   removed), and afterwards it may raise, depending only on the removed items.
   Definitions only; the compatibility theorem is in proofs/SoftForkProofs.v. *)
From Coq Require Import ZArith List Bool.
From Coq.Strings Require Import Byte String.
From TS Require Import Bytes Codec State Prog Ops Interp.
Import ListNotations.
Open Scope Z_scope.
Open Scope prog_scope.

Section SoftFork.
Variable orc : oracle.
Variable cfg : config.
Variable fcode : nat.                  (* the opcode byte taken by the fork *)
Variable pred : list bytes -> bool.    (* the check of the fork op on the removed items *)

(* the forked op: same operand and same pops as NOP, then it may raise, depending only on the
   popped items; a raise is recorded in the log (instrumentation: [EvEnter] is produced by no
   instruction of Ops.v) so that theorems can talk about "the fork op raised" *)
Definition fork_op : prog unit :=
  b <- read 1 ;; c <- b2i b ;; sert (0 <=? c)%Z ;; l <- repeat_get (nat_of c) ;;
  if pred l then Ret tt else (act (ALog (EvEnter fcode)) ;; Raise ScriptExecutionError).

Definition dispatch_f (code : nat) : prog unit :=
  if Nat.eqb code fcode then fork_op else dispatch code.

(* run_tape of Interp.v with dispatch_f; sub-tapes run on the upgraded VM as well *)
Fixpoint run_tape_f (fuel : nat) (tid : nat) (ptr : nat) (st : state) : outcome unit :=
  match fuel with
  | O => OutOfFuel
  | S f =>
    let data := to_data (nth_tape st tid) in
    if (List.length data <=? ptr)%nat then Done tt {| fr_tid := tid; fr_ptr := ptr |} st
    else
      let code := N.to_nat (Byte.to_N (nth ptr data x00)) in
      match interp orc cfg (fun t s => run_tape_f f t 0%nat s) (dispatch_f code)
                   {| fr_tid := tid; fr_ptr := S ptr |} st with
      | Done _ fr' st' => run_tape_f f tid (fr_ptr fr') st'
      | Raised e fr' st' => Raised e fr' st'
      | OutOfFuel => OutOfFuel
      | Unmodelled w => Unmodelled w
      end
  end.

Definition run_script_f (fuel : nat) (script : bytes) (vals : cache) : outcome unit :=
  run_tape_f fuel 0%nat 0%nat (init_state cfg script vals).

Fixpoint auth_rest_f (fuel : nat) (scripts : list bytes) (prev : nat) (st : state) : auth_result :=
  match scripts with
  | [] =>
    match st_stack st with
    | [item] => AuthVerdict (bytes_eqb item [xff]) (with_stack st [])
    | _ => AuthVerdict false st
    end
  | s :: rest =>
    let p := nth_tape st prev in
    let '(tid, st1) := new_tape st {| to_data := s; to_count := to_count p; to_defs := to_defs p |} in
    let st2 := with_cache st1 (cache_del (st_cache st1) returned_key) in
    match run_tape_f fuel tid 0%nat st2 with
    | Done _ _ st' => auth_rest_f fuel rest tid st'
    | Raised _ _ st' => AuthVerdict false st'
    | OutOfFuel => AuthFuel
    | Unmodelled w => AuthUnmod w
    end
  end.

Definition run_auth_scripts_f (fuel : nat) (scripts : list bytes) (vals : cache) : auth_result :=
  match scripts with
  | [] => AuthUnmod "empty script list (ValueError before the try)"
  | s :: rest =>
    match run_script_f fuel s vals with
    | Done _ _ st => auth_rest_f fuel rest 0%nat st
    | Raised _ _ st => AuthVerdict false st
    | OutOfFuel => AuthFuel
    | Unmodelled w => AuthUnmod w
    end
  end.

End SoftFork.

(* the predicates used by the correspondence run (harness/forkstream.py installs the same ops in the implementation with
   add_soft_fork): a small family of checks on the removed items, [l] in the order they were popped (top first) *)
Definition pred_top (l : list bytes) : bool := match l with [] => true | x :: _ => bytes_to_bool x end.
Definition pred_fam (k : nat) (l : list bytes) : bool :=
  match k with
  | 0%nat => pred_top l                                                             (* fails when the first removed item is false *)
  | 1%nat => forallb bytes_to_bool l                                                (* fails when any removed item is false *)
  | 2%nat => match l with a :: b :: _ => bytes_eqb a b | _ => true end              (* fails when the first two removed items differ *)
  | 3%nat => match l with x :: _ => (2 <=? List.length x)%nat | [] => true end      (* fails when the first removed item is shorter than 2 bytes *)
  | 4%nat => false                                                                  (* always fails *)
  | _ => true                                                                   (* never fails: indistinguishable from NOP *)
  end.
(* [fk] = code + 256 * (index of the predicate in the family) *)
Definition run_script_fork (orc : oracle) (cfg : config) (fk : nat) :=
  run_script_f orc cfg (Nat.modulo fk 256%nat) (pred_fam (Nat.div fk 256%nat)).
Definition run_auth_fork (orc : oracle) (cfg : config) (fk : nat) :=
  run_auth_scripts_f orc cfg (Nat.modulo fk 256%nat) (pred_fam (Nat.div fk 256%nat)).
