(* Registry.v — executable model of the module-level extension registries of
   tapescript/functions.py (_plugins, _contracts, _contract_interfaces, opcode_aliases) and of
   what run_script takes from them.  Definitions only; the proofs are in proofs/RegistryProofs.v.

   Scopes, plugins, contract ids, contract objects, interface names, aliases and op names are
   all identified with [nat].  A Python dict is an association list with unique keys in
   insertion order: assignment to an existing key keeps its position, assignment to a new key
   appends, [del] drops the entry.  A Python list is a [list]; [list.remove] drops the first
   equal element. *)
From Coq Require Import List Bool Arith.
Import ListNotations.

(* ---------- association lists (Python dicts with nat keys) ---------- *)
Section Assoc.
  Context {A : Type}.

  (* d.get(k) *)
  Fixpoint alookup (k : nat) (l : list (nat * A)) : option A :=
    match l with
    | [] => None
    | (k', v) :: t => if Nat.eqb k k' then Some v else alookup k t
    end.

  (* k in d *)
  Definition amem (k : nat) (l : list (nat * A)) : bool :=
    match alookup k l with Some _ => true | None => false end.

  (* d[k] = v *)
  Fixpoint aset (k : nat) (v : A) (l : list (nat * A)) : list (nat * A) :=
    match l with
    | [] => [(k, v)]
    | (k', v') :: t => if Nat.eqb k k' then (k', v) :: t else (k', v') :: aset k v t
    end.

  (* if k in d: del d[k] *)
  Fixpoint adel (k : nat) (l : list (nat * A)) : list (nat * A) :=
    match l with
    | [] => []
    | (k', v') :: t => if Nat.eqb k k' then t else (k', v') :: adel k t
    end.
End Assoc.

(* x in l *)
Definition mem (n : nat) (l : list nat) : bool := existsb (Nat.eqb n) l.

(* if x in l: l.remove(x)   — first occurrence only, as Python does *)
Fixpoint remove_first (n : nat) (l : list nat) : list nat :=
  match l with
  | [] => []
  | x :: t => if Nat.eqb n x then t else x :: remove_first n t
  end.

(* ---------- registry state, operations ---------- *)
Record reg := {
  r_plugins   : list (nat * list nat);   (* _plugins: scope -> list of plugins *)
  r_contracts : list (nat * nat);        (* _contracts: contract id -> contract object *)
  r_ifaces    : list nat;                (* _contract_interfaces (keys; the value is determined by the name) *)
  r_aliases   : list (nat * nat)         (* opcode_aliases: alias -> op name *)
}.

Inductive rop :=
| AddPlugin (s p : nat) | RemovePlugin (s p : nat) | ResetPlugins (s : nat)
| AddContract (id k : nat) | RemoveContract (id : nat)
| AddIface (i : nat) | RemoveIface (i : nat)
| AddAlias (a o : nat).

Inductive rout := ROk | RErr.   (* RErr: the call raised *)

Definition set_plugins (r : reg) (x : list (nat * list nat)) : reg :=
  {| r_plugins := x; r_contracts := r_contracts r; r_ifaces := r_ifaces r; r_aliases := r_aliases r |}.
Definition set_contracts (r : reg) (x : list (nat * nat)) : reg :=
  {| r_plugins := r_plugins r; r_contracts := x; r_ifaces := r_ifaces r; r_aliases := r_aliases r |}.
Definition set_ifaces (r : reg) (x : list nat) : reg :=
  {| r_plugins := r_plugins r; r_contracts := r_contracts r; r_ifaces := x; r_aliases := r_aliases r |}.
Definition set_aliases (r : reg) (x : list (nat * nat)) : reg :=
  {| r_plugins := r_plugins r; r_contracts := r_contracts r; r_ifaces := r_ifaces r; r_aliases := x |}.

(* _plugins.get(s, []) : the registry's plugin list of scope s *)
Definition plugins_of (r : reg) (s : nat) : list nat :=
  match alookup s (r_plugins r) with Some l => l | None => [] end.

(* [implements k i]: isinstance(contract k, interface i).  [known_op o]: o in opcodes_inverse. *)
Definition rstep (implements : nat -> nat -> bool) (known_op : nat -> bool)
                 (r : reg) (o : rop) : reg * rout :=
  match o with
  | AddPlugin s p =>
      (* if scope not in _plugins: _plugins[scope] = []
         if plugin not in _plugins[scope]: _plugins[scope].append(plugin) *)
      let l := plugins_of r s in
      let l' := if mem p l then l else l ++ [p] in
      (set_plugins r (aset s l' (r_plugins r)), ROk)
  | RemovePlugin s p =>
      match alookup s (r_plugins r) with
      | None => (r, ROk)
      | Some l => (set_plugins r (aset s (remove_first p l) (r_plugins r)), ROk)
      end
  | ResetPlugins s =>
      match alookup s (r_plugins r) with
      | None => (r, ROk)
      | Some _ => (set_plugins r (aset s [] (r_plugins r)), ROk)
      end
  | AddContract id k =>
      (* _check_contract: at least one registered interface matches *)
      if existsb (implements k) (r_ifaces r)
      then (set_contracts r (aset id k (r_contracts r)), ROk)
      else (r, RErr)
  | RemoveContract id => (set_contracts r (adel id (r_contracts r)), ROk)
  | AddIface i =>
      (set_ifaces r (if mem i (r_ifaces r) then r_ifaces r else r_ifaces r ++ [i]), ROk)
  | RemoveIface i => (set_ifaces r (remove_first i (r_ifaces r)), ROk)
  | AddAlias a o' =>
      if known_op o' && negb (amem a (r_aliases r))
      then (set_aliases r (aset a o' (r_aliases r)), ROk)
      else (r, RErr)
  end.

(* import-time state: scopes 0 ('signature_extensions') and 1 ('check_template') present, empty *)
Definition reg_init (ifaces : list nat) (aliases : list (nat * nat)) : reg :=
  {| r_plugins := [(0, []); (1, [])]; r_contracts := []; r_ifaces := ifaces; r_aliases := aliases |}.

(* registry after a history of calls (exceptions caught by the caller) *)
Definition run_reg (implements : nat -> nat -> bool) (known_op : nat -> bool)
                   (r0 : reg) (ops : list rop) : reg :=
  fold_left (fun r o => fst (rstep implements known_op r o)) ops r0.

(* the same, also collecting the outcome of every call (for the differential harness) *)
Fixpoint run_trace (implements : nat -> nat -> bool) (known_op : nat -> bool)
                   (r : reg) (ops : list rop) : reg * list rout :=
  match ops with
  | [] => (r, [])
  | o :: t =>
      let (r', out) := rstep implements known_op r o in
      let (r'', outs) := run_trace implements known_op r' t in
      (r'', out :: outs)
  end.

(* run_script: tape.plugins = {**_plugins, **plugins}; run_plugins(s) iterates tape.plugins[s]
   in order when s is a key, else does nothing *)
Definition run_plugins_of (r : reg) (cplugins : list (nat * list nat)) (s : nat) : list nat :=
  match alookup s cplugins with
  | Some l => l
  | None => plugins_of r s
  end.

(* run_script: tape.contracts = {**_contracts, **contracts} *)
Definition run_contract_of (r : reg) (ccontracts : list (nat * nat)) (id : nat) : option nat :=
  match alookup id ccontracts with
  | Some k => Some k
  | None => alookup id (r_contracts r)
  end.

(* ---------- abstract specification: sets / partial maps as functions of the history ----------
   [h] is the history of calls, MOST RECENT FIRST (i.e. [rev ops]); [r0] is the registry the
   history started from, of which only membership / lookup is used.  In each function the most
   recent relevant successful call decides. *)
Section Spec.
  Variable implements : nat -> nat -> bool.
  Variable known_op : nat -> bool.
  Variable r0 : reg.

  (* p was added to scope s and not since removed from s, nor s reset *)
  Fixpoint active_plugin (h : list rop) (s p : nat) : bool :=
    match h with
    | [] => mem p (plugins_of r0 s)
    | AddPlugin s' p' :: h' => if Nat.eqb s' s && Nat.eqb p' p then true else active_plugin h' s p
    | RemovePlugin s' p' :: h' => if Nat.eqb s' s && Nat.eqb p' p then false else active_plugin h' s p
    | ResetPlugins s' :: h' => if Nat.eqb s' s then false else active_plugin h' s p
    | _ :: h' => active_plugin h' s p
    end.

  Fixpoint active_iface (h : list rop) (i : nat) : bool :=
    match h with
    | [] => mem i (r_ifaces r0)
    | AddIface i' :: h' => if Nat.eqb i' i then true else active_iface h' i
    | RemoveIface i' :: h' => if Nat.eqb i' i then false else active_iface h' i
    | _ :: h' => active_iface h' i
    end.

  (* every interface that can possibly be active after h (finite support of [active_iface h]) *)
  Fixpoint iface_candidates (h : list rop) : list nat :=
    match h with
    | [] => r_ifaces r0
    | AddIface i :: h' => i :: iface_candidates h'
    | _ :: h' => iface_candidates h'
    end.

  (* add_contract(_, k) after h does not raise: some active interface is implemented by k
     (RegistryProofs.contract_accepted_spec states exactly this) *)
  Definition contract_accepted (h : list rop) (k : nat) : bool :=
    existsb (fun i => active_iface h i && implements k i) (iface_candidates h).

  (* last successful add_contract(id, k) not followed by remove_contract(id) *)
  Fixpoint active_contract (h : list rop) (id : nat) : option nat :=
    match h with
    | [] => alookup id (r_contracts r0)
    | AddContract id' k :: h' =>
        if Nat.eqb id' id && contract_accepted h' k then Some k else active_contract h' id
    | RemoveContract id' :: h' => if Nat.eqb id' id then None else active_contract h' id
    | _ :: h' => active_contract h' id
    end.

  (* first add_alias(a, o) with o a known op wins; there is no removal *)
  Fixpoint active_alias (h : list rop) (a : nat) : option nat :=
    match h with
    | [] => alookup a (r_aliases r0)
    | AddAlias a' o :: h' =>
        match active_alias h' a with
        | Some o' => Some o'
        | None => if Nat.eqb a' a && known_op o then Some o else None
        end
    | _ :: h' => active_alias h' a
    end.

  (* the call o, made after history h, does not raise *)
  Definition op_ok (h : list rop) (o : rop) : bool :=
    match o with
    | AddContract _ k => contract_accepted h k
    | AddAlias a o' =>
        known_op o' && match active_alias h a with Some _ => false | None => true end
    | _ => true
    end.
End Spec.
