(* Bytecode encoding layer: instruction AST, the documented encoder, a reference decoder,
   the decompiler's listing printer (parsing.decompile_script) and a reader of that listing.
   Executable definitions only (extracted and compared with the Python code); the lemmas are in
   proofs/AsmProofs.v, the property statements in props/C11.v and props/C12.v.

   [fl2] is Python's floor(math.log2(a)) (a float computation), exactly as in model/Codec.v:
   decompile_script uses int_to_bytes to choose between the d- and x-form of the OP_DIV_INT /
   OP_MOD_INT operand, so the printer and the listing reader take it as a parameter. *)
From Coq Require Import ZArith List Bool NArith String Ascii DecimalString DecimalZ.
From Coq.Strings Require Import Byte.
From TS Require Import Bytes Codec Ops Names.
Import ListNotations.
Open Scope Z_scope.

(* ---------- operand shapes ---------- *)

Inductive shape :=
| ShNone        (* no operand *)
| ShS8          (* 1 byte, listed d<signed> *)
| ShX8          (* 1 byte, listed x<hh> *)
| ShPush1       (* [len:1][val], listed d<len> x<hex> *)
| ShVar1        (* [len:1][val], listed x<hex> *)
| ShVar1Int     (* [len:1][val], listed d<int> when val is int_to_bytes of its value, else x<hex> *)
| ShWriteCache  (* [len:1][key][count:1], listed x<hex> d<count> *)
| ShPush2       (* [len:2][val], listed d<len> x<hex> *)
| ShFix4        (* 4 bytes, listed x<8 hex> *)
| ShSwap        (* 2 bytes, listed d<a> d<b> *)
| ShMultisig    (* 3 bytes, listed x<hh> d<m> d<n> *)
| ShFix32       (* 32 bytes, listed x<64 hex> *)
| ShDef         (* [handle:1][len:2][body] *)
| ShIf          (* [len:2][body] *)
| ShIfElse      (* [len:2][body][len:2][body] *)
| ShTry         (* [len:2][body][len:2][body] *)
| ShLoop.       (* [len:2][body] *)

Definition shape_of (o : opcode) : shape :=
  match o with
  | O_FALSE | O_TRUE | O_POP0 | O_SIZE | O_READ_CACHE_STACK | O_READ_CACHE_STACK_SIZE
  | O_DIV_INTS | O_MOD_INTS | O_DIV_FLOATS | O_MOD_FLOATS | O_DUP | O_SHA256 | O_VERIFY
  | O_EQUAL | O_EQUAL_VERIFY | O_CHECK_TIMESTAMP | O_CHECK_TIMESTAMP_VERIFY | O_CHECK_EPOCH
  | O_CHECK_EPOCH_VERIFY | O_EVAL | O_RANDOM | O_NOT | O_RETURN | O_DEPTH | O_SWAP2 | O_CONCAT
  | O_CONCAT_STR | O_CHECK_TRANSFER | O_LESS | O_LESS_OR_EQUAL | O_FLOAT_LESS
  | O_FLOAT_LESS_OR_EQUAL | O_INT_TO_FLOAT | O_FLOAT_TO_INT | O_SIGN_STACK | O_CHECK_SIG_STACK
  | O_DERIVE_SCALAR | O_DERIVE_POINT | O_MAKE_ADAPTER_SIG_PUBLIC | O_MAKE_ADAPTER_SIG_PRIVATE
  | O_CHECK_ADAPTER_SIG | O_DECRYPT_ADAPTER_SIG | O_XOR | O_INVOKE | O_OR | O_AND | O_SPLIT
  | O_SPLIT_STR => ShNone
  | O_PUSH0 | O_POP1 | O_ADD_INTS | O_SUBTRACT_INTS | O_MULT_INTS | O_ADD_FLOATS
  | O_SUBTRACT_FLOATS | O_ADD_POINTS | O_CALL | O_COPY | O_SHAKE256 | O_REVERSE
  | O_CLAMP_SCALAR | O_ADD_SCALARS | O_SUBTRACT_SCALARS | O_SUBTRACT_POINTS => ShS8
  | O_CHECK_SIG | O_CHECK_SIG_VERIFY | O_SIGN | O_TAPROOT | O_GET_MESSAGE | O_CHECK_TEMPLATE
  | O_CHECK_TEMPLATE_VERIFY => ShX8
  | O_PUSH1 => ShPush1
  | O_READ_CACHE | O_READ_CACHE_SIZE | O_SET_FLAG | O_UNSET_FLAG | O_GET_VALUE => ShVar1
  | O_DIV_INT | O_MOD_INT => ShVar1Int
  | O_WRITE_CACHE => ShWriteCache
  | O_PUSH2 => ShPush2
  | O_DIV_FLOAT | O_MOD_FLOAT => ShFix4
  | O_SWAP => ShSwap
  | O_CHECK_MULTISIG | O_CHECK_MULTISIG_VERIFY => ShMultisig
  | O_MERKLEVAL => ShFix32
  | O_DEF => ShDef
  | O_IF => ShIf
  | O_IF_ELSE => ShIfElse
  | O_TRY_EXCEPT => ShTry
  | O_LOOP => ShLoop
  end.

(* the byte of an opcode: its index in [all_opcodes] *)
Definition opcode_byte (o : opcode) : byte :=
  match o with
  | O_FALSE => x00
  | O_TRUE => x01
  | O_PUSH0 => x02
  | O_PUSH1 => x03
  | O_PUSH2 => x04
  | O_GET_MESSAGE => x05
  | O_POP0 => x06
  | O_POP1 => x07
  | O_SIZE => x08
  | O_WRITE_CACHE => x09
  | O_READ_CACHE => x0a
  | O_READ_CACHE_SIZE => x0b
  | O_READ_CACHE_STACK => x0c
  | O_READ_CACHE_STACK_SIZE => x0d
  | O_ADD_INTS => x0e
  | O_SUBTRACT_INTS => x0f
  | O_MULT_INTS => x10
  | O_DIV_INT => x11
  | O_DIV_INTS => x12
  | O_MOD_INT => x13
  | O_MOD_INTS => x14
  | O_ADD_FLOATS => x15
  | O_SUBTRACT_FLOATS => x16
  | O_DIV_FLOAT => x17
  | O_DIV_FLOATS => x18
  | O_MOD_FLOAT => x19
  | O_MOD_FLOATS => x1a
  | O_ADD_POINTS => x1b
  | O_COPY => x1c
  | O_DUP => x1d
  | O_SHA256 => x1e
  | O_SHAKE256 => x1f
  | O_VERIFY => x20
  | O_EQUAL => x21
  | O_EQUAL_VERIFY => x22
  | O_CHECK_SIG => x23
  | O_CHECK_SIG_VERIFY => x24
  | O_CHECK_TIMESTAMP => x25
  | O_CHECK_TIMESTAMP_VERIFY => x26
  | O_CHECK_EPOCH => x27
  | O_CHECK_EPOCH_VERIFY => x28
  | O_DEF => x29
  | O_CALL => x2a
  | O_IF => x2b
  | O_IF_ELSE => x2c
  | O_EVAL => x2d
  | O_NOT => x2e
  | O_RANDOM => x2f
  | O_RETURN => x30
  | O_SET_FLAG => x31
  | O_UNSET_FLAG => x32
  | O_DEPTH => x33
  | O_SWAP => x34
  | O_SWAP2 => x35
  | O_REVERSE => x36
  | O_CONCAT => x37
  | O_SPLIT => x38
  | O_CONCAT_STR => x39
  | O_SPLIT_STR => x3a
  | O_CHECK_TRANSFER => x3b
  | O_MERKLEVAL => x3c
  | O_TRY_EXCEPT => x3d
  | O_LESS => x3e
  | O_LESS_OR_EQUAL => x3f
  | O_GET_VALUE => x40
  | O_FLOAT_LESS => x41
  | O_FLOAT_LESS_OR_EQUAL => x42
  | O_INT_TO_FLOAT => x43
  | O_FLOAT_TO_INT => x44
  | O_LOOP => x45
  | O_CHECK_MULTISIG => x46
  | O_CHECK_MULTISIG_VERIFY => x47
  | O_SIGN => x48
  | O_SIGN_STACK => x49
  | O_CHECK_SIG_STACK => x4a
  | O_DERIVE_SCALAR => x4b
  | O_CLAMP_SCALAR => x4c
  | O_ADD_SCALARS => x4d
  | O_SUBTRACT_SCALARS => x4e
  | O_DERIVE_POINT => x4f
  | O_SUBTRACT_POINTS => x50
  | O_MAKE_ADAPTER_SIG_PUBLIC => x51
  | O_MAKE_ADAPTER_SIG_PRIVATE => x52
  | O_CHECK_ADAPTER_SIG => x53
  | O_DECRYPT_ADAPTER_SIG => x54
  | O_INVOKE => x55
  | O_XOR => x56
  | O_OR => x57
  | O_AND => x58
  | O_CHECK_TEMPLATE => x59
  | O_CHECK_TEMPLATE_VERIFY => x5a
  | O_TAPROOT => x5b
  end.

Definition n_opcodes : nat := List.length all_opcodes.

(* ---------- instruction AST ---------- *)

Inductive instr :=
| IOp0 (o : opcode)                              (* ShNone *)
| IOp1 (o : opcode) (b : byte)                   (* ShS8 / ShX8 *)
| IVar1 (o : opcode) (v : bytes)                 (* ShPush1 / ShVar1 / ShVar1Int *)
| IWriteCache (key : bytes) (count : byte)       (* OP_WRITE_CACHE *)
| IPush2 (v : bytes)                             (* OP_PUSH2 *)
| IFix (o : opcode) (v : bytes)                  (* ShFix4 (4 bytes) / ShFix32 (32 bytes) *)
| ISwap (a b : byte)                             (* OP_SWAP *)
| IMultisig (o : opcode) (flag m n : byte)       (* ShMultisig *)
| IDef (handle : byte) (body : list instr)       (* OP_DEF *)
| IIf (body : list instr)                        (* OP_IF *)
| IIfElse (body1 body2 : list instr)             (* OP_IF_ELSE *)
| ITry (body1 body2 : list instr)                (* OP_TRY_EXCEPT *)
| ILoop (body : list instr)                      (* OP_LOOP *)
| INop (code : nat) (count : byte).              (* any byte value that is not an opcode *)

(* ---------- encoder ---------- *)

Definition len1 (v : bytes) : byte := z2b (blen v).
Definition len2 (v : bytes) : bytes := Z_to_be 2 (blen v).

Fixpoint encode1 (i : instr) : bytes :=
  match i with
  | IOp0 o => [opcode_byte o]
  | IOp1 o b => [opcode_byte o; b]
  | IVar1 o v => opcode_byte o :: len1 v :: v
  | IWriteCache k c => opcode_byte O_WRITE_CACHE :: len1 k :: k ++ [c]
  | IPush2 v => opcode_byte O_PUSH2 :: len2 v ++ v
  | IFix o v => opcode_byte o :: v
  | ISwap a b => [opcode_byte O_SWAP; a; b]
  | IMultisig o f m n => [opcode_byte o; f; m; n]
  | IDef h body =>
      let e := flat_map encode1 body in opcode_byte O_DEF :: h :: len2 e ++ e
  | IIf body =>
      let e := flat_map encode1 body in opcode_byte O_IF :: len2 e ++ e
  | IIfElse b1 b2 =>
      let e1 := flat_map encode1 b1 in
      let e2 := flat_map encode1 b2 in
      opcode_byte O_IF_ELSE :: len2 e1 ++ e1 ++ len2 e2 ++ e2
  | ITry b1 b2 =>
      let e1 := flat_map encode1 b1 in
      let e2 := flat_map encode1 b2 in
      opcode_byte O_TRY_EXCEPT :: len2 e1 ++ e1 ++ len2 e2 ++ e2
  | ILoop body =>
      let e := flat_map encode1 body in opcode_byte O_LOOP :: len2 e ++ e
  | INop code c => [z2b (Z.of_nat code); c]
  end.

Definition encode (p : list instr) : bytes := flat_map encode1 p.

(* ---------- well-formedness: the operands fit their length prefixes ---------- *)

Definition is_sh1 (s : shape) : bool := match s with ShS8 | ShX8 => true | _ => false end.
Definition is_var1 (s : shape) : bool :=
  match s with ShPush1 | ShVar1 | ShVar1Int => true | _ => false end.
Definition fix_len (s : shape) : option Z :=
  match s with ShFix4 => Some 4 | ShFix32 => Some 32 | _ => None end.

Definition fits2 (e : bytes) : bool := blen e <? 65536.

Fixpoint wf (i : instr) : bool :=
  match i with
  | IOp0 o => match shape_of o with ShNone => true | _ => false end
  | IOp1 o _ => is_sh1 (shape_of o)
  | IVar1 o v => is_var1 (shape_of o) && (blen v <? 256)
  | IWriteCache k _ => blen k <? 256
  | IPush2 v => blen v <? 65536
  | IFix o v => match fix_len (shape_of o) with Some n => blen v =? n | None => false end
  | ISwap _ _ => true
  | IMultisig o _ _ _ => match shape_of o with ShMultisig => true | _ => false end
  | IDef _ body => forallb wf body && fits2 (flat_map encode1 body)
  | IIf body => forallb wf body && fits2 (flat_map encode1 body)
  | IIfElse b1 b2 =>
      forallb wf b1 && fits2 (flat_map encode1 b1) && forallb wf b2 && fits2 (flat_map encode1 b2)
  | ITry b1 b2 =>
      forallb wf b1 && fits2 (flat_map encode1 b1) && forallb wf b2 && fits2 (flat_map encode1 b2)
  | ILoop body => forallb wf body && fits2 (flat_map encode1 body)
  | INop code _ => (n_opcodes <=? code)%nat && (code <? 256)%nat
  end.

Definition wf_prog (p : list instr) : bool := forallb wf p.

(* ---------- reference decoder ---------- *)

(* Tape.read(n): None when fewer than n bytes remain *)
Fixpoint take (n : nat) (b : bytes) : option (bytes * bytes) :=
  match n with
  | O => Some ([], b)
  | S k =>
    match b with
    | [] => None
    | x :: t => match take k t with Some (h, r) => Some (x :: h, r) | None => None end
    end
  end.

(* [len:1][val:len] and [len:2][val:len] *)
Definition read_var1 (b : bytes) : option (bytes * bytes) :=
  match b with k :: r => take (Byte.to_nat k) r | [] => None end.
Definition read_var2 (b : bytes) : option (bytes * bytes) :=
  match b with a :: c :: r => take (Z.to_nat (be_to_Z [a; c])) r | _ => None end.

Section Decode1.
  (* decoder used for the nested bodies *)
  Variable rec : bytes -> option (list instr).

  Definition read_body (b : bytes) : option (list instr * bytes) :=
    match read_var2 b with
    | Some (body, r) => match rec body with Some p => Some (p, r) | None => None end
    | None => None
    end.

  Definition decode_op (o : opcode) (r : bytes) : option (instr * bytes) :=
    match shape_of o with
    | ShNone => Some (IOp0 o, r)
    | ShS8 | ShX8 => match r with k :: r' => Some (IOp1 o k, r') | [] => None end
    | ShPush1 | ShVar1 | ShVar1Int =>
        match read_var1 r with Some (v, r') => Some (IVar1 o v, r') | None => None end
    | ShWriteCache =>
        match read_var1 r with Some (k, c :: r') => Some (IWriteCache k c, r') | _ => None end
    | ShPush2 => match read_var2 r with Some (v, r') => Some (IPush2 v, r') | None => None end
    | ShFix4 => match take 4 r with Some (v, r') => Some (IFix o v, r') | None => None end
    | ShFix32 => match take 32 r with Some (v, r') => Some (IFix o v, r') | None => None end
    | ShSwap => match r with a :: b :: r' => Some (ISwap a b, r') | _ => None end
    | ShMultisig => match r with f :: m :: n :: r' => Some (IMultisig o f m n, r') | _ => None end
    | ShDef =>
        match r with
        | h :: r1 => match read_body r1 with Some (p, r') => Some (IDef h p, r') | None => None end
        | [] => None
        end
    | ShIf => match read_body r with Some (p, r') => Some (IIf p, r') | None => None end
    | ShIfElse =>
        match read_body r with
        | Some (p1, r1) =>
            match read_body r1 with Some (p2, r2) => Some (IIfElse p1 p2, r2) | None => None end
        | None => None
        end
    | ShTry =>
        match read_body r with
        | Some (p1, r1) =>
            match read_body r1 with Some (p2, r2) => Some (ITry p1 p2, r2) | None => None end
        | None => None
        end
    | ShLoop => match read_body r with Some (p, r') => Some (ILoop p, r') | None => None end
    end.

  (* one instruction: the opcode byte, then its operands *)
  Definition decode1_with (b : bytes) : option (instr * bytes) :=
    match b with
    | [] => None
    | c :: r =>
      match opcode_of_nat (Byte.to_nat c) with
      | Some o => decode_op o r
      | None => match r with k :: r' => Some (INop (Byte.to_nat c) k, r') | [] => None end
      end
    end.
End Decode1.

(* the whole tape; every recursive call is on a strictly shorter byte string, so
   fuel = length of the input always suffices (AsmProofs.decode_fuel_enough) *)
Fixpoint decode_fuel (fuel : nat) (b : bytes) : option (list instr) :=
  match b with
  | [] => Some []
  | _ :: _ =>
    match fuel with
    | O => None
    | S f =>
      match decode1_with (decode_fuel f) b with
      | Some (i, rest) =>
          match decode_fuel f rest with Some p => Some (i :: p) | None => None end
      | None => None
      end
    end
  end.

Definition decode (b : bytes) : option (list instr) := decode_fuel (List.length b) b.
Definition decode1 (b : bytes) : option (instr * bytes) :=
  decode1_with (decode_fuel (List.length b)) b.

(* the PUSH pseudo-instruction of the compiler (_get_OP_PUSH_args): None = ValueError *)
Definition push_instr (v : bytes) : option instr :=
  match v with
  | [b] => Some (IOp1 O_PUSH0 b)
  | _ =>
    let n := blen v in
    if (1 <? n) && (n <? 256) then Some (IVar1 O_PUSH1 v)
    else if (255 <? n) && (n <? 65536) then Some (IPush2 v)
    else None
  end.

(* ---------- listing: hex and decimal ---------- *)

Definition nib (b3 b2 b1 b0 : bool) : ascii :=
  match b3, b2, b1, b0 with
  | false, false, false, false => "0" | false, false, false, true => "1"
  | false, false, true, false => "2" | false, false, true, true => "3"
  | false, true, false, false => "4" | false, true, false, true => "5"
  | false, true, true, false => "6" | false, true, true, true => "7"
  | true, false, false, false => "8" | true, false, false, true => "9"
  | true, false, true, false => "a" | true, false, true, true => "b"
  | true, true, false, false => "c" | true, true, false, true => "d"
  | true, true, true, false => "e" | true, true, true, true => "f"
  end%char.

Definition unnib (c : ascii) : option (bool * bool * bool * bool) :=
  match c with
  | "0" => Some (false, false, false, false) | "1" => Some (false, false, false, true)
  | "2" => Some (false, false, true, false) | "3" => Some (false, false, true, true)
  | "4" => Some (false, true, false, false) | "5" => Some (false, true, false, true)
  | "6" => Some (false, true, true, false) | "7" => Some (false, true, true, true)
  | "8" => Some (true, false, false, false) | "9" => Some (true, false, false, true)
  | "a" => Some (true, false, true, false) | "b" => Some (true, false, true, true)
  | "c" => Some (true, true, false, false) | "d" => Some (true, true, false, true)
  | "e" => Some (true, true, true, false) | "f" => Some (true, true, true, true)
  | _ => None
  end%char.

(* bytes.hex() *)
Fixpoint hex (v : bytes) : string :=
  match v with
  | [] => EmptyString
  | x :: t =>
    let '(b0, (b1, (b2, (b3, (b4, (b5, (b6, b7))))))) := Byte.to_bits x in
    String (nib b7 b6 b5 b4) (String (nib b3 b2 b1 b0) (hex t))
  end.

Fixpoint unhex (s : string) : option bytes :=
  match s with
  | EmptyString => Some []
  | String _ EmptyString => None
  | String a (String b t) =>
    match unnib a, unnib b, unhex t with
    | Some (b7, b6, b5, b4), Some (b3, b2, b1, b0), Some l =>
        Some (Byte.of_bits (b0, (b1, (b2, (b3, (b4, (b5, (b6, b7))))))) :: l)
    | _, _, _ => None
    end
  end.

(* str(int) and its inverse *)
Definition dec (z : Z) : string := NilEmpty.string_of_int (Z.to_int z).
Definition undec (s : string) : option Z :=
  match s with
  | EmptyString => None
  | _ => option_map Z.of_int (NilEmpty.int_of_string s)
  end.

Definition tok_d (z : Z) : string := String "d" (dec z).
Definition tok_x (v : bytes) : string := String "x" (hex v).
Definition untok_d (t : string) : option Z :=
  match t with String c s => if Ascii.eqb c "d" then undec s else None | EmptyString => None end.
Definition untok_x (t : string) : option bytes :=
  match t with String c s => if Ascii.eqb c "x" then unhex s else None | EmptyString => None end.

(* bytes_to_int of one byte *)
Definition s8 (b : byte) : Z := let v := b2z b in if v <? 128 then v else v - 256.

Local Open Scope string_scope.

Fixpoint pad (ind : nat) (k : string) : string :=
  match ind with
  | O => k
  | S m => String " " (String " " (String " " (String " " (pad m k))))
  end.
Fixpoint unwords (ws : list string) : string :=
  match ws with
  | [] => ""
  | [w] => w
  | w :: t => w ++ String " " (unwords t)
  end.
Definition line (ind : nat) (ws : list string) : string := pad ind (unwords ws).

Definition nop_name (code : nat) : string := "NOP" ++ dec (Z.of_nat code).

Section Listing.
  Variable fl2 : Z -> Z.

  (* operand of OP_DIV_INT / OP_MOD_INT:
     if size > 0 and int_to_bytes(bytes_to_int(val)) == val: d<int> else x<hex> *)
  Definition int_tok (v : bytes) : string :=
    match v with
    | [] => tok_x v
    | _ =>
      match bytes_to_int v with
      | Some z =>
        match int_to_bytes fl2 z with
        | Some v' => if bytes_eqb v' v then tok_d z else tok_x v
        | None => tok_x v
        end
      | None => tok_x v
      end
    end.

  (* the words of the line of an instruction without nested bodies *)
  Definition simple_toks (i : instr) : list string :=
    match i with
    | IOp0 o => [opcode_name o]
    | IOp1 o b =>
        [opcode_name o; match shape_of o with ShX8 => tok_x [b] | _ => tok_d (s8 b) end]
    | IVar1 o v =>
        match shape_of o with
        | ShPush1 => [opcode_name o; tok_d (blen v); tok_x v]
        | ShVar1Int => [opcode_name o; int_tok v]
        | _ => [opcode_name o; tok_x v]
        end
    | IWriteCache k c => [opcode_name O_WRITE_CACHE; tok_x k; tok_d (b2z c)]
    | IPush2 v => [opcode_name O_PUSH2; tok_d (blen v); tok_x v]
    | IFix o v => [opcode_name o; tok_x v]
    | ISwap a b => [opcode_name O_SWAP; tok_d (b2z a); tok_d (b2z b)]
    | IMultisig o f m n => [opcode_name o; tok_x [f]; tok_d (b2z m); tok_d (b2z n)]
    | INop code c => [nop_name code; tok_d (s8 c)]
    | _ => []
    end.

  (* decompile_script(body, indent) on the decoded body *)
  Fixpoint print1 (ind : nat) (i : instr) : list string :=
    match i with
    | IDef h body =>
        (line ind [opcode_name O_DEF; dec (b2z h); "{"] :: flat_map (print1 (S ind)) body)
        ++ [line ind ["}"]]
    | IIf body =>
        (line ind [opcode_name O_IF; "{"] :: flat_map (print1 (S ind)) body) ++ [line ind ["}"]]
    | IIfElse b1 b2 =>
        (line ind [opcode_name O_IF; "{"] :: flat_map (print1 (S ind)) b1)
        ++ (line ind ["}"; "ELSE"; "{"] :: flat_map (print1 (S ind)) b2) ++ [line ind ["}"]]
    | ITry b1 b2 =>
        (line ind ["OP_TRY"; "{"] :: flat_map (print1 (S ind)) b1)
        ++ match flat_map (print1 (S ind)) b2 with
           | [] => []
           | l2 => line ind ["}"; "EXCEPT"; "{"] :: l2
           end
        ++ [line ind ["}"]]
    | ILoop body =>
        (line ind [opcode_name O_LOOP; "{"] :: flat_map (print1 (S ind)) body) ++ [line ind ["}"]]
    | _ => [line ind (simple_toks i)]
    end%list.

  Definition print (ind : nat) (p : list instr) : list string := flat_map (print1 ind) p.

  (* parsing.decompile_script: None = raises ScriptExecutionError *)
  Definition decompile (b : bytes) : option (list string) := option_map (print 0) (decode b).

  (* ---------- reading the listing back ---------- *)

  (* str.split() *)
  Definition is_space (c : ascii) : bool :=
    let n := N_of_ascii c in (n =? 32)%N || ((9 <=? n)%N && (n <=? 13)%N).
  Definition cons_word (w : string) (ts : list string) : list string :=
    match w with EmptyString => ts | _ => w :: ts end.
  Fixpoint split_aux (s : string) : string * list string :=
    match s with
    | EmptyString => (EmptyString, [])
    | String c t =>
      let '(w, ts) := split_aux t in
      if is_space c then (EmptyString, cons_word w ts) else (String c w, ts)
    end.
  Definition split_ws (s : string) : list string := let '(w, ts) := split_aux s in cons_word w ts.
  Definition tokens_of (lines : list string) : list string := flat_map split_ws lines.

  Inductive tkind :=
  | TClose | TDef | TIf | TTry | TLoop | TOp (o : opcode) | TNop (code : nat) | TBad.

  Definition opcode_of_name (s : string) : option opcode :=
    find (fun o => String.eqb (opcode_name o) s) all_opcodes.

  Definition classify (t : string) : tkind :=
    if t =? "}" then TClose
    else if t =? "OP_DEF" then TDef
    else if t =? "OP_IF" then TIf
    else if t =? "OP_TRY" then TTry
    else if t =? "OP_LOOP" then TLoop
    else match opcode_of_name t with
         | Some o => TOp o
         | None =>
           match t with
           | String "N" (String "O" (String "P" s)) =>
             match undec s with
             | Some z =>
               if (Z.of_nat n_opcodes <=? z)%Z && (z <? 256)%Z then TNop (Z.to_nat z) else TBad
             | None => TBad
             end
           | _ => TBad
           end
         end.

  Definition u8_of (z : Z) : option byte := if (0 <=? z)%Z && (z <? 256)%Z then Some (z2b z) else None.
  Definition s8_of (z : Z) : option byte := if (-128 <=? z)%Z && (z <? 128)%Z then Some (z2b z) else None.
  Definition untok_x1 (t : string) : option byte :=
    match untok_x t with Some [b] => Some b | _ => None end.
  Definition untok_u8 (t : string) : option byte :=
    match untok_d t with Some z => u8_of z | None => None end.

  (* operands of an instruction without nested bodies *)
  Definition parse_simple (o : opcode) (r : list string) : option (instr * list string) :=
    match shape_of o with
    | ShNone => Some (IOp0 o, r)
    | ShS8 =>
        match r with
        | t :: r' =>
          match untok_d t with
          | Some z => match s8_of z with Some b => Some (IOp1 o b, r') | None => None end
          | None => None
          end
        | [] => None
        end
    | ShX8 =>
        match r with
        | t :: r' => match untok_x1 t with Some b => Some (IOp1 o b, r') | None => None end
        | [] => None
        end
    | ShPush1 =>
        match r with
        | t1 :: t2 :: r' =>
          match untok_d t1, untok_x t2 with
          | Some n, Some v =>
              if (n =? blen v)%Z && (blen v <? 256)%Z then Some (IVar1 o v, r') else None
          | _, _ => None
          end
        | _ => None
        end
    | ShVar1 =>
        match r with
        | t :: r' =>
          match untok_x t with
          | Some v => if (blen v <? 256)%Z then Some (IVar1 o v, r') else None
          | None => None
          end
        | [] => None
        end
    | ShVar1Int =>
        match r with
        | t :: r' =>
          match untok_d t with
          | Some z =>
            match int_to_bytes fl2 z with
            | Some v => if (blen v <? 256)%Z then Some (IVar1 o v, r') else None
            | None => None
            end
          | None =>
            match untok_x t with
            | Some v => if (blen v <? 256)%Z then Some (IVar1 o v, r') else None
            | None => None
            end
          end
        | [] => None
        end
    | ShWriteCache =>
        match r with
        | t1 :: t2 :: r' =>
          match untok_x t1, untok_u8 t2 with
          | Some k, Some c => if (blen k <? 256)%Z then Some (IWriteCache k c, r') else None
          | _, _ => None
          end
        | _ => None
        end
    | ShPush2 =>
        match r with
        | t1 :: t2 :: r' =>
          match untok_d t1, untok_x t2 with
          | Some n, Some v =>
              if (n =? blen v)%Z && (blen v <? 65536)%Z then Some (IPush2 v, r') else None
          | _, _ => None
          end
        | _ => None
        end
    | ShFix4 =>
        match r with
        | t :: r' =>
          match untok_x t with
          | Some v => if (blen v =? 4)%Z then Some (IFix o v, r') else None
          | None => None
          end
        | [] => None
        end
    | ShFix32 =>
        match r with
        | t :: r' =>
          match untok_x t with
          | Some v => if (blen v =? 32)%Z then Some (IFix o v, r') else None
          | None => None
          end
        | [] => None
        end
    | ShSwap =>
        match r with
        | t1 :: t2 :: r' =>
          match untok_u8 t1, untok_u8 t2 with
          | Some a, Some b => Some (ISwap a b, r')
          | _, _ => None
          end
        | _ => None
        end
    | ShMultisig =>
        match r with
        | t1 :: t2 :: t3 :: r' =>
          match untok_x1 t1, untok_u8 t2, untok_u8 t3 with
          | Some f, Some m, Some n => Some (IMultisig o f m n, r')
          | _, _, _ => None
          end
        | _ => None
        end
    | ShDef | ShIf | ShIfElse | ShTry | ShLoop => None
    end.

  Section Parse1.
    (* reader of an instruction sequence up to (not including) the closing brace or the end *)
    Variable rec : list string -> option (list instr * list string).

    (* "{" body "}" *)
    Definition parse_block (r : list string) : option (list instr * list string) :=
      match r with
      | t :: r1 =>
        if t =? "{" then
          match rec r1 with
          | Some (p, c :: r2) => if c =? "}" then Some (p, r2) else None
          | _ => None
          end
        else None
      | [] => None
      end.

    (* optional  KW "{" body "}"  after a block *)
    Definition parse_tail (kw : string) (r : list string) : option (option (list instr) * list string) :=
      match r with
      | t :: r1 =>
        if t =? kw then
          match parse_block r1 with Some (p, r2) => Some (Some p, r2) | None => None end
        else Some (None, r)
      | [] => Some (None, r)
      end.

    Definition parse_one (t : string) (r : list string) : option (instr * list string) :=
      match classify t with
      | TClose | TBad => None
      | TDef =>
        match r with
        | h :: r1 =>
          match undec h with
          | Some z =>
            match u8_of z, parse_block r1 with
            | Some hb, Some (p, r2) => Some (IDef hb p, r2)
            | _, _ => None
            end
          | None => None
          end
        | [] => None
        end
      | TIf =>
        match parse_block r with
        | Some (p1, r1) =>
          match parse_tail "ELSE" r1 with
          | Some (Some p2, r2) => Some (IIfElse p1 p2, r2)
          | Some (None, r2) => Some (IIf p1, r2)
          | None => None
          end
        | None => None
        end
      | TTry =>
        match parse_block r with
        | Some (p1, r1) =>
          match parse_tail "EXCEPT" r1 with
          | Some (Some p2, r2) => Some (ITry p1 p2, r2)
          | Some (None, r2) => Some (ITry p1 [], r2)
          | None => None
          end
        | None => None
        end
      | TLoop =>
        match parse_block r with Some (p, r1) => Some (ILoop p, r1) | None => None end
      | TOp o => parse_simple o r
      | TNop code =>
        match r with
        | t1 :: r' =>
          match untok_d t1 with
          | Some z => match s8_of z with Some b => Some (INop code b, r') | None => None end
          | None => None
          end
        | [] => None
        end
      end.
  End Parse1.

  Fixpoint parse_seq (fuel : nat) (ts : list string) : option (list instr * list string) :=
    match ts with
    | [] => Some ([], [])
    | t :: r =>
      if t =? "}" then Some ([], ts)
      else
        match fuel with
        | O => None
        | S f =>
          match parse_one (parse_seq f) t r with
          | Some (i, r') =>
              match parse_seq f r' with Some (p, r'') => Some (i :: p, r'') | None => None end
          | None => None
          end
        end
    end.

  (* the whole listing, given as its whitespace-separated tokens *)
  Definition parse_listing (ts : list string) : option (list instr) :=
    match parse_seq (List.length ts) ts with
    | Some (p, []) => Some p
    | _ => None
    end.
End Listing.
