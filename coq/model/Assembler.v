(* The tapescript COMPILER at symbol level: tapescript/parsing.py  assemble / parse_next / get_args and
   the _get_OP_*_args helpers, parse_def / parse_if / parse_else / parse_try / parse_except /
   parse_loop, set_variable (@= k n), load_variable (@k), size_variable (@#k), _find_matching_brace.

   Input: the list of SYMBOLS produced by parsing.get_symbols (whitespace separated tokens; a string
   literal s"..." is one symbol; every token that is not a d/x/s value, a !macro or an @variable has
   been upper-cased by get_symbols -- [assemble] itself compares names case-SENSITIVELY, exactly as
   the Python does; the per-token casing rule of get_symbols is [norm_token] below).
   Output: [assemble_r] : Ok bytes | Err (the Python raises: SyntaxError, ValueError, IndexError,
   AssertionError, OverflowError -- compared by "raises or not" only) | Unm (outside the model);
   [assemble] : option bytes collapses Err and Unm to None.

   Executable definitions only; theorems are in proofs/AssemblerProofs.v.

   Every index computation of the Python is kept (the parsers return ADVANCE COUNTS, not remainders;
   parse_def returns the brace position found by _find_matching_brace, independent of where its body
   loop stopped).  A Python list [symbols] with a loop variable [index] is represented by the pair
   (index, rest) with rest = symbols[index:].

   MACROS AND COMPTIME: assemble(symbols, macros) = parse_comptime (a pass over the flat symbol list
   that takes out every "!= name [ args ] { template }" definition into the macro table and replaces
   every "~ { ops }" by the symbol x<hex of assemble(ops)>), then the statement loop, in which
   "!name [ values ]" is expanded by invoke_macro: the template with the parameters substituted is
   joined with spaces, RE-TOKENISED (get_symbols, model/Tokenizer.v -- this file depends on it) and
   compiled by compile_script with a FRESH macro table.  [asm_fuel] / [pn_at] below.
   Oddities (each checked on the real compiler; proofs/AssemblerProofs.v macro_oddities):
     M1  a template cannot invoke a macro defined outside itself (fresh table in compile_script);
     M2  parse_comptime knows nothing of blocks or comments: definitions are taken out of IF / DEF
         bodies and of comments; a macro can be invoked before its definition in the main code but
         not inside a comptime block that precedes the definition;
     M3  with a repeated parameter name the last argument wins; M4 a redefinition replaces silently;
         macro names are case-insensitive (lower-cased), parameters are matched as whole symbols;
     M5  "~ { ops }" at a statement position gives the symbol x.. there: unrecognized symbol.
     C1  "~! { ops }" whose run leaves an EMPTY stack contributes no symbol at all (no error): the
         operand is then whatever comes next; an empty top item gives the symbol "x".

   OUT OF THE MODEL (result Unm):
     - "~! { ops }" when the parameter [ct] (the VM) answers Unm;
     - float values (f prefix where the helper accepts one: OP_PUSH1-type, OP_PUSH2, OP_DIV_FLOAT);
     - "@= name [ vals ]" (the bracket form re-tokenises the joined values through get_symbols);
     - OP_WRITE_CACHE d-keys >= 2^40 (the key size is ceil(log2(k+1)/8) in floating point);
     - symbols with non-ASCII, blank or control characters outside s-values (str.isalnum /
       isnumeric / upper are modelled for ASCII only; int() and bytes.fromhex() skip whitespace;
       get_symbols never produces a symbol with whitespace outside an s-value); instantiated macro
       templates with a non-ASCII byte (get_symbols is Unm on them);
     - exhaustion of the recursion fuel (never happens: see [assemble_r]).
   Plugins (additional_opcodes) are not modelled: with none installed the Python raises ValueError
   ("unrecognized opname") for OP_IF_ELSE / OP_TRY_EXCEPT used as instruction names; so does the model.

   ODDITIES OF THE PYTHON MIRRORED HERE (see the comments at each definition):
     O1  OP_PUSH1 / OP_PUSH2 look at the SECOND symbol after the name: if it does not look like an
         instruction name or a special symbol it is taken as the value and the first symbol is the
         explicit size, which must be d<int> or x<hex> and equal the length of the value
         (_check_push_size; before that fix the size symbol was ignored without any check, so that
         "push1 x0102 x0304 true" silently dropped a value); if fewer than two symbols follow:
         IndexError.
     O2  (FIXED in the implementation) parse_def used to prefix "OP_" to every symbol that is an
         alias key, so that the OP_-prefixed short aliases (OP_ADD, OP_RCZ, OP_CS, ...) were rejected
         directly inside a DEF body; it now resolves the alias through the table as parse_next does.
     O3  parse_if / parse_else / parse_try / parse_except / parse_loop accept "}" as well as their
         END_ word whatever the opening style; the "}"/END_ presence check looks at the whole rest of
         the source; a block whose terminator is missing just ends at the end of the source.
     O4  parse_try never handles END_TRY (it reaches parse_next: unrecognized symbol).
     O5  "} ELSE" / "} EXCEPT" detection needs the keyword right after "}" (and for EXCEPT one more
         symbol after it).
     O6  x-operand of the 1-byte instructions: "x" alone denotes 00.
     O7  OP_WRITE_CACHE count in x-form may have any number of bytes (value < 256). *)
From Coq Require Import ZArith List Bool NArith String Ascii DecimalString DecimalZ.
From Coq.Strings Require Import Byte.
From TS Require Import Bytes Codec Ops Names Asm Tables.
(* re-exported: [res], the string helpers and [norm_token] used to be defined in this file *)
From TS Require Export Tokenizer.
Import ListNotations.
Open Scope Z_scope.

(* int(s) for a string of ASCII digits (the caller has checked isnumeric) *)
Definition digits_Z (s : string) : option Z :=
  match s with
  | EmptyString => None
  | _ => option_map Z.of_uint (NilEmpty.uint_of_string s)
  end.

(* int(s) in general (ASCII, no surrounding whitespace): an optional sign, then digits in which
   single underscores may separate digits *)
Fixpoint us_ok (prev_digit : bool) (s : string) : bool :=
  match s with
  | EmptyString => prev_digit
  | String c t =>
    if Ascii.eqb c "_" then prev_digit && us_ok false t
    else is_digit c && us_ok true t
  end.
Fixpoint drop_us (s : string) : string :=
  match s with
  | EmptyString => EmptyString
  | String c t => if Ascii.eqb c "_" then drop_us t else String c (drop_us t)
  end.
Definition py_uint (s : string) : option Z := if us_ok false s then digits_Z (drop_us s) else None.
Definition py_int (s : string) : option Z :=
  match s with
  | String c t =>
    if Ascii.eqb c "-" then option_map Z.opp (py_uint t)
    else if Ascii.eqb c "+" then py_uint t
    else py_uint s
  | EmptyString => None
  end.

(* s.lstrip('+-') *)
Fixpoint lstrip_pm (s : string) : string :=
  match s with
  | String c t => if Ascii.eqb c "+" || Ascii.eqb c "-" then lstrip_pm t else s
  | EmptyString => EmptyString
  end.
(* s.split('.')[0] *)
Fixpoint split_dot (s : string) : string :=
  match s with
  | String c t => if Ascii.eqb c "." then EmptyString else String c (split_dot t)
  | EmptyString => EmptyString
  end.
(* s.replace('.','') *)
Fixpoint remove_dots (s : string) : string :=
  match s with
  | String c t => if Ascii.eqb c "." then remove_dots t else String c (remove_dots t)
  | EmptyString => EmptyString
  end.

(* bytes.fromhex(s) without whitespace: both cases of a-f *)
Definition unhex_ci (s : string) : option bytes := unhex (lower_s s).

(* s.index(q) *)
Fixpoint index_char (q : ascii) (s : string) : option nat :=
  match s with
  | EmptyString => None
  | String c t => if Ascii.eqb c q then Some O else option_map S (index_char q t)
  end.
Fixpoint sfirstn (n : nat) (s : string) : string :=
  match n, s with
  | S k, String c t => String c (sfirstn k t)
  | _, _ => EmptyString
  end.

(* ---------- lists of symbols ---------- *)

Definition mem (s : string) (l : list string) : bool := existsb (String.eqb s) l.
(* l.index(s) *)
Fixpoint index_of (s : string) (l : list string) : option nat :=
  match l with
  | [] => None
  | x :: t => if String.eqb x s then Some O else option_map S (index_of s t)
  end.
Fixpoint assoc (s : string) (l : list (string * string)) : option string :=
  match l with
  | [] => None
  | (k, v) :: t => if String.eqb k s then Some v else assoc s t
  end.

(* ---------- the name tables (generated from the live package: gen/Tables.v) ---------- *)

Local Open Scope string_scope.
Local Open Scope list_scope.
Local Open Scope Z_scope.

(* opcodes_inverse[name][0] *)
Definition opcode_index (s : string) : option nat := index_of s gen_opcode_names.
(* nopcodes_inverse[name][0]: the names are exactly "NOP<code>" for the codes that are not opcodes *)
Definition nop_index (s : string) : option nat :=
  find (fun c => String.eqb (nop_name c) s) gen_nop_codes.
Definition alias_of (s : string) : option string := assoc s gen_aliases.
Definition is_alias (s : string) : bool := match alias_of s with Some _ => true | None => false end.

Definition special_symbols : list string := ["END_IF"; "END_DEF"; "ELSE"; "("; ")"; "{"; "}"].

(* the first lines of parse_next:
     if current_symbol in opcode_aliases: current_symbol = opcode_aliases[current_symbol]
     if current_symbol in ('PUSH', 'TRY', 'DEF', 'IF'): current_symbol = 'OP_' + current_symbol *)
Definition canon (s : string) : string :=
  let s1 := match alias_of s with Some t => t | None => s end in
  if mem s1 ["PUSH"; "TRY"; "DEF"; "IF"] then ("OP_" ++ s1)%string else s1.

(* the test of _get_OP_PUSH1_type_args / _get_OP_PUSH2_args on symbols[1] (oddity O1) *)
Definition oplike (s : string) : bool :=
  is_prefix "OP_" s
  || (match opcode_index s with Some _ => true | None => false end)
  || (match nop_index s with Some _ => true | None => false end)
  || is_alias s
  || mem s special_symbols.

Definition is_comment (s : string) : bool := mem s [""""; "'"; "#"].

(* ---------- _find_matching_brace ----------
   index = symbols.index(close)
   while index < len(symbols):
       n_opens = symbols[:index].count(open); n_closes = symbols[:index+1].count(close)
       if n_closes >= n_opens and symbols[index] == close: break
       index += symbols[index+1:].index(close) or 1
   The loop visits every position of [close] in order (when the next one is not adjacent it first
   lands on the position just before it, where the test fails and the "or 1" moves on), so the
   result is the first position i holding [close] with  #close in [0..i] >= #open in [0..i) ;
   ValueError (None) when there is none. *)
Fixpoint fmb_go (op cl : string) (opens closes idx : nat) (l : list string) : option nat :=
  match l with
  | [] => None
  | s :: t =>
    if String.eqb s cl then
      if (opens <=? S closes)%nat then Some idx else fmb_go op cl opens (S closes) (S idx) t
    else fmb_go op cl (if String.eqb s op then S opens else opens) closes (S idx) t
  end.
Definition find_matching_brace (l : list string) (op cl : string) : option nat :=
  fmb_go op cl 0 0 0 l.

(* ---------- values ---------- *)


(* the 's' case of every helper, on the symbol without its first character [r = val[1:]]:
     if val[1] == DQ and DQ in val[2:]: val[2 : val[2:].index(DQ)+2]      (DQ = the double quote)
     elif val[1] == SQ and SQ in val[2:]: likewise                        (SQ = the single quote)
     else: val[1:]           (val[1] raises IndexError on "s" alone) *)
Definition sval (r : string) : res bytes :=
  match r with
  | EmptyString => Err
  | String c1 r2 =>
    let quoted (q : ascii) : option bytes :=
      if Ascii.eqb c1 q then
        match index_char q r2 with Some k => Some (str (sfirstn k r2)) | None => None end
      else None in
    match quoted dquote with
    | Some v => Ok v
    | None => match quoted squote with Some v => Ok v | None => Ok (str r) end
    end
  end.

(* len(val).to_bytes(1,'big') / (2,'big'): OverflowError when it does not fit *)
Definition len1_r (v : bytes) : res bytes := if blen v <? 256 then Ok [len1 v] else Err.
Definition len2_r (v : bytes) : res bytes := if blen v <? 65536 then Ok (len2 v) else Err.

Section Assembler.
  (* floor(math.log2(a)) as computed in floating point (see model/Codec.v, model/Asm.v) *)
  Variable fl2 : Z -> Z.
  (* "~! { ops }": run_script(code) with the default configuration, then the top stack item:
       Ok (Some v)  the run ends normally and v = stack.get() (the top item)
       Ok None      the run ends normally with an EMPTY stack (parse_comptime then adds no symbol)
       Err          the run raises
       Unm          the VM model cannot decide
     (a parameter, so that the assembler does not depend on the VM model) *)
  Variable ct : bytes -> res (option bytes).

  Definition i2b (z : Z) : res bytes := of_opt (int_to_bytes fl2 z).

  (* the first character of a symbol, lower-cased (val[0].lower()), and the rest (val[1:]);
     val[0] raises IndexError on an empty symbol *)
  Definition split_val (val : string) : res (ascii * string) :=
    match val with String c r => Ok (lower_c c, r) | EmptyString => Err end.

  (* ----- _get_OP_PUSH0_type_args (also _get_nopcode_args): one byte -----
       d: vert(val[1:].lstrip('+-').isnumeric()); int_to_bytes(int(val[1:].split('.')[0]));
          assert len == 1
       x: vert(len(val[1:]) <= 2); bytes.fromhex(val[1:]); a value that is not 1 byte long (i.e.
          "x" alone) gives 00 (O6) *)
  Definition val_byte (val : string) : res bytes :=
    rbind (split_val val) (fun '(c, r) =>
      if Ascii.eqb c "d" then
        if isnumeric (lstrip_pm r) then
          rbind (of_opt (py_int (split_dot r))) (fun z =>
          rbind (i2b z) (fun v => match v with [_] => Ok v | _ => Err end))
        else Err
      else if Ascii.eqb c "x" then
        if (String.length r <=? 2)%nat then
          rbind (of_opt (unhex_ci r)) (fun v => match v with [_] => Ok v | _ => Ok [x00] end)
        else Err
      else Err).

  Definition args_push0 (syms : list string) : res (nat * bytes) :=
    match syms with
    | val :: _ => rbind (val_byte val) (fun v => Ok (2%nat, v))
    | [] => Err
    end.

  (* ----- _get_OP_PUSH1_type_args: [len:1][val] -----
     which symbol is the value: for OP_PUSH1 the test on symbols[1] (O1), else symbols[0];
     the third component is the explicit size symbol of the form "name size value" *)
  Definition pick_val (two_forms : bool) (syms : list string) : res (nat * string * option string) :=
    if two_forms then
      match syms with
      | s0 :: s1 :: _ => if oplike s1 then Ok (2%nat, s0, None) else Ok (3%nat, s1, Some s0)
      | _ => Err                                   (* symbols[1]: IndexError *)
      end
    else
      match syms with s0 :: _ => Ok (2%nat, s0, None) | [] => Err end.

  (* _check_push_size(opname, size_symbol, value, ...):
       yert(len(size_symbol) > 1 and size_symbol[0].lower() in ('d', 'x'))
       d: size = int(size_symbol[1:])  (any int() literal; "d2.0" raises ValueError)
       x: size = int.from_bytes(bytes.fromhex(size_symbol[1:]), 'big')  (odd length raises ValueError)
       yert(size == len(value)) *)
  Definition check_push_size (size_symbol : option string) (v : bytes) : res unit :=
    match size_symbol with
    | None => Ok tt
    | Some (String c r) =>
      if nonempty r then
        let c' := lower_c c in
        if Ascii.eqb c' "d" then
          rbind (of_opt (py_int r)) (fun z => if z =? blen v then Ok tt else Err)
        else if Ascii.eqb c' "x" then
          rbind (of_opt (unhex_ci r)) (fun b => if be_to_Z b =? blen v then Ok tt else Err)
        else Err
      else Err
    | Some EmptyString => Err
    end.

  (*   d: vert(val[1:].lstrip('+-').replace('.','').isnumeric());
          int_to_bytes(int(val[1:].split('.')[0]))
       f: float (not modelled)     x: bytes.fromhex(val[1:])     s: string *)
  Definition val_var1 (val : string) : res bytes :=
    rbind (split_val val) (fun '(c, r) =>
      if Ascii.eqb c "d" then
        if isnumeric (remove_dots (lstrip_pm r)) then
          rbind (of_opt (py_int (split_dot r))) i2b
        else Err
      else if Ascii.eqb c "f" then Unm
      else if Ascii.eqb c "x" then of_opt (unhex_ci r)
      else if Ascii.eqb c "s" then sval r
      else Err).

  Definition args_push1 (is_push1 : bool) (syms : list string) : res (nat * bytes) :=
    rbind (pick_val is_push1 syms) (fun '(adv, val, size) =>
    rbind (val_var1 val) (fun v =>
    rbind (len1_r v) (fun l =>
    rbind (check_push_size size v) (fun _ => Ok (adv, l ++ v))))).

  (* ----- _get_OP_PUSH2_args: [len:2][val] -----
       d: vert(val[1:].lstrip('+-').isnumeric()); int_to_bytes(int(..)); vert(len < 65536)
       x: fromhex; vert(len < 65536)     s: string (len.to_bytes(2) may overflow)     f: not modelled *)
  Definition val_push2 (val : string) : res bytes :=
    rbind (split_val val) (fun '(c, r) =>
      if Ascii.eqb c "s" then sval r
      else if Ascii.eqb c "d" then
        if isnumeric (lstrip_pm r) then rbind (of_opt (py_int (split_dot r))) i2b else Err
      else if Ascii.eqb c "f" then Unm
      else if Ascii.eqb c "x" then of_opt (unhex_ci r)
      else Err).

  Definition args_push2 (syms : list string) : res (nat * bytes) :=
    rbind (pick_val true syms) (fun '(adv, val, size) =>
    rbind (val_push2 val) (fun v =>
    rbind (len2_r v) (fun l =>
    rbind (check_push_size size v) (fun _ => Ok (adv, l ++ v))))).

  (* ----- _get_OP_PUSH_args + the opcode choice of parse_next: the whole instruction -----
       d: vert(val[1:].isnumeric() or (val[1] == '-' and val[2:].isnumeric())) (val[1]: IndexError
          on "d" alone); int_to_bytes(int(val[1:].split('.')[0]))
       x: fromhex     s: string
       1 byte: OP_PUSH0 b; 2..255: OP_PUSH1 len val; 256..65535: OP_PUSH2 len val; else ValueError *)
  Definition val_push (val : string) : res bytes :=
    rbind (split_val val) (fun '(c, r) =>
      if Ascii.eqb c "d" then
        let ok := isnumeric r
                  || match r with String m t => Ascii.eqb m "-" && isnumeric t | _ => false end in
        if ok then rbind (of_opt (py_int (split_dot r))) i2b else Err
      else if Ascii.eqb c "x" then of_opt (unhex_ci r)
      else if Ascii.eqb c "s" then sval r
      else Err).

  Definition instr_push (syms : list string) : res (nat * bytes) :=
    match syms with
    | val :: _ =>
      rbind (val_push val) (fun v =>
      rbind (of_opt (push_instr v)) (fun i => Ok (2%nat, encode1 i)))
    | [] => Err
    end.

  (* ----- _get_OP_WRITE_CACHE_args: [len:1][key][count:1] -----
     key   d: vert(isnumeric); size = ceil(log2(k+1)/8) or 1; k.to_bytes(size)   (unsigned!)
           x: fromhex     s: string
     count d: vert(isnumeric); int     x: int.from_bytes(fromhex(..)) (O7)
     yert(len(key) < 256); yert(count < 256) *)
  Definition ukey (k : Z) : res bytes :=
    if k <? 2 ^ 40 then
      let size := if k =? 0 then 1 else Z.log2 k / 8 + 1 in
      Ok (Z_to_be (Z.to_nat size) k)
    else Unm.

  Definition val_key (val : string) : res bytes :=
    rbind (split_val val) (fun '(c, r) =>
      if Ascii.eqb c "d" then
        if isnumeric r then rbind (of_opt (digits_Z r)) ukey else Err
      else if Ascii.eqb c "x" then of_opt (unhex_ci r)
      else if Ascii.eqb c "s" then sval r
      else Err).

  Definition val_count (val : string) : res Z :=
    rbind (split_val val) (fun '(c, r) =>
      if Ascii.eqb c "d" then
        if isnumeric r then of_opt (digits_Z r) else Err
      else if Ascii.eqb c "x" then rbind (of_opt (unhex_ci r)) (fun v => Ok (be_to_Z v))
      else Err).

  Definition args_write_cache (syms : list string) : res (nat * bytes) :=
    match syms with
    | k :: c :: _ =>
      rbind (val_key k) (fun key =>
      rbind (val_count c) (fun cnt =>
        if (blen key <? 256) && (cnt <? 256) then Ok (3%nat, len1 key :: key ++ [z2b cnt])
        else Err))
    | _ => Err
    end.

  (* ----- _get_OP_DIV_FLOAT_args: f: float (not modelled); x: exactly 8 hex digits ----- *)
  Definition args_div_float (syms : list string) : res (nat * bytes) :=
    match syms with
    | val :: _ =>
      rbind (split_val val) (fun '(c, r) =>
        if Ascii.eqb c "f" then Unm
        else if Ascii.eqb c "x" then
          if (String.length r =? 8)%nat then rbind (of_opt (unhex_ci r)) (fun v => Ok (2%nat, v))
          else Err
        else Err)
    | [] => Err
    end.

  (* ----- _get_OP_SWAP_type_args / _get_OP_CHECK_MULTISIG_args: n index bytes -----
       d: vert(isnumeric); yert(0 <= v < 256)     x: vert(len == 2); fromhex *)
  Definition val_index (val : string) : res bytes :=
    rbind (split_val val) (fun '(c, r) =>
      if Ascii.eqb c "d" then
        if isnumeric r then
          rbind (of_opt (digits_Z r)) (fun z => if z <? 256 then Ok [z2b z] else Err)
        else Err
      else if Ascii.eqb c "x" then
        if (String.length r =? 2)%nat then of_opt (unhex_ci r) else Err
      else Err).

  Definition args_swap (syms : list string) : res (nat * bytes) :=
    match syms with
    | a :: b :: _ =>
      rbind (val_index a) (fun va => rbind (val_index b) (fun vb => Ok (3%nat, va ++ vb)))
    | _ => Err
    end.
  Definition args_multisig (syms : list string) : res (nat * bytes) :=
    match syms with
    | a :: b :: c :: _ =>
      rbind (val_index a) (fun va => rbind (val_index b) (fun vb => rbind (val_index c) (fun vc =>
        Ok (4%nat, va ++ vb ++ vc))))
    | _ => Err
    end.

  (* ----- _get_OP_MERKLEVAL_args: x + 64 hex digits ----- *)
  Definition args_merkleval (syms : list string) : res (nat * bytes) :=
    match syms with
    | val :: _ =>
      rbind (split_val val) (fun '(c, r) =>
        if Ascii.eqb c "x" && (String.length val =? 65)%nat then
          rbind (of_opt (unhex_ci r)) (fun v => Ok (2%nat, v))
        else Err)
    | [] => Err
    end.

  (* ----- get_args: (symbols to advance including the name, joined args) -----
     The case table of get_args groups the opcodes exactly as Asm.shape_of does (no operand = ShNone;
     _get_OP_PUSH0_type_args = ShS8 + ShX8; _get_OP_PUSH1_type_args = ShPush1 + ShVar1 + ShVar1Int);
     OP_DEF / OP_IF / OP_LOOP never get here; OP_IF_ELSE and OP_TRY_EXCEPT fall to
     _get_additional_opcode_args, which raises ValueError without plugins. *)
  Definition get_args (o : opcode) (syms : list string) : res (nat * bytes) :=
    match shape_of o with
    | ShNone => Ok (1%nat, [])
    | ShS8 | ShX8 => args_push0 syms
    | ShPush1 => args_push1 true syms
    | ShVar1 | ShVar1Int => args_push1 false syms
    | ShWriteCache => args_write_cache syms
    | ShPush2 => args_push2 syms
    | ShFix4 => args_div_float syms
    | ShSwap => args_swap syms
    | ShMultisig => args_multisig syms
    | ShFix32 => args_merkleval syms
    | ShDef | ShIf | ShIfElse | ShTry | ShLoop => Err
    end.

  (* ----- set_variable / load_variable / size_variable -----
     Each builds a source text and calls compile_script on it; for the forms in the model that text
     is  WRITE_CACHE x<hex(name)> d<count> / READ_CACHE x<hex(name)> / READ_CACHE_SIZE x<hex(name)>,
     whose compilation is args_write_cache / args_push1 on those two value symbols; written out: *)
  Definition set_variable (symbols : list string) : res (nat * bytes) :=
    match symbols with
    | _ :: name :: rest =>
      if negb (is_ascii_s name) then Unm
      else if isalnum name then
        match rest with
        | v :: _ =>
          if String.eqb v "[" then Unm
          else if isnumeric v then
            rbind (of_opt (digits_Z v)) (fun cnt =>
              let key := str name in
              if (blen key <? 256) && (cnt <? 256)
              then Ok (3%nat, opcode_byte O_WRITE_CACHE :: len1 key :: key ++ [z2b cnt])
              else Err)
          else Err
        | [] => Err
        end
      else Err
    | _ => Err
    end.

  (* name = symbols[0][1:] (load) or symbols[0][2:] (size), isalnum checked by the caller *)
  Definition read_variable (o : opcode) (name : string) : res (nat * bytes) :=
    let key := str name in
    rbind (len1_r key) (fun l => Ok (1%nat, opcode_byte o :: l ++ key)).

  (* ---------- macros ----------
     macros: dict name -> {'args': [...], 'template': [...]}, here an association list, newest first
     (a redefinition shadows the older entry, as the dict assignment replaces it) *)
  Record macro : Type := { m_args : list string; m_template : list string }.
  Definition macros : Type := list (string * macro).
  Fixpoint macro_lookup (name : string) (m : macros) : option macro :=
    match m with
    | [] => None
    | (k, v) :: t => if String.eqb k name then Some v else macro_lookup name t
    end.

  (* str.isalnum() of a symbol in a name position: ASCII only *)
  Definition alnum_r (s : string) : res unit :=
    if negb (is_ascii_s s) then Unm else if isalnum s then Ok tt else Err.
  Fixpoint all_alnum_r (l : list string) : res unit :=
    match l with [] => Ok tt | s :: t => rbind (alnum_r s) (fun _ => all_alnum_r t) end.

  (* define_macro(symbols): != name [ args ] { statements }
       name = symbols[1].lower(); yert(name.isalnum()); yert(symbols[2] == '[')
       closing = _find_matching_brace(symbols, '[', ']'); args = symbols[3:closing], all isalnum
       yert(symbols[closing+1] == '{'); closing2 = _find_matching_brace(symbols, '{', '}')
       template = symbols[closing+2:closing2]; returns closing2 + 1
     (both searches start at the "!=" of the definition) *)
  Definition define_macro (symbols : list string) : res (nat * string * macro) :=
    match symbols with
    | _ :: name0 :: s2 :: _ =>
      let name := lower_s name0 in
      rbind (alnum_r name) (fun _ =>
      if String.eqb s2 "[" then
        rbind (of_opt (find_matching_brace symbols "[" "]")) (fun closing =>
        let args := firstn (closing - 3) (skipn 3 symbols) in
        rbind (all_alnum_r args) (fun _ =>
        match nth_error symbols (S closing) with
        | Some ob =>
          if String.eqb ob "{" then
            rbind (of_opt (find_matching_brace symbols "{" "}")) (fun closing2 =>
              Ok (S closing2, name,
                  {| m_args := args;
                     m_template := firstn (closing2 - (closing + 2)) (skipn (closing + 2) symbols) |}))
          else Err
        | None => Err                                  (* symbols[closing+1]: IndexError *)
        end))
      else Err)
    | _ => Err                                         (* symbols[1] / symbols[2]: IndexError *)
    end.

  (* args = {a: v for a, v in zip(names, values)}: with a repeated name the LAST value wins *)
  Fixpoint subst_lookup (s : string) (names vals : list string) : option string :=
    match names, vals with
    | a :: names', v :: vals' =>
      match subst_lookup s names' vals' with
      | Some w => Some w
      | None => if String.eqb a s then Some v else None
      end
    | _, _ => None
    end.
  Definition instantiate (mac : macro) (vals : list string) : list string :=
    map (fun s => match subst_lookup s (m_args mac) vals with Some v => v | None => s end)
        (m_template mac).

  (* ' '.join(src) *)
  Fixpoint join_spaces (l : list string) : string :=
    match l with
    | [] => EmptyString
    | [s] => s
    | s :: t => (s ++ String " " (join_spaces t))%string
    end.

  (* invoke_macro(symbols, macros): !name [ args ]
       name = symbols[0][1:].lower(); yert(name in macros); yert(symbols[1] == '[')
       closing = _find_matching_brace(symbols, '[', ']'); args = symbols[2:closing]
       yert(len(args) == len(macros[name]['args'])); substitute; code = compile_script(' '.join(src))
     [compile] is compile_script: get_symbols, then assemble with a FRESH macro table (M1) *)
  Definition invoke_macro (m : macros) (compile : string -> res bytes) (symbols : list string)
    : res (nat * bytes) :=
    match symbols with
    | s0 :: rest =>
      match macro_lookup (lower_s (sdrop 1 s0)) m with
      | None => Err
      | Some mac =>
        match rest with
        | s1 :: _ =>
          if String.eqb s1 "[" then
            rbind (of_opt (find_matching_brace symbols "[" "]")) (fun closing =>
            let vals := firstn (closing - 2) (skipn 2 symbols) in
            if (List.length vals =? List.length (m_args mac))%nat then
              rbind (compile (join_spaces (instantiate mac vals))) (fun code => Ok (S closing, code))
            else Err)
          else Err
        | [] => Err                                    (* symbols[1]: IndexError *)
        end
      end
    | [] => Err
    end.

  (* parse_comptime(symbols, macros): one pass over the FLAT list of symbols, whatever the nesting
     (M2): every "!=" defines a macro and is removed together with its definition; every
     "~ { ops }" is replaced by the symbol x<hex of assemble(ops)> (the block is assembled with the
     macro table as it is at that point, and definitions inside it stay visible afterwards);
     "~! { ops }" is replaced by x<hex of the top stack item after running assemble(ops)> -- or by
     nothing at all when the stack is empty (C1) -- through the parameter [ct]; "~" never calls ct.
     [asm_rec] is assemble, returning the (possibly extended) macro table as well. *)
  Fixpoint comptime (asm_rec : macros -> list string -> res (macros * bytes)) (n : nat)
      (m : macros) (syms : list string) : res (macros * list string) :=
    match syms with
    | [] => Ok (m, [])
    | s :: rest =>
      match n with
      | O => Unm
      | S n' =>
        if String.eqb s "!=" then
          rbind (define_macro syms) (fun '(adv, name, mac) =>
            comptime asm_rec n' ((name, mac) :: m) (skipn adv syms))
        else if String.eqb s "~" || String.eqb s "~!" then
          match rest with
          | ob :: _ =>
            if String.eqb ob "{" then
              rbind (of_opt (find_matching_brace syms "{" "}")) (fun e =>
                rbind (asm_rec m (firstn (e - 2) (skipn 2 syms))) (fun '(m1, code) =>
                if String.eqb s "~!" then
                  (* _, stack, _ = run_script(code); if not stack.empty(): append x<stack.get().hex()> *)
                  rbind (ct code) (fun top =>
                  rbind (comptime asm_rec n' m1 (skipn (S e) syms)) (fun '(m2, new) =>
                    Ok (m2, match top with Some v => String "x" (hex v) :: new | None => new end)))
                else
                  rbind (comptime asm_rec n' m1 (skipn (S e) syms)) (fun '(m2, new) =>
                    Ok (m2, String "x" (hex code) :: new))))
            else Err
          | [] => Err                                  (* symbols[index+1]: IndexError *)
          end
        else rbind (comptime asm_rec n' m rest) (fun '(m1, new) => Ok (m1, s :: new))
      end
    end.

  (* ---------- statements ---------- *)

  Section Level.
    (* assemble (for hoisted conditions) and parse_next one nesting level down *)
    Variable asm_rec : list string -> res bytes.
    Variable pn : string -> list string -> res (nat * bytes).
    (* the macro table (read only while statements are parsed: parse_comptime has removed every
       definition) and compile_script, for macro invocations *)
    Variable macs : macros.
    Variable compile : string -> res bytes.

    (* the statement loop shared by parse_else / parse_except / parse_loop:
         while index < len(symbols):
             if current_symbol in terms: index += 1; break
             [elif current_symbol in forbid: raise]
             advance, parts = parse_next(current_symbol, symbols, ..., index); index += advance
       returns (index, code);  [n] bounds the number of iterations (every advance is >= 1) *)
    Fixpoint body_loop (terms forbid : list string) (n index : nat) (rest : list string)
      : res (nat * bytes) :=
      match rest with
      | [] => Ok (index, [])
      | c :: _ =>
        if mem c terms then Ok (S index, [])
        else if mem c forbid then Err
        else
          match n with
          | O => Unm
          | S n' =>
            rbind (pn c rest) (fun '(adv, code) =>
            rbind (body_loop terms forbid n' (index + adv)%nat (skipn adv rest)) (fun '(i, code') =>
              Ok (i, code ++ code')))
          end
      end.

    (* the common head of parse_else / parse_try / parse_except / parse_loop (and, after hoisting,
       parse_if): symbols[1] == '{' -> yert('}' in symbols[1:]), start at 2;
       else yert(<one of ends> in symbols[1:]), start at 1.   symbols[1]: IndexError if absent *)
    Definition block_start (ends : list string) (symbols : list string) : res nat :=
      match symbols with
      | _ :: ((s1 :: _) as t) =>
        if String.eqb s1 "{" then (if mem "}" t then Ok 2%nat else Err)
        else if existsb (fun e => mem e t) ends then Ok 1%nat else Err
      | _ => Err
      end.

    (* parse_else / parse_except: returns (index, len2(code) ++ code) *)
    Definition parse_clause (ends terms forbid : list string) (symbols : list string)
      : res (nat * bytes) :=
      rbind (block_start ends symbols) (fun start =>
      rbind (body_loop terms forbid (List.length symbols) start (skipn start symbols))
        (fun '(i, code) => rbind (len2_r code) (fun l => Ok (i, l ++ code)))).

    Definition parse_else := parse_clause ["END_IF"] ["}"; "END_IF"] [].
    Definition parse_except := parse_clause ["END_EXCEPT"] ["}"; "END_EXCEPT"] ["EXCEPT"].

    (* parse_loop *)
    Definition parse_loop (symbols : list string) : res (nat * bytes) :=
      rbind (block_start ["END_LOOP"] symbols) (fun start =>
      rbind (body_loop ["}"; "END_LOOP"] [] (List.length symbols) start (skipn start symbols))
        (fun '(i, code) =>
      rbind (len2_r code) (fun l => Ok (i, opcode_byte O_LOOP :: l ++ code)))).

    (* the loop of parse_if: returns (index, code of the IF body, parts of the ELSE clause)
         '}':      if len(symbols) < index+2 or symbols[index+1] != 'ELSE': index += 1; break
                   index += 1; continue      -- the next iteration then sees ELSE (O5): inlined
         'END_IF': index += 1; break
         'ELSE':   parse_else(symbols[index:]); index += advance; break *)
    Fixpoint if_loop (n index : nat) (rest : list string) : res (nat * bytes * option bytes) :=
      match rest with
      | [] => Ok (index, [], None)
      | c :: rest' =>
        if String.eqb c "}" then
          match rest' with
          | e :: _ =>
            if String.eqb e "ELSE" then
              rbind (parse_else rest') (fun '(adv, parts) => Ok ((S index + adv)%nat, [], Some parts))
            else Ok (S index, [], None)
          | [] => Ok (S index, [], None)
          end
        else if String.eqb c "END_IF" then Ok (S index, [], None)
        else if String.eqb c "ELSE" then
          rbind (parse_else rest) (fun '(adv, parts) => Ok ((index + adv)%nat, [], Some parts))
        else
          match n with
          | O => Unm
          | S n' =>
            rbind (pn c rest) (fun '(adv, code) =>
            rbind (if_loop n' (index + adv)%nat (skipn adv rest)) (fun '(i, code', e) =>
              Ok (i, code ++ code', e)))
          end
      end.

    (* parse_if.  Hoisting: symbols[1] == '(' -> h = _find_matching_brace(symbols, '(', ')');
       hoist_code = assemble(symbols[2:h]); symbols = [symbols[0], *symbols[h+1:]]; the result
       is (index + h, hoist_code ++ opcode ++ len2(if body) ++ if body ++ else parts) *)
    Definition parse_if (symbols0 : list string) : res (nat * bytes) :=
      match symbols0 with
      | kw :: s1 :: _ =>
        rbind (if String.eqb s1 "(" then
                 rbind (of_opt (find_matching_brace symbols0 "(" ")")) (fun h =>
                 rbind (asm_rec (firstn (h - 2)%nat (skipn 2%nat symbols0))) (fun hc =>
                   Ok (h, hc, kw :: skipn (S h) symbols0)))
               else Ok (O, [], symbols0)) (fun '(h, hc, symbols) =>
        rbind (block_start ["END_IF"] symbols) (fun start =>
        rbind (if_loop (List.length symbols) start (skipn start symbols)) (fun '(i, code, e) =>
        rbind (len2_r code) (fun l =>
          let o := match e with Some _ => O_IF_ELSE | None => O_IF end in
          let parts := match e with Some p => p | None => [] end in
          Ok ((i + h)%nat, hc ++ opcode_byte o :: l ++ code ++ parts)))))
      | _ => Err                                   (* symbols[1]: IndexError *)
      end.

    (* the loop of parse_try:
         '}':      index += 1; if len(symbols) < index+2 or symbols[index] != 'EXCEPT': break
                   (else the next iteration sees EXCEPT: inlined) (O5)
         'EXCEPT': parse_except(symbols[index:]); index += advance; break
       END_TRY is not handled (O4) *)
    Fixpoint try_loop (n index : nat) (rest : list string) : res (nat * bytes * option bytes) :=
      match rest with
      | [] => Ok (index, [], None)
      | c :: rest' =>
        if String.eqb c "}" then
          match rest' with
          | e :: _ :: _ =>
            if String.eqb e "EXCEPT" then
              rbind (parse_except rest') (fun '(adv, parts) => Ok ((S index + adv)%nat, [], Some parts))
            else Ok (S index, [], None)
          | _ => Ok (S index, [], None)
          end
        else if String.eqb c "EXCEPT" then
          rbind (parse_except rest) (fun '(adv, parts) => Ok ((index + adv)%nat, [], Some parts))
        else
          match n with
          | O => Unm
          | S n' =>
            rbind (pn c rest) (fun '(adv, code) =>
            rbind (try_loop n' (index + adv)%nat (skipn adv rest)) (fun '(i, code', e) =>
              Ok (i, code ++ code', e)))
          end
      end.

    (* parse_try: without an EXCEPT clause the except part is 0000 *)
    Definition parse_try (symbols : list string) : res (nat * bytes) :=
      rbind (block_start ["END_TRY"; "EXCEPT"] symbols) (fun start =>
      rbind (try_loop (List.length symbols) start (skipn start symbols)) (fun '(i, code, e) =>
      rbind (len2_r code) (fun l =>
        let parts := match e with Some p => p | None => [x00; x00] end in
        Ok (i, opcode_byte O_TRY_EXCEPT :: l ++ code ++ parts)))).

    (* the def number: symbols[1]
         yert(name.isnumeric() or name[0] in ('d','x'))
         d: int(name[1:]) (any int() literal), 0..255     x: len(name[1:]) < 3, fromhex(..)[0]
         else int(name), 0..255 *)
    Definition def_handle (name : string) : res byte :=
      let range (z : Z) := if (0 <=? z) && (z <? 256) then Ok (z2b z) else Err in
      match name with
      | EmptyString => Err
      | String c r =>
        if Ascii.eqb c "d" then rbind (of_opt (py_int r)) range
        else if Ascii.eqb c "x" then
          if (String.length r <? 3)%nat then
            rbind (of_opt (unhex_ci r)) (fun v => match v with b :: _ => Ok b | [] => Err end)
          else Err
        else if isnumeric name then rbind (of_opt (digits_Z name)) range
        else Err
      end.

    (* the loop of parse_def:  while index <= search_idx:
         comment symbol: index = symbols.index(current_symbol, index+1) + 1; continue
         if current_symbol in opcode_aliases: current_symbol = opcode_aliases[current_symbol]
           (before the fix of finding A4 this was 'OP_' + current_symbol: oddity O2)
         yert(current_symbol != 'OP_DEF')
         '}' / 'END_DEF': break
         else parse_next(current_symbol, ...) *)
    Fixpoint def_loop (n index search_idx : nat) (rest : list string) : res bytes :=
      if (search_idx <? index)%nat then Ok []
      else
        match rest with
        | [] => Err
        | c :: rest' =>
          match n with
          | O => Unm
          | S n' =>
            if is_comment c then
              match index_of c rest' with
              | Some k => def_loop n' (index + k + 2)%nat search_idx (skipn (k + 2)%nat rest)
              | None => Err
              end
            else
              let c' := match alias_of c with Some t => t | None => c end in
              if String.eqb c' "OP_DEF" then Err
              else if mem c' ["}"; "END_DEF"] then Ok []
              else
                rbind (pn c' rest) (fun '(adv, code) =>
                rbind (def_loop n' (index + adv)%nat search_idx (skipn adv rest)) (fun code' =>
                  Ok (code ++ code')))
          end
        end.

    (* parse_def: returns (search_idx + 1, ...) whatever the loop consumed *)
    Definition parse_def (symbols : list string) : res (nat * bytes) :=
      match symbols with
      | _ :: name :: s2 :: _ =>
        rbind (def_handle name) (fun h =>
        rbind (if String.eqb s2 "{" then
                 if mem "}" symbols then
                   rbind (of_opt (find_matching_brace (skipn 2%nat symbols) "{" "}")) (fun k =>
                     Ok ((k + 2)%nat, 3%nat))
                 else Err
               else
                 rbind (of_opt (index_of "END_DEF" symbols)) (fun k => Ok (k, 2%nat)))
          (fun '(search_idx, start) =>
        rbind (def_loop (List.length symbols) start search_idx (skipn start symbols)) (fun code =>
        rbind (len2_r code) (fun l =>
          Ok (S search_idx, opcode_byte O_DEF :: h :: l ++ code)))))
      | _ => Err                                    (* symbols[1] / symbols[2]: IndexError *)
      end.

    (* parse_next(current_symbol, symbols, symbol_index, index) with tail = symbols[index:];
       current_symbol is symbols[index] except when parse_def has resolved an alias *)
    Definition parse_next (cur : string) (tail : list string) : res (nat * bytes) :=
      if is_comment cur then
        (* advance = symbols.index(current_symbol, index+1) + 1 - index *)
        match index_of cur (tl tail) with Some k => Ok ((k + 2)%nat, []) | None => Err end
      else
        let c := canon cur in
        match c with
        | EmptyString => Err
        | String c0 crest =>
          (* the yert "unrecognized symbol" and the dispatch: symbols starting with @ or ! *)
          if String.eqb c "@=" then set_variable tail
          else if String.eqb c "!=" then Unm   (* unreachable: parse_comptime has removed every "!=" *)
          else if is_prefix "@#" c then
            if isalnum (sdrop 2 c) then read_variable O_READ_CACHE_SIZE (sdrop 2 c) else Err
          else if Ascii.eqb c0 "@" then
            if isalnum crest then read_variable O_READ_CACHE crest else Err
          else if Ascii.eqb c0 "!" then
            if isalnum crest then invoke_macro macs compile tail else Err
          else if String.eqb c "OP_PUSH" then
            instr_push (tl tail)
          else if String.eqb c "OP_TRY" then parse_try tail
          else
            match opcode_index c with
            | Some k =>
              if String.eqb c "OP_IF" then parse_if tail
              else if String.eqb c "OP_DEF" then parse_def tail
              else if String.eqb c "OP_LOOP" then parse_loop tail
              else
                match opcode_of_nat k with
                | Some o =>
                  rbind (get_args o (tl tail)) (fun '(adv, args) =>
                    Ok (adv, z2b (Z.of_nat k) :: args))
                | None => Err
                end
            | None =>
              match nop_index c with
              | Some code =>
                rbind (args_push0 (tl tail)) (fun '(adv, args) =>
                  Ok (adv, z2b (Z.of_nat code) :: args))
              | None => Err
              end
            end
        end.
  End Level.

  (* the loop of assemble *)
  Fixpoint asm_loop (pn : string -> list string -> res (nat * bytes)) (n : nat) (rest : list string)
    : res bytes :=
    match rest with
    | [] => Ok []
    | c :: _ =>
      match n with
      | O => Unm
      | S n' =>
        rbind (pn c rest) (fun '(adv, code) =>
        rbind (asm_loop pn n' (skipn adv rest)) (fun code' => Ok (code ++ code')))
      end
    end.

  Definition code_of (r : res (macros * bytes)) : res bytes := rbind r (fun '(_, code) => Ok code).

  Section Fuel.
    (* get_symbols (model/Tokenizer.v), for the re-tokenisation of instantiated templates *)
    Let gsym := get_symbols.

    (* assemble(symbols, macros) with [f] levels of nesting available: parse_comptime, then the loop;
       returns the macro table after parse_comptime (the dict is shared with the callers);
       parse_next with table m:
         hoisted conditions: assemble(condition, macros);
         invocations: compile_script(text) = assemble(get_symbols(text), macros={}) *)
    Fixpoint asm_fuel (f : nat) (m : macros) (syms : list string) {struct f} : res (macros * bytes) :=
      match f with
      | O => Unm
      | S f' =>
        rbind (comptime (asm_fuel f') (List.length syms) m syms) (fun '(m1, new) =>
        rbind (asm_loop (pn_at f' m1) (List.length new) new) (fun code => Ok (m1, code)))
      end
    with pn_at (f : nat) (m : macros) {struct f} : string -> list string -> res (nat * bytes) :=
      match f with
      | O => fun _ _ => Unm
      | S f' =>
        parse_next (fun syms => code_of (asm_fuel f' m syms)) (pn_at f' m) m
                   (fun text => rbind (gsym text) (fun syms => code_of (asm_fuel f' [] syms)))
      end.
  End Fuel.

  (* s-values may hold any bytes, every other symbol must be printable ASCII without blanks *)
  Definition unmodelled_symbol (s : string) : bool :=
    negb (is_ascii_s s)
    && negb (match s with String c _ => Ascii.eqb (lower_c c) "s" | _ => false end).

  (* every nested parser, comptime block and macro invocation consumes symbols of the source before
     it recurses (a template can only invoke macros defined inside itself: M1), so the recursion
     depth is bounded by the number of symbols: the fuel never runs out *)
  Definition assemble_r (syms : list string) : res bytes :=
    if existsb unmodelled_symbol syms then Unm
    else code_of (asm_fuel (2 * List.length syms + 2) [] syms).

  Definition assemble (syms : list string) : option bytes :=
    match assemble_r syms with Ok b => Some b | _ => None end.

  (* compile_script(script) = assemble(get_symbols(script), macros={}) *)
  Definition compile_text (text : string) : res bytes := rbind (get_symbols text) assemble_r.
End Assembler.

(* ---------- self-tests: sources run through the real compiler ----------
   cd /repo && PYTHONPATH=/repo /venv/bin/python -c "from tapescript import parsing as P; ..."
   each [syms] is parsing.get_symbols(source), each result parsing.compile_script(source).hex() *)
Definition asm_hex (syms : list string) : option string :=
  option_map hex (assemble fl2_exact (fun _ => Unm) syms).

Local Open Scope string_scope.

(* the expected results are those of the current compiler (with the fixes of findings A1/A2: size
   operand of OP_PUSH1 / OP_PUSH2 checked, and A4: aliases in DEF bodies).  Sources 13 and 14 are
   accepted although they should not be (see the findings in proofs/AssemblerProofs.v); 15 to 17 are
   the size mismatches (mis-assembled before the fix); 19 to 21 are rejected although they should not be *)
(* if ( true ) { push d1 } else { push x0102 } @= k 1 @k *)
Example selftest_01 : asm_hex
  ["IF"; "("; "TRUE"; ")"; "{"; "PUSH"; "d1"; "}"; "ELSE"; "{"; "PUSH"; "x0102"; "}"; "@="; "k"; "1"; "@k"]
  = Some "012c0002020100040302010209016b010a016b".
Proof. vm_compute. reflexivity. Qed.
(* push d128 push d-1 push x0a push s"hi there" push sabc *)
Example selftest_02 : asm_hex
  ["PUSH"; "d128"; "PUSH"; "D-1"; "PUSH"; "x0a"; "PUSH"; "s""hi there"""; "PUSH"; "SABC"]
  = Some "0302008002ff020a030868692074686572650303414243".
Proof. vm_compute. reflexivity. Qed.
(* op_push1 d2 x0102 push1 x0102 true push2 x0001 s'q' push1 d+3 sabc op_false *)
Example selftest_03 : asm_hex
  ["OP_PUSH1"; "d2"; "x0102"; "PUSH1"; "x0102"; "TRUE"; "PUSH2"; "x0001"; "s'q'"; "PUSH1"; "D+3"; "SABC"; "OP_FALSE"]
  = Some "03020102030201020104000171030341424300".
Proof. vm_compute. reflexivity. Qed.
(* add_ints d-5 OP_ADD x7f sub d+3 check_sig x cs X0A nop200 d1 NOP255 xff *)
Example selftest_04 : asm_hex
  ["ADD_INTS"; "D-5"; "OP_ADD"; "x7f"; "SUB"; "D+3"; "CHECK_SIG"; "x"; "CS"; "X0A"; "NOP200"; "d1"; "NOP255"; "xff"]
  = Some "0efb0e7f0f032300230ac801ffff".
Proof. vm_compute. reflexivity. Qed.
(* write_cache d300 d1 write_cache s"ab" x0001 rcz x6b @#key9 @= key9 007 *)
Example selftest_05 : asm_hex
  ["WRITE_CACHE"; "d300"; "d1"; "WRITE_CACHE"; "s""ab"""; "x0001"; "RCZ"; "x6b"; "@#key9"; "@="; "key9"; "007"]
  = Some "0902012c0109026162010b016b0b046b65793909046b65793907".
Proof. vm_compute. reflexivity. Qed.
(* swap d1 x02 cms x00 d2 d3 merkleval x1f1f1f1f1f1f1f1f1f1f1f1 ... *)
Example selftest_06 : asm_hex
  ["SWAP"; "d1"; "x02"; "CMS"; "x00"; "d2"; "d3"; "MERKLEVAL"; "x1f1f1f1f1f1f1f1f1f1f1f1f1f1f1f1f1f1f1f1f1f1f1f1f1f1f1f1f1f1f1f1f"; "DIV_FLOAT"; "x3f800000"; "DIV_INT"; "D1.5"; "MOD_INT"; "D-300"]
  = Some "340102460002033c1f1f1f1f1f1f1f1f1f1f1f1f1f1f1f1f1f1f1f1f1f1f1f1f1f1f1f1f1f1f1f1f173f8000001101011302fed4".
Proof. vm_compute. reflexivity. Qed.
(* def 0 { rcz x01 add d1 } def d7 true end_def def xff { } call d0 *)
Example selftest_07 : asm_hex
  ["DEF"; "0"; "{"; "RCZ"; "x01"; "ADD"; "d1"; "}"; "DEF"; "d7"; "TRUE"; "END_DEF"; "DEF"; "xff"; "{"; "}"; "CALL"; "d0"]
  = Some "290000050b01010e01290700010129ff00002a00".
Proof. vm_compute. reflexivity. Qed.
(* if true else false end_if if { true } if true end_if if { dup } else not end_if *)
Example selftest_08 : asm_hex
  ["IF"; "TRUE"; "ELSE"; "FALSE"; "END_IF"; "IF"; "{"; "TRUE"; "}"; "IF"; "TRUE"; "END_IF"; "IF"; "{"; "DUP"; "}"; "ELSE"; "NOT"; "END_IF"]
  = Some "2c0001010001002b0001012b0001012c00011d00012e".
Proof. vm_compute. reflexivity. Qed.
(* try { true } try { true } except { false } try true except false end_except *)
Example selftest_09 : asm_hex
  ["TRY"; "{"; "TRUE"; "}"; "TRY"; "{"; "TRUE"; "}"; "EXCEPT"; "{"; "FALSE"; "}"; "TRY"; "TRUE"; "EXCEPT"; "FALSE"; "END_EXCEPT"]
  = Some "3d00010100003d0001010001003d000101000100".
Proof. vm_compute. reflexivity. Qed.
(* loop { if { true end_if } loop size end_loop *)
Example selftest_10 : asm_hex
  ["LOOP"; "{"; "IF"; "{"; "TRUE"; "END_IF"; "}"; "LOOP"; "SIZE"; "END_LOOP"]
  = Some "4500042b00010145000108".
Proof. vm_compute. reflexivity. Qed.
(* if ( if ( true ) { false } ) { true } else { if ( dup ) not end_if } *)
Example selftest_11 : asm_hex
  ["IF"; "("; "IF"; "("; "TRUE"; ")"; "{"; "FALSE"; "}"; ")"; "{"; "TRUE"; "}"; "ELSE"; "{"; "IF"; "("; "DUP"; ")"; "NOT"; "END_IF"; "}"]
  = Some "012b0001002c00010100051d2b00012e".
Proof. vm_compute. reflexivity. Qed.
(* true # this is a comment # false " another ' one " dup *)
Example selftest_12 : asm_hex
  ["TRUE"; "#"; "THIS"; "IS"; "A"; "COMMENT"; "#"; "FALSE"; """"; "ANOTHER"; "'"; "ONE"; """"; "DUP"]
  = Some "01001d".
Proof. vm_compute. reflexivity. Qed.
(* def 0 { if { def 1 { true } } } *)
Example selftest_13 : asm_hex
  ["DEF"; "0"; "{"; "IF"; "{"; "DEF"; "1"; "{"; "TRUE"; "}"; "}"; "}"]
  = Some "290000082b00052901000101".
Proof. vm_compute. reflexivity. Qed.
(* if { if { true } *)
Example selftest_14 : asm_hex
  ["IF"; "{"; "IF"; "{"; "TRUE"; "}"]
  = Some "2b00042b000101".
Proof. vm_compute. reflexivity. Qed.
(* push1 d99 x0102 true *)
Example selftest_15 : asm_hex
  ["PUSH1"; "d99"; "x0102"; "TRUE"]
  = None.
Proof. vm_compute. reflexivity. Qed.
(* push1 x0102 x0304 true *)
Example selftest_16 : asm_hex
  ["PUSH1"; "x0102"; "x0304"; "TRUE"]
  = None.
Proof. vm_compute. reflexivity. Qed.
(* push2 d2.0 x0102 true *)
Example selftest_17 : asm_hex
  ["PUSH2"; "D2.0"; "x0102"; "TRUE"]
  = None.
Proof. vm_compute. reflexivity. Qed.
(* def 0 { op_rcz x01 } *)
Example selftest_18 : asm_hex
  ["DEF"; "0"; "{"; "OP_RCZ"; "x01"; "}"]
  = Some "290000030b0101".
Proof. vm_compute. reflexivity. Qed.
(* try true end_try *)
Example selftest_19 : asm_hex
  ["TRY"; "TRUE"; "END_TRY"]
  = None.
Proof. vm_compute. reflexivity. Qed.
(* loop push1 x01 end_loop *)
Example selftest_20 : asm_hex
  ["LOOP"; "PUSH1"; "x01"; "END_LOOP"]
  = None.
Proof. vm_compute. reflexivity. Qed.
(* push1 x0102 *)
Example selftest_21 : asm_hex
  ["PUSH1"; "x0102"]
  = None.
Proof. vm_compute. reflexivity. Qed.
(* add_ints d128 *)
Example selftest_22 : asm_hex
  ["ADD_INTS"; "d128"]
  = None.
Proof. vm_compute. reflexivity. Qed.
(* swap d256 d0 *)
Example selftest_23 : asm_hex
  ["SWAP"; "d256"; "d0"]
  = None.
Proof. vm_compute. reflexivity. Qed.
(* true } *)
Example selftest_24 : asm_hex
  ["TRUE"; "}"]
  = None.
Proof. vm_compute. reflexivity. Qed.
(* if { true *)
Example selftest_25 : asm_hex
  ["IF"; "{"; "TRUE"]
  = None.
Proof. vm_compute. reflexivity. Qed.
(* foo *)
Example selftest_26 : asm_hex
  ["FOO"]
  = None.
Proof. vm_compute. reflexivity. Qed.
(* if_else *)
Example selftest_27 : asm_hex
  ["IF_ELSE"]
  = None.
Proof. vm_compute. reflexivity. Qed.
(* def 0 { def 1 { true } } *)
Example selftest_28 : asm_hex
  ["DEF"; "0"; "{"; "DEF"; "1"; "{"; "TRUE"; "}"; "}"]
  = None.
Proof. vm_compute. reflexivity. Qed.
(* nop91 d1 *)
Example selftest_29 : asm_hex
  ["NOP91"; "d1"]
  = None.
Proof. vm_compute. reflexivity. Qed.

(* macros and comptime blocks *)
(* != m [ a ] { push a } !m [ d1 ] !m [ x0102 ] true *)
Example selftest_m01 : asm_hex
  ["!="; "m"; "["; "A"; "]"; "{"; "PUSH"; "A"; "}"; "!m"; "["; "d1"; "]"; "!m"; "["; "x0102"; "]"; "TRUE"]
  = Some "02010302010201".
Proof. vm_compute. reflexivity. Qed.
(* push ~ { true false } != unused [ q ] { dup } not *)
Example selftest_m02 : asm_hex
  ["PUSH"; "~"; "{"; "TRUE"; "FALSE"; "}"; "!="; "unused"; "["; "Q"; "]"; "{"; "DUP"; "}"; "NOT"]
  = Some "030201002e".
Proof. vm_compute. reflexivity. Qed.
(* != m [ ] { true } != m [ ] { false } !M [ ] *)
Example selftest_m03 : asm_hex
  ["!="; "m"; "["; "]"; "{"; "TRUE"; "}"; "!="; "m"; "["; "]"; "{"; "FALSE"; "}"; "!M"; "["; "]"]
  = Some "00".
Proof. vm_compute. reflexivity. Qed.
(* != m [ a ] { != n [ b ] { push b } !n [ a ] } !m [ d1 ] *)
Example selftest_m04 : asm_hex
  ["!="; "m"; "["; "A"; "]"; "{"; "!="; "n"; "["; "B"; "]"; "{"; "PUSH"; "B"; "}"; "!n"; "["; "A"; "]"; "}"; "!m"; "["; "d1"; "]"]
  = Some "0201".
Proof. vm_compute. reflexivity. Qed.
(* if { != m [ ] { true } } !m [ ] *)
Example selftest_m05 : asm_hex
  ["IF"; "{"; "!="; "m"; "["; "]"; "{"; "TRUE"; "}"; "}"; "!m"; "["; "]"]
  = Some "2b000001".
Proof. vm_compute. reflexivity. Qed.
(* != m [ a a ] { push a } !m [ d1 d2 ] *)
Example selftest_m06 : asm_hex
  ["!="; "m"; "["; "A"; "A"; "]"; "{"; "PUSH"; "A"; "}"; "!m"; "["; "d1"; "d2"; "]"]
  = Some "0202".
Proof. vm_compute. reflexivity. Qed.
(* != m [ a ] { if ( a ) { push s"x y" } } loop { !m [ true ] } *)
Example selftest_m07 : asm_hex
  ["!="; "m"; "["; "A"; "]"; "{"; "IF"; "("; "A"; ")"; "{"; "PUSH"; "s""x y"""; "}"; "}"; "LOOP"; "{"; "!m"; "["; "TRUE"; "]"; "}"]
  = Some "450009012b00050303782079".
Proof. vm_compute. reflexivity. Qed.
(* != m [ ] { push ~ { true } } !m [ ] push ~ { != k [ ] { false } push d5 } !k [ ] *)
Example selftest_m08 : asm_hex
  ["!="; "m"; "["; "]"; "{"; "PUSH"; "~"; "{"; "TRUE"; "}"; "}"; "!m"; "["; "]"; "PUSH"; "~"; "{"; "!="; "k"; "["; "]"; "{"; "FALSE"; "}"; "PUSH"; "d5"; "}"; "!k"; "["; "]"]
  = Some "02010302020500".
Proof. vm_compute. reflexivity. Qed.
(* != m [ a ] { push a } != n [ b ] { !m [ b ] } !n [ d1 ] *)
Example selftest_m09 : asm_hex
  ["!="; "m"; "["; "A"; "]"; "{"; "PUSH"; "A"; "}"; "!="; "n"; "["; "B"; "]"; "{"; "!m"; "["; "B"; "]"; "}"; "!n"; "["; "d1"; "]"]
  = None.
Proof. vm_compute. reflexivity. Qed.
(* push ~ { !m [ ] } != m [ ] { true } *)
Example selftest_m10 : asm_hex
  ["PUSH"; "~"; "{"; "!m"; "["; "]"; "}"; "!="; "m"; "["; "]"; "{"; "TRUE"; "}"]
  = None.
Proof. vm_compute. reflexivity. Qed.
(* # != # true *)
Example selftest_m11 : asm_hex
  ["#"; "!="; "#"; "TRUE"]
  = None.
Proof. vm_compute. reflexivity. Qed.
(* ~ { true } *)
Example selftest_m12 : asm_hex
  ["~"; "{"; "TRUE"; "}"]
  = None.
Proof. vm_compute. reflexivity. Qed.
(* != m [ a ] { push a } !m [ d1 d2 ] *)
Example selftest_m13 : asm_hex
  ["!="; "m"; "["; "A"; "]"; "{"; "PUSH"; "A"; "}"; "!m"; "["; "d1"; "d2"; "]"]
  = None.
Proof. vm_compute. reflexivity. Qed.
(* !q [ ] *)
Example selftest_m14 : asm_hex
  ["!q"; "["; "]"]
  = None.
Proof. vm_compute. reflexivity. Qed.
