(* Byte strings and big-endian integer conversions (Python bytes / int.from_bytes / int.to_bytes). *)
From Coq Require Import ZArith List Bool Lia NArith.
From Coq.Strings Require Import Byte String.
Import ListNotations.
Open Scope Z_scope.

Definition bytes := list byte.

Definition b2z (b : byte) : Z := Z.of_N (Byte.to_N b).
(* low 8 bits; Z.land / Z.shiftr / Z.shiftl instead of mod / div / mul: linear, not quadratic, on big numbers *)
Definition z2b (z : Z) : byte :=
  match Byte.of_N (Z.to_N (Z.land z 255)) with Some b => b | None => x00 end.

Definition blen (b : bytes) : Z := Z.of_nat (List.length b).

(* int.from_bytes(b, 'big') *)
Fixpoint be_acc (acc : Z) (l : bytes) : Z :=
  match l with [] => acc | b :: t => be_acc (Z.shiftl acc 8 + b2z b) t end.
Definition be_to_Z (l : bytes) : Z := be_acc 0 l.

(* (v mod 256^len).to_bytes(len, 'big') *)
Fixpoint Z_to_be (len : nat) (v : Z) : bytes :=
  match len with O => [] | S k => Z_to_be k (Z.shiftr v 8) ++ [z2b v] end.

Definition byte_eqb (a b : byte) : bool := Byte.eqb a b.
Fixpoint bytes_eqb (a b : bytes) : bool :=
  match a, b with
  | [], [] => true
  | x :: a', y :: b' => Byte.eqb x y && bytes_eqb a' b'
  | _, _ => false
  end.

Definition byte_map2 (f : Z -> Z -> Z) (a b : byte) : byte := z2b (f (b2z a) (b2z b)).
Definition byte_xor := byte_map2 Z.lxor.
Definition byte_or := byte_map2 Z.lor.
Definition byte_and := byte_map2 Z.land.
Definition byte_not (a : byte) : byte := z2b (255 - b2z a).

(* right-pad the shorter operand with x00, then combine bytewise (OP_XOR / OP_OR / OP_AND) *)
Definition pad_to (n : nat) (a : bytes) : bytes := a ++ repeat x00 (n - List.length a).
Fixpoint map2 (f : byte -> byte -> byte) (a b : bytes) : bytes :=
  match a, b with
  | x :: a', y :: b' => f x y :: map2 f a' b'
  | _, _ => []
  end.
Definition zip_pad (f : byte -> byte -> byte) (a b : bytes) : bytes :=
  let n := Nat.max (List.length a) (List.length b) in
  map2 f (pad_to n a) (pad_to n b).

Definition bytes_to_bool (b : bytes) : bool := negb (be_to_Z b =? 0).

Definition str (s : string) : bytes := list_byte_of_string s.

Definition firstn_z (n : Z) (b : bytes) : bytes := firstn (Z.to_nat n) b.
Definition skipn_z (n : Z) (b : bytes) : bytes := skipn (Z.to_nat n) b.
