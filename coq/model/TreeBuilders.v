(* The Merkle tree BUILDERS of tapescript/tools.py: make_script_tree_prioritized (with its `tree=` continuation
   argument), make_merklized_script_prioritized, make_script_tree_balanced, make_merklized_script_balanced.
   Definitions only, all computable.  Leaves are byte strings (compiled scripts; the source text of a Script is
   not modelled, neither is the in-place replacement leaves[i] = Script.from_src(leaves[i])).

   Python                                          here
   ------                                          ----
   a Python list l used as a stack (l.pop())       pops l = the sequence in which l.pop() returns the elements
   l.reverse()                                     rev l
   make_script_tree_prioritized(ls)                prioritized ls           (None = ValueError 'must be at least 1 leaf')
   make_script_tree_prioritized(more, tree=old)    prioritized_onto more old   (prioritized_onto_py: None when more = [])
   make_merklized_script_prioritized(ls)           prioritized_unlocks H ls = Some (lock, unlocking scripts)
   make_script_tree_balanced(ls)                   balanced fill ls         (None = IndexError on nodes[0], ls = [])
   make_merklized_script_balanced(ls)              balanced_unlocks H fill ls
   empty_leaf(), the k-th call                     Leaf (fill k)            (push x<16 random bytes> return; the
                                                                             random bytes are not modelled)
   Script.from_src('false').bytes                  filler_false = 00

   Not modelled: the type checks on the arguments and make_script_tree_prioritized's vert(len(str(leaf)) > 0)
   (a leaf with empty source makes the Python raise ValueError at once; here the tree is built and the
   unlocking scripts are None, because an empty value cannot be pushed); make_script_tree_prioritized also
   empties the caller's list (pop) - the model's lists are values. *)
From Coq Require Import ZArith List Bool Arith.
From Coq.Strings Require Import Byte.
From TS Require Import Bytes Ops Asm Builders MerkleTree.
Import ListNotations.
Local Open Scope nat_scope.

(* the order in which repeated l.pop() hands out the elements of the Python list l: last first *)
Definition pops {A} (l : list A) : list A := rev l.

(* ---------- make_script_tree_prioritized ---------- *)

(* 'false' compiles to OP_FALSE *)
Definition filler_false : bytes := [x00].

(* the `if tree:` branch, run to its end: every popped script becomes the LEFT leaf of a new node whose right
   child is the tree built so far.  [popped] is what is left to pop, in pop order. *)
Fixpoint prio_loop (popped : list bytes) (t : tree) : tree :=
  match popped with
  | [] => t
  | s :: rest => prio_loop rest (Node (Leaf s) t)
  end.

(* make_script_tree_prioritized(more, tree=old).  Python raises ValueError for more = [] (prioritized_onto_py);
   the total function returns old in that case. *)
Definition prioritized_onto (more : list bytes) (old : tree) : tree := prio_loop (pops more) old.

Definition prioritized_onto_py (more : list bytes) (old : tree) : option tree :=
  match more with [] => None | _ => Some (prioritized_onto more old) end.

(* make_script_tree_prioritized(ls): one leaf gets the filler `false` appended; the final two are combined
   (keyword arguments: right= is evaluated, hence popped, first), the remaining ones continue as above *)
Definition prioritized (ls : list bytes) : option tree :=
  match ls with
  | [] => None
  | _ =>
    let ls' := match ls with [_] => ls ++ [filler_false] | _ => ls end in
    match pops ls' with
    | r :: l :: rest => Some (prio_loop rest (Node (Leaf l) (Leaf r)))
    | _ => None
    end
  end.

(* the walk of make_merklized_script_prioritized: tree.left of the root, then of every ScriptNode reached by
   following .right, finally the .right that is not a ScriptNode.  [pre] = the path to the current node. *)
Fixpoint prio_walk_from (t : tree) (pre : list dir) : list (list dir) :=
  match t with
  | Leaf _ => []
  | Node l r =>
    (pre ++ [L]) ::
    match r with
    | Node _ _ => prio_walk_from r (pre ++ [R])
    | Leaf _ => [pre ++ [R]]
    end
  end.
Definition prio_walk (t : tree) : list (list dir) := prio_walk_from t [].

(* all results, or None as soon as one is None (= the Python call raises) *)
Fixpoint all_some {A} (l : list (option A)) : option (list A) :=
  match l with
  | [] => Some []
  | None :: _ => None
  | Some x :: l' => match all_some l' with Some xs => Some (x :: xs) | None => None end
  end.

(* (lock, unlocking scripts) for a root and the paths of the nodes whose unlocking_script() is called *)
Definition merklized (H : bytes -> bytes) (t : tree) (paths : list (list dir)) : option (bytes * list bytes) :=
  match t with
  | Leaf _ => None
  | Node l r =>
    match all_some (map (unlock H t) paths) with
    | Some us => Some (lock H l r, us)
    | None => None
    end
  end.

Definition prioritized_unlocks (H : bytes -> bytes) (ls : list bytes) : option (bytes * list bytes) :=
  match prioritized ls with
  | Some t => merklized H t (prio_walk t)
  | None => None
  end.

(* the explicit place of leaf i of n: R^i L, the last one R^(n-1); with one leaf the tree is (leaf, filler) *)
Definition prio_path (n i : nat) : list dir :=
  if n =? 1 then [L]
  else if S i <? n then repeat R i ++ [L]
  else repeat R (n - 1).

Definition prio_depth (n i : nat) : nat :=
  if n =? 1 then 1 else if S i <? n then S i else n - 1.

(* ---------- make_script_tree_balanced ---------- *)

(* while len(l): out.append(ScriptNode(l.pop(), l.pop())) on the pop sequence (positional arguments: the first
   pop is the left child).  An odd sequence makes the Python raise IndexError; the callers pad to even. *)
Fixpoint pairs (popped : list tree) : list tree :=
  match popped with
  | a :: b :: rest => Node a b :: pairs rest
  | _ => []
  end.

(* empty_node() when k fillers have been made so far *)
Definition filler_node (fill : nat -> bytes) (k : nat) : tree := Node (Leaf (fill k)) (Leaf (fill (S k))).

(* one pass: pad an odd list with ONE filler (a leaf on the leaf level, a node of two leaves on every node
   level, whatever the height of the other nodes), reverse, pop pairwise *)
Definition pad_leaves (fill : nat -> bytes) (k : nat) (l : list tree) : nat * list tree :=
  if Nat.odd (List.length l) then (S k, l ++ [Leaf (fill k)]) else (k, l).
Definition pad_nodes (fill : nat -> bytes) (k : nat) (l : list tree) : nat * list tree :=
  if Nat.odd (List.length l) then (S (S k), l ++ [filler_node fill k]) else (k, l).

(* while len(nodes) > 1; the list halves (rounded up) in every pass: fuel = its length is enough *)
Fixpoint levels (fuel : nat) (fill : nat -> bytes) (k : nat) (nodes : list tree) : option tree :=
  match nodes with
  | [] => None                      (* nodes[0]: IndexError *)
  | [t] => Some t
  | _ =>
    match fuel with
    | O => None
    | S f =>
      let kn := pad_nodes fill k nodes in
      levels f fill (fst kn) (pairs (pops (rev (snd kn))))
    end
  end.

Definition balanced (fill : nat -> bytes) (ls : list bytes) : option tree :=
  let kl := pad_leaves fill 0 (map Leaf ls) in
  let nodes := pairs (pops (rev (snd kl))) in
  levels (List.length nodes) fill (fst kl) nodes.

(* _find_leaves, as paths from [pre], in order *)
Fixpoint leaf_paths_from (t : tree) (pre : list dir) : list (list dir) :=
  match t with
  | Leaf _ => [pre]
  | Node l r => leaf_paths_from l (pre ++ [L]) ++ leaf_paths_from r (pre ++ [R])
  end.
Definition leaf_paths (t : tree) : list (list dir) := leaf_paths_from t [].

(* the in-order leaf scripts *)
Fixpoint flatten (t : tree) : list bytes :=
  match t with
  | Leaf s => [s]
  | Node l r => flatten l ++ flatten r
  end.

Definition balanced_unlocks (H : bytes -> bytes) (fill : nat -> bytes) (ls : list bytes)
  : option (bytes * list bytes) :=
  match balanced fill ls with
  | Some t => merklized H t (firstn (List.length ls) (leaf_paths t))
  | None => None
  end.

(* the path of leaf i in a tree all of whose real leaves are at depth d: the d low bits of i, most significant
   first, 0 = left *)
Definition bit (i j : nat) : bool := Nat.odd (i / 2 ^ j).
Definition dir_of (b : bool) : dir := if b then R else L.
Fixpoint bin_path (d i : nat) : list dir :=
  match d with
  | O => []
  | S d' => dir_of (bit i d') :: bin_path d' i
  end.

(* the number of passes of the while loop for a list of c nodes *)
Fixpoint halvings (fuel c : nat) : nat :=
  if c <=? 1 then 0
  else match fuel with O => 0 | S f => S (halvings f ((c + 1) / 2)) end.

(* the depth of every input leaf of the balanced tree of n >= 1 leaves: 1 for n = 1, ceil(log2 n) otherwise *)
Definition bal_depth (n : nat) : nat := S (halvings ((n + 1) / 2) ((n + 1) / 2)).

(* entry points of the correspondence run (harness/builders.py c04, command TB): the two make_merklized_script_* builders;
   the filler leaves of the balanced builder (random bytes) are handed over by the harness in creation order *)
Definition tb_prioritized (H : bytes -> bytes) (ls : list bytes) : option (bytes * list bytes) := prioritized_unlocks H ls.
Definition tb_balanced (H : bytes -> bytes) (fills ls : list bytes) : option (bytes * list bytes) :=
  balanced_unlocks H (fun k => nth k fills []) ls.
