(* C08: no instruction, at any nesting, changes a str-keyed cache entry other than the
   interpreter's own control flag 'returned'. *)
From Coq Require Import ZArith List Bool Lia.
From Coq.Strings Require Import Byte String.
From TS Require Import Bytes Codec State Prog Ops Interp StateLemmas Closure.
Import ListNotations.
Local Open Scope nat_scope.

Definition returned_name : bytes := str "returned".

(* st' has the same value as st under every str key except 'returned' *)
Definition R_str (st st' : state) : Prop :=
  forall k, bytes_eqb k returned_name = false ->
    cache_get (st_cache st') (KStr k) = cache_get (st_cache st) (KStr k).

Lemma R_str_refl s : R_str s s.
Proof. intros k _. reflexivity. Qed.

Lemma R_str_trans a b c : R_str a b -> R_str b c -> R_str a c.
Proof. intros H1 H2 k Hk. rewrite (H2 k Hk). apply H1. exact Hk. Qed.

Lemma R_str_cache_eq st st' : st_cache st' = st_cache st -> R_str st st'.
Proof. intros H k _. rewrite H. reflexivity. Qed.

Lemma R_str_set_bytes st k v : R_str st (with_cache st (cache_set (st_cache st) (KBytes k) v)).
Proof. intros k' _. simpl. apply cache_get_set_other. reflexivity. Qed.

Lemma returned_key_other k : bytes_eqb k returned_name = false -> ckey_eqb returned_key (KStr k) = false.
Proof. intro H. unfold returned_key, returned_name in *. cbn [ckey_eqb]. rewrite bytes_eqb_sym. exact H. Qed.

Lemma R_str_set_returned st v : R_str st (with_cache st (cache_set (st_cache st) returned_key v)).
Proof. intros k Hk. simpl. apply cache_get_set_other. apply returned_key_other. exact Hk. Qed.

Lemma R_str_del_returned st : R_str st (with_cache st (cache_del (st_cache st) returned_key)).
Proof. intros k Hk. simpl. apply cache_get_del_other. apply returned_key_other. exact Hk. Qed.

Lemma R_str_del_returned' st st1 :
  st_cache st1 = st_cache st -> R_str st (with_cache st1 (cache_del (st_cache st1) returned_key)).
Proof. intros E k Hk. simpl. rewrite E. apply cache_get_del_other. apply returned_key_other. exact Hk. Qed.

Section Str.
Variable orc : oracle.
Variable cfg : config.

Lemma step_closed_str : step_closed orc cfg R_str.
Proof.
  intros run Hrun X a fr st.
  destruct a; simpl;
    try (apply R_str_refl);
    try (apply R_str_cache_eq; reflexivity).
  - (* AGet *) destruct (st_stack st); simpl; [apply R_str_refl|apply R_str_cache_eq; reflexivity].
  - (* APut *)
    destruct (_ <? _); simpl; [apply R_str_refl|].
    destruct (_ <=? _); simpl; [apply R_str_refl|apply R_str_cache_eq; reflexivity].
  - (* APeek *) destruct (st_stack st); simpl; apply R_str_refl.
  - (* ASwapIdx *) destruct (_ && _); simpl; [apply R_str_cache_eq; reflexivity|exact I].
  - (* ARead *) destruct (_ <? _); simpl; apply R_str_refl.
  - (* ACacheSet *) apply R_str_set_bytes.
  - (* AReturnedSet *) apply R_str_set_returned.
  - (* AReturnedClear *) apply R_str_del_returned.
  - (* ACallDef *)
    unfold after_run.
    match goal with |- context [run ?t ?s] => pose proof (Hrun t s) as H; destruct (run t s) end;
      simpl in *; try exact I; (eapply R_str_trans; [|exact H]); apply R_str_cache_eq; reflexivity.
  - (* ARunSub *)
    unfold after_run.
    match goal with |- context [run ?t ?s] => pose proof (Hrun t s) as H; destruct (run t s) end;
      simpl in *; try exact I; (eapply R_str_trans; [|exact H]); apply R_str_cache_eq; reflexivity.
  - (* ATrySub *)
    match goal with |- context [run ?t ?s] => pose proof (Hrun t s) as H; destruct (run t s) end;
      simpl in *; try exact I; (eapply R_str_trans; [|exact H]); apply R_str_cache_eq; reflexivity.
  - (* ARunLoop *)
    unfold after_run.
    match goal with |- context [run ?t ?s] => pose proof (Hrun t s) as H; destruct (run t s) end;
      simpl in *; try exact I; exact H.
Qed.

(* every instruction sequence, any nesting, normal or exceptional end *)
Theorem run_tape_str : forall fuel tid ptr st,
  R_out R_str st (run_tape orc cfg fuel tid ptr st).
Proof. apply run_tape_closed; [apply R_str_refl|apply R_str_trans|apply step_closed_str]. Qed.

(* run_script: the final cache agrees with the embedder's values on every str key but 'returned' *)
Theorem run_script_str fuel script vals :
  match run_script orc cfg fuel script vals with
  | Done _ _ st' | Raised _ _ st' =>
    forall k, bytes_eqb k returned_name = false ->
      cache_get (st_cache st') (KStr k) = cache_get (init_cache cfg vals) (KStr k)
  | _ => True
  end.
Proof.
  unfold run_script.
  pose proof (run_tape_str fuel 0 0 (init_state cfg script vals)) as H.
  destruct (run_tape orc cfg fuel 0 0 (init_state cfg script vals)); simpl in *; try exact I; exact H.
Qed.

Lemma auth_rest_str : forall fuel scripts prev st,
  match auth_rest orc cfg fuel scripts prev st with
  | AuthVerdict _ st' => R_str st st'
  | _ => True
  end.
Proof.
  intros fuel scripts. induction scripts as [|s rest IH]; intros prev st; simpl.
  - destruct (st_stack st) as [|item [|x y]]; simpl; try apply R_str_refl.
    apply R_str_cache_eq. reflexivity.
  - match goal with |- context [run_tape orc cfg fuel ?t 0 ?s] =>
      pose proof (run_tape_str fuel t 0 s) as H; destruct (run_tape orc cfg fuel t 0 s) as [a fr' st'|e fr' st'| |w] end;
    simpl in *; try exact I.
    + specialize (IH (List.length (st_tapes st)) st').
      destruct (auth_rest orc cfg fuel rest _ st'); try exact I.
      eapply R_str_trans; [|exact IH]. eapply R_str_trans; [|exact H].
      intros k Hk. simpl. apply cache_get_del_other. apply returned_key_other. exact Hk.
    + eapply R_str_trans; [|exact H].
      intros k Hk. simpl. apply cache_get_del_other. apply returned_key_other. exact Hk.
Qed.

Theorem run_auth_scripts_str fuel scripts vals :
  match run_auth_scripts orc cfg fuel scripts vals with
  | AuthVerdict _ st' =>
    forall k, bytes_eqb k returned_name = false ->
      cache_get (st_cache st') (KStr k) = cache_get (init_cache cfg vals) (KStr k)
  | _ => True
  end.
Proof.
  unfold run_auth_scripts. destruct scripts as [|s rest]; [exact I|].
  pose proof (run_script_str fuel s vals) as H.
  destruct (run_script orc cfg fuel s vals) as [a fr st|e fr st| |w]; try exact I.
  - pose proof (auth_rest_str fuel rest 0 st) as H2.
    destruct (auth_rest orc cfg fuel rest 0 st); try exact I.
    intros k Hk. rewrite (H2 k Hk). apply H. exact Hk.
  - exact H.
Qed.

End Str.
