(* Algebra.v — adapter signatures (C17) and anonymous multi-hop locks (C18), proved for every
   commutative ring of scalars acting on an abelian group of points (a module), every base
   point G and every Fiat-Shamir challenge function.  No cryptographic hardness is assumed or
   used: every "sensitivity" statement is an exact iff-characterisation.

   Mirror of /repo/tapescript/functions.py (OP_MAKE_ADAPTER_SIG_PUBLIC, OP_MAKE_ADAPTER_SIG_PRIVATE,
   OP_CHECK_ADAPTER_SIG, OP_DECRYPT_ADAPTER_SIG), /repo/tapescript/AMHL.py and
   tools.release_left_amhl_lock. *)
From Coq Require Import ZArith List Lia Ring Ring_theory.
Import ListNotations.

Section Alg.
  Variable scalar : Type.
  Variables (s0 s1 : scalar) (sadd smul ssub : scalar -> scalar -> scalar) (sopp : scalar -> scalar).
  Hypothesis scalar_ring : ring_theory s0 s1 sadd smul ssub sopp (@eq scalar).
  Add Ring scalar_ring_inst : scalar_ring.

  Variable point : Type.
  Variables (p0 : point) (padd psub : point -> point -> point) (popp : point -> point).
  (* abelian group *)
  Hypothesis padd_comm : forall P Q, padd P Q = padd Q P.
  Hypothesis padd_assoc : forall P Q R, padd P (padd Q R) = padd (padd P Q) R.
  Hypothesis padd_0_l : forall P, padd p0 P = P.
  Hypothesis padd_opp : forall P, padd P (popp P) = p0.
  Hypothesis psub_def : forall P Q, psub P Q = padd P (popp Q).
  (* scalar action *)
  Variable act : scalar -> point -> point.
  Hypothesis act_add_l : forall a b P, act (sadd a b) P = padd (act a P) (act b P).
  Hypothesis act_add_r : forall a P Q, act a (padd P Q) = padd (act a P) (act a Q).
  Hypothesis act_mul : forall a b P, act (smul a b) P = act a (act b P).
  Hypothesis act_1 : forall P, act s1 P = P.
  Variable G : point.
  Variable msg : Type.
  (* c(R', X, m) = clamp(H_small(R' || X || m)) — an arbitrary function here *)
  Variable chal : point -> point -> msg -> scalar.

  (* ------------------------------------------------------------------ *)
  (* group and module lemmas                                             *)
  (* ------------------------------------------------------------------ *)

  Lemma padd_0_r : forall P, padd P p0 = P.
  Proof. intro P. rewrite padd_comm. apply padd_0_l. Qed.

  Lemma padd_opp_l : forall P, padd (popp P) P = p0.
  Proof. intro P. rewrite padd_comm. apply padd_opp. Qed.

  Lemma padd_cancel_l : forall P Q R, padd P Q = padd P R -> Q = R.
  Proof.
    intros P Q R H.
    assert (E : forall Z, Z = padd (popp P) (padd P Z)).
    { intro Z. rewrite padd_assoc, padd_opp_l, padd_0_l. reflexivity. }
    rewrite (E Q), (E R), H. reflexivity.
  Qed.

  Lemma padd_cancel_l_iff : forall P Q R, padd P Q = padd P R <-> Q = R.
  Proof. intros P Q R. split; [apply padd_cancel_l | intros ->; reflexivity]. Qed.

  Lemma padd_cancel_r_iff : forall P Q R, padd Q P = padd R P <-> Q = R.
  Proof. intros P Q R. rewrite (padd_comm Q P), (padd_comm R P). apply padd_cancel_l_iff. Qed.

  Lemma padd_swap_r : forall A B C, padd (padd A B) C = padd (padd A C) B.
  Proof. intros A B C. rewrite <- !padd_assoc. rewrite (padd_comm B C). reflexivity. Qed.

  Lemma popp_unique : forall P Q, padd P Q = p0 -> Q = popp P.
  Proof. intros P Q H. apply (padd_cancel_l P). rewrite H, padd_opp. reflexivity. Qed.

  Lemma act_0 : forall P, act s0 P = p0.
  Proof.
    intro P. apply (padd_cancel_l (act s0 P)).
    rewrite <- act_add_l, padd_0_r.
    replace (sadd s0 s0) with s0 by ring. reflexivity.
  Qed.

  Lemma act_opp : forall a P, act (sopp a) P = popp (act a P).
  Proof.
    intros a P. apply popp_unique. rewrite <- act_add_l.
    replace (sadd a (sopp a)) with s0 by ring. apply act_0.
  Qed.

  Lemma act_sub : forall a b P, act (ssub a b) P = psub (act a P) (act b P).
  Proof.
    intros a b P. rewrite psub_def, <- act_opp, <- act_add_l.
    replace (ssub a b) with (sadd a (sopp b)) by ring. reflexivity.
  Qed.

  Lemma act_r_0 : forall a, act a p0 = p0.
  Proof.
    intro a. apply (padd_cancel_l (act a p0)).
    rewrite <- act_add_r, !padd_0_r. reflexivity.
  Qed.

  Lemma act_1_G : act s1 G = G.
  Proof. apply act_1. Qed.

  (* ------------------------------------------------------------------ *)
  (* definitions: mirror of the Python code                              *)
  (* ------------------------------------------------------------------ *)

  (* derive_point_from_scalar *)
  Definition pub (x : scalar) : point := act x G.

  (* ordinary signature verification for nonce point R and scalar s *)
  Definition sig_valid (X : point) (m : msg) (R : point) (s : scalar) : Prop :=
    act s G = padd R (act (chal R X m) X).

  (* OP_MAKE_ADAPTER_SIG_PUBLIC: result (R, sa) *)
  Definition make_adapter_public (x r : scalar) (T : point) (m : msg) : point * scalar :=
    (act r G, sadd r (smul (chal (padd (act r G) T) (pub x) m) x)).

  (* OP_CHECK_ADAPTER_SIG *)
  Definition check_adapter (X T : point) (m : msg) (R : point) (sa : scalar) : Prop :=
    act sa G = padd R (act (chal (padd R T) X m) X).

  (* OP_DECRYPT_ADAPTER_SIG: result (RT, s) *)
  Definition decrypt_adapter (t : scalar) (R : point) (sa : scalar) : point * scalar :=
    (padd R (act t G), sadd sa t).

  (* t = s - sa *)
  Definition recover (s sa : scalar) : scalar := ssub s sa.

  (* OP_MAKE_ADAPTER_SIG_PRIVATE, as written in the code: result (T, R, sa') with
     sa' = t + r + c(R, X, m) * x *)
  Definition make_adapter_private (x r t : scalar) (m : msg) : point * point * scalar :=
    (act t G, act r G, sadd (sadd t r) (smul (chal (act r G) (pub x) m) x)).

  (* AMHL.setup: Y_0 = y_0 G ; Y_i = Y_{i-1} + y_i G *)
  Fixpoint Y_from (prev : point) (ys : list scalar) : list point :=
    match ys with
    | [] => []
    | y :: ys' => padd prev (act y G) :: Y_from (padd prev (act y G)) ys'
    end.

  Definition Y_list (ys : list scalar) : list point :=
    match ys with
    | [] => []
    | y0 :: ys' => act y0 G :: Y_from (act y0 G) ys'
    end.

  (* AMHL.scalar_sum: sum = scalars[0]; then add the rest left to right *)
  Definition scalar_sum (ys : list scalar) : scalar :=
    match ys with
    | [] => s0
    | y :: r => fold_left sadd r y
    end.

  (* y_0 + ... + y_i *)
  Definition prefix_sum (ys : list scalar) (i : nat) : scalar := scalar_sum (firstn (S i) ys).

  (* AMHL.setup_for(s, n)[-1] *)
  Definition total (ys : list scalar) : scalar := scalar_sum ys.

  (* AMHL.check_setup for 0 < i < n on (Y_{i-1}, Y_i, y_i) *)
  Definition check_setup (Yl : point) (yi : scalar) (Yr : point) : Prop :=
    padd Yl (act yi G) = Yr.

  (* AMHL.release *)
  Definition release (k y : scalar) : scalar := ssub k y.

  (* AMHL.verify_lock_key *)
  Definition verify_lock_key (L : point) (k : scalar) : Prop := L = act k G.

  (* tools.release_left_amhl_lock: t = s - sa, then AMHL.release(t, y) *)
  Definition release_left (sa s y : scalar) : scalar := release (recover s sa) y.

  (* ------------------------------------------------------------------ *)
  (* C17: adapter signatures                                             *)
  (* ------------------------------------------------------------------ *)

  Lemma pub_1 : pub s1 = G.
  Proof. unfold pub. apply act_1. Qed.

  (* the equation satisfied by the honest adapter scalar *)
  Lemma adapter_scalar_eq : forall x r T m,
    act (snd (make_adapter_public x r T m)) G =
    padd (act r G) (act (chal (padd (act r G) T) (pub x) m) (pub x)).
  Proof.
    intros x r T m. unfold make_adapter_public, pub. simpl.
    rewrite act_add_l, act_mul. reflexivity.
  Qed.

  (* 1 *)
  Theorem adapter_checks : forall x r T m,
    check_adapter (pub x) T m
      (fst (make_adapter_public x r T m)) (snd (make_adapter_public x r T m)).
  Proof.
    intros x r T m. unfold check_adapter. rewrite adapter_scalar_eq. reflexivity.
  Qed.

  (* 2 *)
  Theorem adapter_decrypts : forall x r t m,
    let T := act t G in
    let ad := make_adapter_public x r T m in
    let dec := decrypt_adapter t (fst ad) (snd ad) in
    fst dec = padd (fst ad) T /\
    snd dec = sadd (snd ad) t /\
    sig_valid (pub x) m (fst dec) (snd dec).
  Proof.
    intros x r t m T ad dec. split; [reflexivity|]. split; [reflexivity|].
    unfold sig_valid, dec, decrypt_adapter. cbn [fst snd].
    rewrite act_add_l. unfold ad. rewrite adapter_scalar_eq. cbn [fst make_adapter_public].
    fold T. apply padd_swap_r.
  Qed.

  (* 3 *)
  Theorem recover_decrypt : forall sa t, recover (sadd sa t) sa = t.
  Proof. intros sa t. unfold recover. ring. Qed.

  Theorem adapter_recovers : forall x r t m,
    let ad := make_adapter_public x r (act t G) m in
    let dec := decrypt_adapter t (fst ad) (snd ad) in
    recover (snd dec) (snd ad) = t.
  Proof. intros x r t m ad dec. apply recover_decrypt. Qed.

  (* 4a: OP_CHECK_ADAPTER_SIG pins down sa up to the kernel of (fun a => a G) *)
  Theorem check_sensitive_sa : forall x r T m sa2,
    let ad := make_adapter_public x r T m in
    check_adapter (pub x) T m (fst ad) sa2 <-> act sa2 G = act (snd ad) G.
  Proof.
    intros x r T m sa2 ad. unfold check_adapter, ad.
    rewrite adapter_scalar_eq. cbn [fst make_adapter_public]. reflexivity.
  Qed.

  (* 4b, general form: the check is exactly the displayed equation *)
  Theorem check_adapter_spec : forall X2 T2 m2 R2 sa2,
    check_adapter X2 T2 m2 R2 sa2 <->
    act sa2 G = padd R2 (act (chal (padd R2 T2) X2 m2) X2).
  Proof. intros. unfold check_adapter. reflexivity. Qed.

  (* 4b: honest adapter, only T changed *)
  Theorem check_sensitive_T : forall x r T m T2,
    let ad := make_adapter_public x r T m in
    let R := fst ad in let X := pub x in
    check_adapter X T2 m R (snd ad) <->
    act (chal (padd R T) X m) X = act (chal (padd R T2) X m) X.
  Proof.
    intros x r T m T2 ad R X. unfold check_adapter, ad.
    rewrite adapter_scalar_eq. subst R X ad. cbn [fst make_adapter_public].
    apply padd_cancel_l_iff.
  Qed.

  (* 4c: honest adapter, only m changed *)
  Theorem check_sensitive_m : forall x r T m m2,
    let ad := make_adapter_public x r T m in
    let R := fst ad in let X := pub x in
    check_adapter X T m2 R (snd ad) <->
    act (chal (padd R T) X m) X = act (chal (padd R T) X m2) X.
  Proof.
    intros x r T m m2 ad R X. unfold check_adapter, ad.
    rewrite adapter_scalar_eq. subst R X ad. cbn [fst make_adapter_public].
    apply padd_cancel_l_iff.
  Qed.

  (* 5: the bare adapter is an ordinary signature exactly when the two challenges agree on X *)
  Theorem adapter_not_signature_iff : forall x r T m,
    let ad := make_adapter_public x r T m in
    let R := fst ad in let X := pub x in
    sig_valid X m R (snd ad) <->
    act (chal (padd R T) X m) X = act (chal R X m) X.
  Proof.
    intros x r T m ad R X. unfold sig_valid, ad.
    rewrite adapter_scalar_eq. subst R X ad. cbn [fst make_adapter_public].
    apply padd_cancel_l_iff.
  Qed.

  (* 6: decrypting with another scalar t2.  T is arbitrary here (not necessarily t G). *)
  Theorem wrong_scalar_iff : forall x r T m t2,
    let ad := make_adapter_public x r T m in
    let R := fst ad in let X := pub x in
    let dec := decrypt_adapter t2 R (snd ad) in
    sig_valid X m (fst dec) (snd dec) <->
    act (chal (padd R T) X m) X = act (chal (padd R (act t2 G)) X m) X.
  Proof.
    intros x r T m t2 ad R X dec. unfold sig_valid, dec, decrypt_adapter. cbn [fst snd].
    rewrite act_add_l. unfold ad. rewrite adapter_scalar_eq.
    subst R X ad. cbn [fst make_adapter_public].
    rewrite padd_swap_r. apply padd_cancel_l_iff.
  Qed.

  (* 6': the decrypted scalar checked against the intended nonce R + T *)
  Theorem wrong_scalar_intended_nonce_iff : forall x r T m t2,
    let ad := make_adapter_public x r T m in
    let R := fst ad in let X := pub x in
    sig_valid X m (padd R T) (sadd (snd ad) t2) <-> act t2 G = T.
  Proof.
    intros x r T m t2 ad R X. unfold sig_valid.
    rewrite act_add_l. unfold ad. rewrite adapter_scalar_eq.
    subst R X ad. cbn [fst make_adapter_public].
    rewrite padd_swap_r. rewrite padd_cancel_r_iff. apply padd_cancel_l_iff.
  Qed.

  (* 6 corollary: with injectivity of the three maps involved, only t itself decrypts *)
  Corollary wrong_scalar_injective : forall x r t m t2,
    (forall a b, act a (pub x) = act b (pub x) -> a = b) ->
    (forall a b, act a G = act b G -> a = b) ->
    (forall P Q, chal P (pub x) m = chal Q (pub x) m -> P = Q) ->
    let ad := make_adapter_public x r (act t G) m in
    let dec := decrypt_adapter t2 (fst ad) (snd ad) in
    sig_valid (pub x) m (fst dec) (snd dec) -> t2 = t.
  Proof.
    intros x r t m t2 HX HG Hc ad dec H.
    apply (wrong_scalar_iff x r (act t G) m t2) in H.
    apply HX in H. apply Hc in H. apply padd_cancel_l in H. apply HG in H. symmetry. exact H.
  Qed.

  (* 7: OP_MAKE_ADAPTER_SIG_PRIVATE *)
  Lemma private_scalar_eq : forall x r t m,
    act (snd (make_adapter_private x r t m)) G =
    padd (act r G) (padd (act t G) (act (chal (act r G) (pub x) m) (pub x))).
  Proof.
    intros x r t m. unfold make_adapter_private, pub. cbn [snd].
    replace (sadd (sadd t r) (smul (chal (act r G) (act x G) m) x))
      with (sadd r (sadd t (smul (chal (act r G) (act x G) m) x))) by ring.
    rewrite !act_add_l, act_mul. reflexivity.
  Qed.

  Theorem private_variant_check_iff : forall x r t m,
    let R := act r G in let T := act t G in let X := pub x in
    let sa' := snd (make_adapter_private x r t m) in
    make_adapter_private x r t m = (T, R, sa') /\
    (check_adapter X T m R sa' <->
     padd T (act (chal R X m) X) = act (chal (padd R T) X m) X).
  Proof.
    intros x r t m R T X sa'. split; [reflexivity|].
    unfold check_adapter, sa'. rewrite private_scalar_eq. subst R T X.
    apply padd_cancel_l_iff.
  Qed.

  Theorem private_variant_decrypt_iff : forall x r t m,
    let R := act r G in let T := act t G in let X := pub x in
    let sa' := snd (make_adapter_private x r t m) in
    let dec := decrypt_adapter t R sa' in
    sig_valid X m (fst dec) (snd dec) <->
    padd T (act (chal R X m) X) = act (chal (padd R T) X m) X.
  Proof.
    intros x r t m R T X sa' dec. unfold sig_valid, dec, decrypt_adapter. cbn [fst snd].
    rewrite act_add_l. unfold sa'. rewrite private_scalar_eq. subst R T X.
    rewrite <- !padd_assoc. rewrite padd_cancel_l_iff.
    rewrite (padd_comm (act t G) (act (chal (padd (act r G) (act t G)) (pub x) m) (pub x))).
    rewrite padd_assoc. apply padd_cancel_r_iff.
  Qed.

  (* the uncancelled form of the same equation, as it falls out of the verification equation *)
  Corollary private_variant_decrypt_iff_raw : forall x r t m,
    let R := act r G in let T := act t G in let X := pub x in
    let sa' := snd (make_adapter_private x r t m) in
    let dec := decrypt_adapter t R sa' in
    sig_valid X m (fst dec) (snd dec) <->
    padd T (padd T (act (chal R X m) X)) = padd T (act (chal (padd R T) X m) X).
  Proof.
    intros x r t m R T X sa' dec. rewrite padd_cancel_l_iff.
    apply private_variant_decrypt_iff.
  Qed.

  (* ------------------------------------------------------------------ *)
  (* C18: anonymous multi-hop locks                                      *)
  (* ------------------------------------------------------------------ *)

  Lemma fold_firstn_step : forall (l : list scalar) n acc, n < length l ->
    fold_left sadd (firstn (S n) l) acc = sadd (fold_left sadd (firstn n l) acc) (nth n l s0).
  Proof.
    induction l as [|a l IH]; intros n acc Hn; simpl in Hn; [lia|].
    destruct n as [|n].
    - reflexivity.
    - change (firstn (S (S n)) (a :: l)) with (a :: firstn (S n) l).
      change (firstn (S n) (a :: l)) with (a :: firstn n l).
      cbn [fold_left nth]. apply IH. lia.
  Qed.

  Lemma prefix_sum_0 : forall y ys, prefix_sum (y :: ys) 0 = y.
  Proof. reflexivity. Qed.

  Lemma prefix_sum_step : forall ys i, 0 < i < length ys ->
    prefix_sum ys i = sadd (prefix_sum ys (i - 1)) (nth i ys s0).
  Proof.
    intros [|y0 ys] i Hi; simpl in Hi; [lia|].
    destruct i as [|j]; [lia|].
    replace (S j - 1) with j by lia.
    unfold prefix_sum.
    change (firstn (S (S j)) (y0 :: ys)) with (y0 :: firstn (S j) ys).
    change (firstn (S j) (y0 :: ys)) with (y0 :: firstn j ys).
    cbn [scalar_sum nth]. apply fold_firstn_step. lia.
  Qed.

  Lemma prefix_sum_last : forall ys, ys <> [] -> prefix_sum ys (length ys - 1) = total ys.
  Proof.
    intros ys Hne. unfold prefix_sum, total.
    replace (S (length ys - 1)) with (length ys).
    - rewrite firstn_all. reflexivity.
    - destruct ys; [congruence | simpl; lia].
  Qed.

  Lemma Y_from_length : forall ys prev, length (Y_from prev ys) = length ys.
  Proof. induction ys as [|y ys IH]; intro prev; simpl; [reflexivity | rewrite IH; reflexivity]. Qed.

  Lemma Y_list_length : forall ys, length (Y_list ys) = length ys.
  Proof. intros [|y ys]; simpl; [reflexivity | rewrite Y_from_length; reflexivity]. Qed.

  Lemma Y_from_nth : forall ys prev acc i, i < length ys -> prev = act acc G ->
    nth i (Y_from prev ys) p0 = act (fold_left sadd (firstn (S i) ys) acc) G.
  Proof.
    induction ys as [|y ys IH]; intros prev acc i Hi Hp; simpl in Hi; [lia|].
    destruct i as [|i].
    - cbn. rewrite act_add_l, Hp. reflexivity.
    - change (firstn (S (S i)) (y :: ys)) with (y :: firstn (S i) ys).
      cbn [Y_from nth fold_left]. apply IH; [lia|].
      rewrite act_add_l, Hp. reflexivity.
  Qed.

  (* 8 *)
  Theorem amhl_points : forall ys i, i < length ys ->
    nth i (Y_list ys) p0 = act (prefix_sum ys i) G.
  Proof.
    intros [|y0 ys] i Hi; simpl in Hi; [lia|].
    destruct i as [|i].
    - reflexivity.
    - unfold prefix_sum.
      change (firstn (S (S i)) (y0 :: ys)) with (y0 :: firstn (S i) ys).
      cbn [Y_list nth scalar_sum]. apply Y_from_nth; [lia | reflexivity].
  Qed.

  (* 9 *)
  Theorem amhl_check_setup : forall ys i, 0 < i < length ys ->
    check_setup (nth (i - 1) (Y_list ys) p0) (nth i ys s0) (nth i (Y_list ys) p0).
  Proof.
    intros ys i Hi. unfold check_setup.
    rewrite !amhl_points by lia. rewrite (prefix_sum_step ys i Hi), act_add_l. reflexivity.
  Qed.

  (* 10 *)
  Theorem amhl_final_key : forall ys, ys <> [] ->
    verify_lock_key (last (Y_list ys) p0) (total ys).
  Proof.
    intros ys Hne. unfold verify_lock_key.
    assert (Hlen : length ys <> 0) by (destruct ys; [congruence | simpl; lia]).
    assert (HL : last (Y_list ys) p0 = nth (length ys - 1) (Y_list ys) p0).
    { rewrite <- (Y_list_length ys).
      generalize (Y_list ys). intro l.
      induction l as [|a l IHl]; [reflexivity|].
      destruct l as [|b l]; [reflexivity|].
      change (last (a :: b :: l) p0) with (last (b :: l) p0). rewrite IHl.
      cbn [length]. replace (S (S (length l)) - 1) with (S (S (length l) - 1)) by lia.
      reflexivity. }
    rewrite HL, amhl_points by lia. rewrite prefix_sum_last by exact Hne. reflexivity.
  Qed.

  (* 11 *)
  Theorem amhl_release : forall ys i, 0 < i < length ys ->
    release (prefix_sum ys i) (nth i ys s0) = prefix_sum ys (i - 1) /\
    verify_lock_key (nth (i - 1) (Y_list ys) p0) (release (prefix_sum ys i) (nth i ys s0)).
  Proof.
    intros ys i Hi.
    assert (E : release (prefix_sum ys i) (nth i ys s0) = prefix_sum ys (i - 1)).
    { rewrite (prefix_sum_step ys i Hi). unfold release. ring. }
    split; [exact E|]. rewrite E. unfold verify_lock_key. apply amhl_points. lia.
  Qed.

  (* 12: the cascade.  Hop i's adapter (made for T_i = Y_i by signer x, nonce r, message m) is
     decrypted with the hop key prefix_sum i; from the published signature scalar the left
     neighbour computes release_left, which is prefix_sum (i-1), and that scalar decrypts hop
     (i-1)'s adapter (made for T_{i-1} by signer x', nonce r', message m') into a valid signature. *)
  Theorem amhl_cascade : forall ys i, 0 < i < length ys ->
    forall x r m x' r' m',
    let Ti := nth i (Y_list ys) p0 in
    let Tl := nth (i - 1) (Y_list ys) p0 in
    let ad_i := make_adapter_public x r Ti m in
    let dec_i := decrypt_adapter (prefix_sum ys i) (fst ad_i) (snd ad_i) in
    let k := release_left (snd ad_i) (snd dec_i) (nth i ys s0) in
    let ad_l := make_adapter_public x' r' Tl m' in
    let dec_l := decrypt_adapter k (fst ad_l) (snd ad_l) in
    sig_valid (pub x) m (fst dec_i) (snd dec_i) /\
    k = prefix_sum ys (i - 1) /\
    verify_lock_key Tl k /\
    sig_valid (pub x') m' (fst dec_l) (snd dec_l).
  Proof.
    intros ys i Hi x r m x' r' m' Ti Tl ad_i dec_i k ad_l dec_l.
    assert (HTi : Ti = act (prefix_sum ys i) G) by (apply amhl_points; lia).
    assert (HTl : Tl = act (prefix_sum ys (i - 1)) G) by (apply amhl_points; lia).
    assert (Hk : k = prefix_sum ys (i - 1)).
    { unfold k, release_left, dec_i, decrypt_adapter. cbn [snd].
      rewrite recover_decrypt. apply (amhl_release ys i Hi). }
    split.
    - unfold dec_i, ad_i. rewrite HTi.
      apply (adapter_decrypts x r (prefix_sum ys i) m).
    - split; [exact Hk|]. split.
      + unfold verify_lock_key. rewrite Hk. exact HTl.
      + unfold dec_l, ad_l. rewrite Hk, HTl.
        apply (adapter_decrypts x' r' (prefix_sum ys (i - 1)) m').
  Qed.

  (* 13 *)
  Theorem amhl_wrong_hop_iff : forall ys i k, i < length ys ->
    verify_lock_key (nth i (Y_list ys) p0) k <-> act k G = act (prefix_sum ys i) G.
  Proof.
    intros ys i k Hi. unfold verify_lock_key. rewrite amhl_points by exact Hi.
    split; intro H; symmetry; exact H.
  Qed.

End Alg.

Arguments pub {scalar point} act G x.
Arguments sig_valid {scalar point} padd act G {msg} chal X m R s.
Arguments make_adapter_public {scalar} sadd smul {point} padd act G {msg} chal x r T m.
Arguments check_adapter {scalar point} padd act G {msg} chal X T m R sa.
Arguments decrypt_adapter {scalar} sadd {point} padd act G t R sa.
Arguments recover {scalar} ssub s sa.
Arguments make_adapter_private {scalar} sadd smul {point} act G {msg} chal x r t m.
Arguments Y_from {scalar point} padd act G prev ys.
Arguments Y_list {scalar point} padd act G ys.
Arguments scalar_sum {scalar} s0 sadd ys.
Arguments prefix_sum {scalar} s0 sadd ys i.
Arguments total {scalar} s0 sadd ys.
Arguments check_setup {scalar point} padd act G Yl yi Yr.
Arguments release {scalar} ssub k y.
Arguments verify_lock_key {scalar point} act G L k.
Arguments release_left {scalar} ssub sa s y.

(* ---------------------------------------------------------------------- *)
(* Non-vacuity: the whole interface is inhabited by scalar = point = Z,    *)
(* a . P = a * P, G = 1, chal R X m = R + 2 X + m.                          *)
(* ---------------------------------------------------------------------- *)

Local Open Scope Z_scope.

Definition Zchal (R X m : Z) : Z := R + 2 * X + m.

Lemma Z_scalar_ring : ring_theory 0 1 Z.add Z.mul Z.sub Z.opp (@eq Z).
Proof. exact Zth. Qed.
Lemma Z_padd_comm : forall P Q : Z, P + Q = Q + P.
Proof. intros; ring. Qed.
Lemma Z_padd_assoc : forall P Q R : Z, P + (Q + R) = (P + Q) + R.
Proof. intros; ring. Qed.
Lemma Z_padd_0_l : forall P : Z, 0 + P = P.
Proof. intros; ring. Qed.
Lemma Z_padd_opp : forall P : Z, P + - P = 0.
Proof. intros; ring. Qed.
Lemma Z_psub_def : forall P Q : Z, P - Q = P + - Q.
Proof. intros; ring. Qed.
Lemma Z_act_add_l : forall a b P : Z, (a + b) * P = a * P + b * P.
Proof. intros; ring. Qed.
Lemma Z_act_add_r : forall a P Q : Z, a * (P + Q) = a * P + a * Q.
Proof. intros; ring. Qed.
Lemma Z_act_mul : forall a b P : Z, (a * b) * P = a * (b * P).
Proof. intros; ring. Qed.
Lemma Z_act_1 : forall P : Z, 1 * P = P.
Proof. intros; ring. Qed.

Notation pubZ := (pub Z.mul 1).
Notation sig_validZ := (sig_valid Z.add Z.mul 1 Zchal).
Notation make_pubZ := (make_adapter_public Z.add Z.mul Z.add Z.mul 1 Zchal).
Notation make_prvZ := (make_adapter_private Z.add Z.mul Z.mul 1 Zchal).
Notation checkZ := (check_adapter Z.add Z.mul 1 Zchal).
Notation decryptZ := (decrypt_adapter Z.add Z.add Z.mul 1).
Notation Y_listZ := (Y_list Z.add Z.mul 1).
Notation prefix_sumZ := (prefix_sum 0 Z.add).
Notation totalZ := (total 0 Z.add).
Notation verify_lock_keyZ := (verify_lock_key Z.mul 1).

(* the module lemmas (these consume psub_def, act_add_r and act_1) *)
Example act_sub_Z : forall a b P : Z, (a - b) * P = a * P - b * P.
Proof. exact (act_sub Z 0 1 Z.add Z.mul Z.sub Z.opp Z_scalar_ring Z 0 Z.add Z.sub Z.opp Z_padd_comm Z_padd_assoc Z_padd_0_l Z_padd_opp Z_psub_def Z.mul Z_act_add_l). Qed.
Example act_r_0_Z : forall a : Z, a * 0 = 0.
Proof. exact (act_r_0 Z Z 0 Z.add Z.opp Z_padd_comm Z_padd_assoc Z_padd_0_l Z_padd_opp Z.mul Z_act_add_r). Qed.
Example pub_1_Z : pubZ 1 = 1.
Proof. exact (pub_1 Z 1 Z Z.mul Z_act_1 1). Qed.

(* C17 *)
Example adapter_checks_Z : forall x r T m : Z,
  checkZ (pubZ x) T m (fst (make_pubZ x r T m)) (snd (make_pubZ x r T m)).
Proof. exact (adapter_checks Z Z.add Z.mul Z Z.add Z.mul Z_act_add_l Z_act_mul 1 Z Zchal). Qed.

Example adapter_decrypts_Z : forall x r t m : Z,
  let T := t * 1 in
  let ad := make_pubZ x r T m in
  let dec := decryptZ t (fst ad) (snd ad) in
  fst dec = fst ad + T /\ snd dec = snd ad + t /\ sig_validZ (pubZ x) m (fst dec) (snd dec).
Proof. exact (adapter_decrypts Z Z.add Z.mul Z Z.add Z_padd_comm Z_padd_assoc Z.mul Z_act_add_l Z_act_mul 1 Z Zchal). Qed.

Example adapter_recovers_Z : forall x r t m : Z,
  let ad := make_pubZ x r (t * 1) m in
  let dec := decryptZ t (fst ad) (snd ad) in
  recover Z.sub (snd dec) (snd ad) = t.
Proof. exact (adapter_recovers Z 0 1 Z.add Z.mul Z.sub Z.opp Z_scalar_ring Z Z.add Z.mul 1 Z Zchal). Qed.

Example check_sensitive_sa_Z : forall x r T m sa2 : Z,
  let ad := make_pubZ x r T m in
  checkZ (pubZ x) T m (fst ad) sa2 <-> sa2 * 1 = snd ad * 1.
Proof. exact (check_sensitive_sa Z Z.add Z.mul Z Z.add Z.mul Z_act_add_l Z_act_mul 1 Z Zchal). Qed.

Example check_sensitive_T_Z : forall x r T m T2 : Z,
  let ad := make_pubZ x r T m in
  let R := fst ad in let X := pubZ x in
  checkZ X T2 m R (snd ad) <-> Zchal (R + T) X m * X = Zchal (R + T2) X m * X.
Proof. exact (check_sensitive_T Z Z.add Z.mul Z 0 Z.add Z.opp Z_padd_comm Z_padd_assoc Z_padd_0_l Z_padd_opp Z.mul Z_act_add_l Z_act_mul 1 Z Zchal). Qed.

Example check_sensitive_m_Z : forall x r T m m2 : Z,
  let ad := make_pubZ x r T m in
  let R := fst ad in let X := pubZ x in
  checkZ X T m2 R (snd ad) <-> Zchal (R + T) X m * X = Zchal (R + T) X m2 * X.
Proof. exact (check_sensitive_m Z Z.add Z.mul Z 0 Z.add Z.opp Z_padd_comm Z_padd_assoc Z_padd_0_l Z_padd_opp Z.mul Z_act_add_l Z_act_mul 1 Z Zchal). Qed.

Example adapter_not_signature_iff_Z : forall x r T m : Z,
  let ad := make_pubZ x r T m in
  let R := fst ad in let X := pubZ x in
  sig_validZ X m R (snd ad) <-> Zchal (R + T) X m * X = Zchal R X m * X.
Proof. exact (adapter_not_signature_iff Z Z.add Z.mul Z 0 Z.add Z.opp Z_padd_comm Z_padd_assoc Z_padd_0_l Z_padd_opp Z.mul Z_act_add_l Z_act_mul 1 Z Zchal). Qed.

Example wrong_scalar_iff_Z : forall x r T m t2 : Z,
  let ad := make_pubZ x r T m in
  let R := fst ad in let X := pubZ x in
  let dec := decryptZ t2 R (snd ad) in
  sig_validZ X m (fst dec) (snd dec) <->
  Zchal (R + T) X m * X = Zchal (R + t2 * 1) X m * X.
Proof. exact (wrong_scalar_iff Z Z.add Z.mul Z 0 Z.add Z.opp Z_padd_comm Z_padd_assoc Z_padd_0_l Z_padd_opp Z.mul Z_act_add_l Z_act_mul 1 Z Zchal). Qed.

Example wrong_scalar_intended_nonce_iff_Z : forall x r T m t2 : Z,
  let ad := make_pubZ x r T m in
  let R := fst ad in let X := pubZ x in
  sig_validZ X m (R + T) (snd ad + t2) <-> t2 * 1 = T.
Proof. exact (wrong_scalar_intended_nonce_iff Z Z.add Z.mul Z 0 Z.add Z.opp Z_padd_comm Z_padd_assoc Z_padd_0_l Z_padd_opp Z.mul Z_act_add_l Z_act_mul 1 Z Zchal). Qed.

(* the injectivity premises of the corollary are satisfiable: here they hold whenever x <> 0 *)
Example wrong_scalar_injective_Z : forall x r t m t2 : Z, x <> 0 ->
  let ad := make_pubZ x r (t * 1) m in
  let dec := decryptZ t2 (fst ad) (snd ad) in
  sig_validZ (pubZ x) m (fst dec) (snd dec) -> t2 = t.
Proof.
  intros x r t m t2 Hx.
  apply (wrong_scalar_injective Z Z.add Z.mul Z 0 Z.add Z.opp Z_padd_comm Z_padd_assoc Z_padd_0_l Z_padd_opp Z.mul Z_act_add_l Z_act_mul 1 Z Zchal).
  - intros a b H. unfold pub in H. apply Z.mul_reg_r in H; [exact H | lia].
  - intros a b H. lia.
  - intros P Q H. unfold Zchal in H. lia.
Qed.

Example private_variant_check_iff_Z : forall x r t m : Z,
  let R := r * 1 in let T := t * 1 in let X := pubZ x in
  let sa' := snd (make_prvZ x r t m) in
  make_prvZ x r t m = (T, R, sa') /\
  (checkZ X T m R sa' <-> T + Zchal R X m * X = Zchal (R + T) X m * X).
Proof. exact (private_variant_check_iff Z 0 1 Z.add Z.mul Z.sub Z.opp Z_scalar_ring Z 0 Z.add Z.opp Z_padd_comm Z_padd_assoc Z_padd_0_l Z_padd_opp Z.mul Z_act_add_l Z_act_mul 1 Z Zchal). Qed.

Example private_variant_decrypt_iff_Z : forall x r t m : Z,
  let R := r * 1 in let T := t * 1 in let X := pubZ x in
  let sa' := snd (make_prvZ x r t m) in
  let dec := decryptZ t R sa' in
  sig_validZ X m (fst dec) (snd dec) <-> T + Zchal R X m * X = Zchal (R + T) X m * X.
Proof. exact (private_variant_decrypt_iff Z 0 1 Z.add Z.mul Z.sub Z.opp Z_scalar_ring Z 0 Z.add Z.opp Z_padd_comm Z_padd_assoc Z_padd_0_l Z_padd_opp Z.mul Z_act_add_l Z_act_mul 1 Z Zchal). Qed.

(* concrete numbers: x = 2, r = 1, t = 1, m = 0.  The PUBLIC adapter passes the check and
   decrypts to a valid signature; the PRIVATE variant's adapter fails the check and its
   decryption is not a valid signature. *)
Example public_variant_concrete_Z :
  let ad := make_pubZ 2 1 (1 * 1) 0 in
  let dec := decryptZ 1 (fst ad) (snd ad) in
  ad = (1, 13) /\ checkZ (pubZ 2) 1 0 (fst ad) (snd ad) /\
  dec = (2, 14) /\ sig_validZ (pubZ 2) 0 (fst dec) (snd dec).
Proof. vm_compute. repeat split. Qed.

Example private_variant_refuted_Z :
  make_prvZ 2 1 1 0 = (1, 1, 12) /\
  ~ checkZ (pubZ 2) 1 0 1 12 /\
  decryptZ 1 1 12 = (2, 13) /\
  ~ sig_validZ (pubZ 2) 0 2 13.
Proof.
  split; [reflexivity|]. split; [vm_compute; discriminate|].
  split; [reflexivity|]. vm_compute; discriminate.
Qed.

(* C18 *)
Example amhl_points_Z : forall (ys : list Z) (i : nat), (i < length ys)%nat ->
  nth i (Y_listZ ys) 0 = prefix_sumZ ys i * 1.
Proof. exact (amhl_points Z 0 Z.add Z 0 Z.add Z.mul Z_act_add_l 1). Qed.

Example amhl_check_setup_Z : forall (ys : list Z) (i : nat), (0 < i < length ys)%nat ->
  check_setup Z.add Z.mul 1 (nth (i - 1) (Y_listZ ys) 0) (nth i ys 0) (nth i (Y_listZ ys) 0).
Proof. exact (amhl_check_setup Z 0 Z.add Z 0 Z.add Z.mul Z_act_add_l 1). Qed.

Example amhl_final_key_Z : forall ys : list Z, ys <> [] ->
  verify_lock_keyZ (last (Y_listZ ys) 0) (totalZ ys).
Proof. exact (amhl_final_key Z 0 Z.add Z 0 Z.add Z.mul Z_act_add_l 1). Qed.

Example amhl_release_Z : forall (ys : list Z) (i : nat), (0 < i < length ys)%nat ->
  release Z.sub (prefix_sumZ ys i) (nth i ys 0) = prefix_sumZ ys (i - 1) /\
  verify_lock_keyZ (nth (i - 1) (Y_listZ ys) 0) (release Z.sub (prefix_sumZ ys i) (nth i ys 0)).
Proof. exact (amhl_release Z 0 1 Z.add Z.mul Z.sub Z.opp Z_scalar_ring Z 0 Z.add Z.mul Z_act_add_l 1). Qed.

Example amhl_cascade_Z : forall (ys : list Z) (i : nat), (0 < i < length ys)%nat ->
  forall x r m x' r' m' : Z,
  let Ti := nth i (Y_listZ ys) 0 in
  let Tl := nth (i - 1) (Y_listZ ys) 0 in
  let ad_i := make_pubZ x r Ti m in
  let dec_i := decryptZ (prefix_sumZ ys i) (fst ad_i) (snd ad_i) in
  let k := release_left Z.sub (snd ad_i) (snd dec_i) (nth i ys 0) in
  let ad_l := make_pubZ x' r' Tl m' in
  let dec_l := decryptZ k (fst ad_l) (snd ad_l) in
  sig_validZ (pubZ x) m (fst dec_i) (snd dec_i) /\
  k = prefix_sumZ ys (i - 1) /\
  verify_lock_keyZ Tl k /\
  sig_validZ (pubZ x') m' (fst dec_l) (snd dec_l).
Proof. exact (amhl_cascade Z 0 1 Z.add Z.mul Z.sub Z.opp Z_scalar_ring Z 0 Z.add Z_padd_comm Z_padd_assoc Z.mul Z_act_add_l Z_act_mul 1 Z Zchal). Qed.

Example amhl_wrong_hop_iff_Z : forall (ys : list Z) (i : nat) (k : Z), (i < length ys)%nat ->
  verify_lock_keyZ (nth i (Y_listZ ys) 0) k <-> k * 1 = prefix_sumZ ys i * 1.
Proof. exact (amhl_wrong_hop_iff Z 0 Z.add Z 0 Z.add Z.mul Z_act_add_l 1). Qed.

(* a concrete three-hop chain, computed *)
Example amhl_concrete_Z :
  Y_listZ [3; 4; 5] = [3; 7; 12] /\ totalZ [3; 4; 5] = 12 /\
  release Z.sub (prefix_sumZ [3; 4; 5] 2) 5 = 7 /\ verify_lock_keyZ 7 7 /\ ~ verify_lock_keyZ 7 12.
Proof. vm_compute. repeat split. discriminate. Qed.
