(* C17 link: the adapter-signature INSTRUCTIONS of the VM model (OP_MAKE_ADAPTER_SIG_PUBLIC,
   OP_CHECK_ADAPTER_SIG, OP_DECRYPT_ADAPTER_SIG, OP_MAKE_ADAPTER_SIG_PRIVATE in model/Ops.v) compute
   exactly the abstract functions of Algebra.v (make_adapter_public, check_adapter, decrypt_adapter,
   make_adapter_private) whenever the oracle is interpreted by an algebraic structure through byte
   encodings (the H-grp premises, Section variables/hypotheses below).  Hence the algebraic theorems
   of Algebra.v (adapter_checks, adapter_decrypts, adapter_recovers, private_variant_check_iff) are
   theorems about what the instructions push.

   Every instruction theorem is an exact equation  interp .. OP_x fr st = Done tt fr st'  with st'
   written out: the stack exactly, and the cache as the initial cache updated, for the enabled
   tape flags, by [cache_set] under bytes keys ([cset]).  Weaker "there is a final state" forms
   ([frame_ok]: tapes, definitions, log, random counter and every str-keyed cache entry unchanged)
   follow as corollaries. *)
From Coq Require Import ZArith List Bool Lia Ring Ring_theory.
From Coq.Strings Require Import Byte String.
From TS Require Import Bytes Codec State Prog Ops Interp StateLemmas InterpLemmas NopSpec StackLemmas
  ConfigSpec TaprootSpec Algebra.
Import ListNotations.
Local Open Scope nat_scope.

(* ---------------------------------------------------------------------- *)
(* pure pieces of the model                                                *)
(* ---------------------------------------------------------------------- *)

Definition boolb (b : bool) : bytes := if b then [xff] else [x00].

(* clamp_scalar(s, from_private_key=True) on an at-least-32-byte string, as the model computes it *)
Definition clamp_key (s : bytes) : bytes :=
  set_nth_byte
    (set_nth_byte (set_nth_byte (firstn 32 s) 0 (fun b => z2b (Z.land (b2z b) 248))) 31
                  (fun b => z2b (Z.lor (b2z b) 64)))
    31 (fun b => z2b (Z.land (b2z b) 127)).

(* derive_key_from_seed: clamp (sha512(seed)[:32]) *)
Definition key_bytes (h512 : bytes -> bytes) (seed : bytes) : bytes := clamp_key (firstn 32 (h512 seed)).

(* a flag-guarded cache write under a bytes key *)
Definition cset (b : bool) (k v : bytes) (c : cache) : cache :=
  if b then cache_set c (KBytes k) (VOne (ABytes v)) else c.

(* what an adapter instruction leaves alone *)
Definition frame_ok (st st' : state) : Prop :=
  st_tapes st' = st_tapes st /\ st_defs st' = st_defs st /\ st_log st' = st_log st /\
  st_rand st' = st_rand st /\
  forall k, cache_get (st_cache st') (KStr k) = cache_get (st_cache st) (KStr k).

Lemma cset_str b k v c k' : cache_get (cset b k v c) (KStr k') = cache_get c (KStr k').
Proof. destruct b; cbn [cset]; [apply cache_get_set_other; reflexivity | reflexivity]. Qed.

Lemma frame_ok_fin st c s :
  (forall k, cache_get c (KStr k) = cache_get (st_cache st) (KStr k)) ->
  frame_ok st (with_stack (with_cache st c) s).
Proof. intro H. repeat split. exact H. Qed.

(* ---------------------------------------------------------------------- *)
(* generic single steps                                                    *)
(* ---------------------------------------------------------------------- *)

Section Steps.
Variable orc : oracle.
Variable cfg : config.
Variable run : nat -> state -> outcome unit.
Notation interp := (interp orc cfg run).

Lemma bind_done A B (p : prog A) (f : A -> prog B) a fr st fr' st' :
  interp p fr st = Done a fr' st' -> interp (bind p f) fr st = interp (f a) fr' st'.
Proof. intro H. rewrite interp_bind, H. reflexivity. Qed.

Lemma config_ok fr st : interp config_ fr st = Done cfg fr st.
Proof. reflexivity. Qed.

Lemma get_ok x s fr st : st_stack st = x :: s -> interp get fr st = Done x fr (with_stack st s).
Proof. intro H. unfold get, act. cbn [interp step]. rewrite H. reflexivity. Qed.

Lemma put_ok b s fr st :
  st_stack st = s -> List.length b <= c_max_item_size cfg -> List.length s < c_max_items cfg ->
  interp (put b) fr st = Done tt fr (with_stack st (b :: s)).
Proof. intros H H1 H2. unfold put, act. rewrite (put_step orc cfg run _ _ fr st b s H H1 H2). reflexivity. Qed.

Lemma prim1_ok p args r fr st : orc p args = OOk [r] -> interp (prim1 p args) fr st = Done r fr st.
Proof. intro H. unfold prim1, prim_list, act. cbn [bind interp step]. rewrite H. reflexivity. Qed.

Lemma clamp_false_ok h fr st :
  List.length h = 32 -> interp (clamp_scalar h false) fr st = Done (clamp32 h) fr st.
Proof.
  intro H. unfold clamp_scalar, blen. rewrite H. change (Z.of_nat 32 <? 32)%Z with false. reflexivity.
Qed.

Lemma clamp_true_ok h fr st :
  List.length h = 32 -> interp (clamp_scalar h true) fr st = Done (clamp_key h) fr st.
Proof.
  intro H. unfold clamp_scalar, blen. rewrite H. change (Z.of_nat 32 <? 32)%Z with false. reflexivity.
Qed.

Lemma when_cache_ok b k v fr st :
  interp (when b (cache_raw k v)) fr st = Done tt fr (with_cache st (cset b k v (st_cache st))).
Proof.
  destruct b; unfold when, cache_raw, act, cset; cbn [interp step]; [reflexivity|].
  destruct st; reflexivity.
Qed.

End Steps.

(* ---------------------------------------------------------------------- *)
(* the link                                                                *)
(* ---------------------------------------------------------------------- *)

Section Link.
  (* --- the algebraic structure: the interface of Algebra.v (Section Alg).  Only the part of that
     interface consumed by the Algebra.v theorems used below is listed (psub_def, act_add_r and act_1
     are not used by them) --- *)
  Variable scalar : Type.
  Variables (s0 s1 : scalar) (sadd smul ssub : scalar -> scalar -> scalar) (sopp : scalar -> scalar).
  Hypothesis scalar_ring : ring_theory s0 s1 sadd smul ssub sopp (@eq scalar).
  Variable point : Type.
  Variables (p0 : point) (padd : point -> point -> point) (popp : point -> point).
  Hypothesis padd_comm : forall P Q, padd P Q = padd Q P.
  Hypothesis padd_assoc : forall P Q R, padd P (padd Q R) = padd (padd P Q) R.
  Hypothesis padd_0_l : forall P, padd p0 P = P.
  Hypothesis padd_opp : forall P, padd P (popp P) = p0.
  Variable sact : scalar -> point -> point.          (* [act] of Algebra.v *)
  Hypothesis act_add_l : forall a b P, sact (sadd a b) P = padd (sact a P) (sact b P).
  Hypothesis act_mul : forall a b P, sact (smul a b) P = sact a (sact b P).
  Variable G : point.

  (* --- encodings --- *)
  Variables (es : scalar -> bytes) (ep : point -> bytes).
  Hypothesis len_es : forall a, List.length (es a) = 32.
  Hypothesis len_ep : forall P, List.length (ep P) = 32.
  Hypothesis ep_inj : forall P Q, ep P = ep Q -> P = Q.
  Hypothesis clamp_es : forall a, clamp32 (es a) = es a.     (* encoded scalars have bit 255 clear *)

  (* --- hashing --- *)
  Variable h512 : bytes -> bytes.
  Hypothesis len_h512 : forall b, List.length (h512 b) = 64.
  Variable red : bytes -> scalar.

  (* --- the oracle computes in the structure, on encodings --- *)
  Variable orc : oracle.
  Hypothesis O_sha : forall b, orc PSha512 [b] = OOk [h512 b].
  Hypothesis O_red : forall h, orc PReduce [h] = OOk [es (red h)].
  Hypothesis red_es : forall a, red (es a ++ repeat x00 32) = a.   (* encoded scalars are canonical: reducing one gives it back *)
  Hypothesis O_base : forall a, orc PBaseMult [es a] = OOk [ep (sact a G)].
  Hypothesis O_mult : forall a P, orc PMult [es a; ep P] = OOk [ep (sact a P)].
  Hypothesis O_padd : forall P Q, orc PPointAdd [ep P; ep Q] = OOk [ep (padd P Q)].
  Hypothesis O_sadd : forall a b, orc PScalarAdd [es a; es b] = OOk [es (sadd a b)].
  Hypothesis O_smul : forall a b, orc PScalarMul [es a; es b] = OOk [es (smul a b)].
  Hypothesis O_valid : forall P, orc PValidPoint [ep P] = OOk [[x01]].

  Variable cfg : config.
  Variable run : nat -> state -> outcome unit.
  Notation interp := (interp orc cfg run).

  (* --- the Fiat-Shamir challenge and the nonces, as the model computes them --- *)
  (* c(R', X, m) = clamp (H_small [R'; X; m]) *)
  Definition chal (RT X : point) (m : bytes) : scalar := red (h512 (ep RT ++ ep X ++ m)).
  (* OP_MAKE_ADAPTER_SIG_PUBLIC:  r = clamp (H_small [H_big [sha512(seed)[32:]; m]]) *)
  Definition nonce_pub (seed m : bytes) : scalar := red (h512 (h512 (skipn 32 (h512 seed) ++ m))).
  (* OP_MAKE_ADAPTER_SIG_PRIVATE: r = clamp (H_small [sha512(seed)[32:]; m]) *)
  Definition nonce_prv (seed m : bytes) : scalar := red (h512 (skipn 32 (h512 seed) ++ m)).

  (* Algebra.v at this structure *)
  Notation pubA := (pub sact G).
  Notation sig_validA := (sig_valid padd sact G chal).
  Notation make_pubA := (make_adapter_public sadd smul padd sact G chal).
  Notation make_prvA := (make_adapter_private sadd smul sact G chal).
  Notation checkA := (check_adapter padd sact G chal).
  Notation decryptA := (decrypt_adapter sadd padd sact G).

  (* ------------------------------------------------------------------ *)
  (* helper programs                                                     *)
  (* ------------------------------------------------------------------ *)

  Lemma H_big1_ok a fr st : interp (H_big [a]) fr st = Done (h512 a) fr st.
  Proof. unfold H_big. cbn [List.concat]. rewrite app_nil_r. apply prim1_ok, O_sha. Qed.

  Lemma H_big2_ok a b fr st : interp (H_big [a; b]) fr st = Done (h512 (a ++ b)) fr st.
  Proof. unfold H_big. cbn [List.concat]. rewrite app_nil_r. apply prim1_ok, O_sha. Qed.

  Lemma H_small1_ok a fr st : interp (H_small [a]) fr st = Done (es (red (h512 a))) fr st.
  Proof. unfold H_small. erewrite bind_done by apply H_big1_ok. apply prim1_ok, O_red. Qed.

  Lemma H_small2_ok a b fr st : interp (H_small [a; b]) fr st = Done (es (red (h512 (a ++ b)))) fr st.
  Proof. unfold H_small. erewrite bind_done by apply H_big2_ok. apply prim1_ok, O_red. Qed.

  Lemma H_small3_ok a b c fr st :
    interp (H_small [a; b; c]) fr st = Done (es (red (h512 (a ++ b ++ c)))) fr st.
  Proof.
    unfold H_small, H_big. cbn [List.concat]. rewrite app_nil_r.
    erewrite bind_done by apply prim1_ok, O_sha. apply prim1_ok, O_red.
  Qed.

  (* the challenge: H_small then clamp *)
  Lemma chal_ok RT X m A (k : bytes -> prog A) fr st :
    interp (h <- H_small [ep RT; ep X; m] ;; c <- clamp_scalar h false ;; k c) fr st =
    interp (k (es (chal RT X m))) fr st.
  Proof.
    erewrite bind_done by apply H_small3_ok.
    erewrite bind_done by (apply clamp_false_ok, len_es).
    rewrite clamp_es. reflexivity.
  Qed.

  (* derive_key_from_seed returns the bytes [key_bytes seed] *)
  Lemma derive_key_bytes_ok seed fr st :
    interp (derive_key_from_seed seed) fr st = Done (key_bytes h512 seed) fr st.
  Proof.
    unfold derive_key_from_seed. erewrite bind_done by apply H_big1_ok.
    apply clamp_true_ok. rewrite firstn_length, len_h512. reflexivity.
  Qed.

  (* ... hence the encoding of x whenever those bytes are the encoding of x *)
  Lemma derive_key_ok seed x fr st :
    key_bytes h512 seed = es x -> interp (derive_key_from_seed seed) fr st = Done (es x) fr st.
  Proof. intros <-. apply derive_key_bytes_ok. Qed.

  (* The signer's key bytes kb REPRESENT the scalar x: the only two places the instructions use the
     key are a base-point multiplication and the second argument of a scalar multiplication.  (The
     clamped key has bit 254 set, so with libsodium's canonical encodings of reduced scalars it is
     not literally [es x]; [key_repr] covers that case, and [key_repr_es] the literal one.) *)
  Definition key_repr (kb : bytes) (x : scalar) : Prop :=
    orc PBaseMult [kb] = OOk [ep (sact x G)] /\
    forall c, orc PScalarMul [es c; kb] = OOk [es (smul c x)].

  Lemma key_repr_es x : key_repr (es x) x.
  Proof. split; [apply O_base | intro c; apply O_smul]. Qed.

  Lemma key_repr_of_es seed x : key_bytes h512 seed = es x -> key_repr (key_bytes h512 seed) x.
  Proof. intros ->. apply key_repr_es. Qed.

  Lemma derive_point_ok a fr st : interp (derive_point (es a)) fr st = Done (ep (sact a G)) fr st.
  Proof. apply prim1_ok, O_base. Qed.

  Lemma aggregate2_ok P Q fr st :
    interp (aggregate_points [ep P; ep Q]) fr st = Done (ep (padd P Q)) fr st.
  Proof.
    unfold aggregate_points. cbn [check_points sum_with].
    unfold prim_bool, prim1, prim_list, vert, act. cbn [bind].
    rewrite prim_act_step, O_valid. cbn [bind]. change (bytes_to_bool [x01]) with true. cbn [bind].
    rewrite prim_act_step, O_valid. cbn [bind]. change (bytes_to_bool [x01]) with true. cbn [bind].
    rewrite prim_act_step, O_padd. reflexivity.
  Qed.

  (* ------------------------------------------------------------------ *)
  (* 1. OP_MAKE_ADAPTER_SIG_PUBLIC                                       *)
  (* ------------------------------------------------------------------ *)

  Theorem make_public_computes_gen fr st T m seed rest x :
    st_stack st = ep T :: m :: seed :: rest ->
    key_repr (key_bytes h512 seed) x ->
    32 <= c_max_item_size cfg -> List.length rest + 2 <= c_max_items cfg ->
    let r := nonce_pub seed m in
    let ad := make_pubA x r T m in
    interp OP_MAKE_ADAPTER_SIG_PUBLIC fr st =
    Done tt fr
      (with_stack
         (with_cache st
            (cset (flagon cfg 8) (str "sa") (es (snd ad))
            (cset (flagon cfg 6) (str "T") (ep T)
            (cset (flagon cfg 4) (str "R") (ep (fst ad))
            (cset (flagon cfg 3) (str "r") (es r) (st_cache st))))))
         (es (snd ad) :: ep (fst ad) :: rest)).
  Proof.
    intros Hs [HkG Hkm] Hsz Hsp r ad. unfold OP_MAKE_ADAPTER_SIG_PUBLIC.
    erewrite bind_done by apply config_ok.
    erewrite bind_done by (apply get_ok; exact Hs).
    erewrite bind_done by (apply get_ok; reflexivity).
    erewrite bind_done by (apply get_ok; reflexivity).
    erewrite bind_done by apply derive_key_bytes_ok.
    erewrite bind_done by (apply prim1_ok; exact HkG).
    erewrite bind_done by apply H_big1_ok. cbv zeta.
    erewrite bind_done by apply H_big2_ok.
    erewrite bind_done by apply H_small1_ok.
    erewrite bind_done by (apply clamp_false_ok, len_es). rewrite clamp_es.
    erewrite bind_done by apply derive_point_ok.
    erewrite bind_done by apply aggregate2_ok.
    rewrite chal_ok.
    erewrite bind_done by apply prim1_ok, Hkm.
    erewrite bind_done by apply prim1_ok, O_sadd.
    erewrite bind_done by apply when_cache_ok.
    erewrite bind_done by apply when_cache_ok.
    erewrite bind_done by apply when_cache_ok.
    erewrite bind_done by apply when_cache_ok.
    erewrite bind_done by (apply put_ok with (s := rest); [reflexivity | rewrite len_ep; exact Hsz | lia]).
    erewrite put_ok with (s := ep (fst ad) :: rest) by (first [reflexivity | rewrite len_es; exact Hsz | cbn [List.length]; lia]).
    reflexivity.
  Qed.

  (* the same with the key bytes literally the encoding of x *)
  Corollary make_public_computes fr st T m seed rest x :
    st_stack st = ep T :: m :: seed :: rest ->
    key_bytes h512 seed = es x ->
    32 <= c_max_item_size cfg -> List.length rest + 2 <= c_max_items cfg ->
    let r := nonce_pub seed m in
    let ad := make_pubA x r T m in
    interp OP_MAKE_ADAPTER_SIG_PUBLIC fr st =
    Done tt fr
      (with_stack
         (with_cache st
            (cset (flagon cfg 8) (str "sa") (es (snd ad))
            (cset (flagon cfg 6) (str "T") (ep T)
            (cset (flagon cfg 4) (str "R") (ep (fst ad))
            (cset (flagon cfg 3) (str "r") (es r) (st_cache st))))))
         (es (snd ad) :: ep (fst ad) :: rest)).
  Proof.
    intros Hs Hk. apply (make_public_computes_gen fr st T m seed rest x Hs (key_repr_of_es seed x Hk)).
  Qed.

  (* ------------------------------------------------------------------ *)
  (* 2. OP_CHECK_ADAPTER_SIG                                             *)
  (* ------------------------------------------------------------------ *)

  Theorem check_computes fr st X T m R sa rest :
    st_stack st = ep X :: ep T :: m :: ep R :: es sa :: rest ->
    1 <= c_max_item_size cfg -> List.length rest + 1 <= c_max_items cfg ->
    interp OP_CHECK_ADAPTER_SIG fr st =
    Done tt fr
      (with_stack st
         (boolb (bytes_eqb (ep (sact sa G)) (ep (padd R (sact (chal (padd R T) X m) X)))) :: rest)).
  Proof.
    intros Hs Hsz Hsp. unfold OP_CHECK_ADAPTER_SIG.
    erewrite bind_done by (apply get_ok; exact Hs).
    erewrite bind_done by (apply get_ok; reflexivity).
    erewrite bind_done by (apply get_ok; reflexivity).
    erewrite bind_done by (apply get_ok; reflexivity).
    erewrite bind_done by (apply get_ok; reflexivity).
    erewrite bind_done by apply prim1_ok, O_base.
    erewrite bind_done by apply prim1_ok, O_red.
    rewrite red_es.
    erewrite bind_done by apply aggregate2_ok.
    rewrite chal_ok.
    erewrite bind_done by apply prim1_ok, O_mult.
    erewrite bind_done by apply aggregate2_ok.
    unfold put_bool. rewrite (proj2 (bytes_eqb_eq (es sa) (es sa)) eq_refl). cbn [andb].
    fold (boolb (bytes_eqb (ep (sact sa G)) (ep (padd R (sact (chal (padd R T) X m) X))))).
    erewrite put_ok with (s := rest) by (first [reflexivity | (destruct (bytes_eqb _ _); cbn [boolb List.length]; lia) | lia]).
    reflexivity.
  Qed.

  (* the pushed verdict is the truth value of Algebra.v's check_adapter *)
  Lemma check_bool_iff X T m R sa :
    bytes_eqb (ep (sact sa G)) (ep (padd R (sact (chal (padd R T) X m) X))) = true <->
    checkA X T m R sa.
  Proof.
    unfold check_adapter. rewrite bytes_eqb_eq. split; [apply ep_inj | intros ->; reflexivity].
  Qed.

  Corollary check_computes_prop fr st X T m R sa rest :
    st_stack st = ep X :: ep T :: m :: ep R :: es sa :: rest ->
    1 <= c_max_item_size cfg -> List.length rest + 1 <= c_max_items cfg ->
    (checkA X T m R sa ->
     interp OP_CHECK_ADAPTER_SIG fr st = Done tt fr (with_stack st ([xff] :: rest))) /\
    (~ checkA X T m R sa ->
     interp OP_CHECK_ADAPTER_SIG fr st = Done tt fr (with_stack st ([x00] :: rest))).
  Proof.
    intros Hs Hsz Hsp. rewrite (check_computes fr st X T m R sa rest Hs Hsz Hsp).
    destruct (bytes_eqb _ _) eqn:E; split; intro H; try reflexivity.
    - exfalso. apply H. apply check_bool_iff. exact E.
    - apply check_bool_iff in H. congruence.
  Qed.

  (* D22 (fixed in /repo): a byte string sa that is NOT a canonical scalar -- reducing sa || 0^32 does not give sa back:
     bit 255 set, or any value >= L -- is refused whatever the other inputs are, even when sa G equals the right-hand side
     (libsodium's base multiplication ignores bit 255, which is how such an sa used to pass).  [sa], [saG], [r] are
     arbitrary byte strings here, not encodings. *)
  Theorem check_rejects_noncanonical fr st X T m R sa saG r rest :
    st_stack st = ep X :: ep T :: m :: ep R :: sa :: rest ->
    orc PBaseMult [sa] = OOk [saG] ->
    orc PReduce [sa ++ repeat x00 32] = OOk [r] -> r <> sa ->
    1 <= c_max_item_size cfg -> List.length rest + 1 <= c_max_items cfg ->
    interp OP_CHECK_ADAPTER_SIG fr st = Done tt fr (with_stack st ([x00] :: rest)).
  Proof.
    intros Hs Hb Hr Hne Hsz Hsp. unfold OP_CHECK_ADAPTER_SIG.
    erewrite bind_done by (apply get_ok; exact Hs).
    erewrite bind_done by (apply get_ok; reflexivity).
    erewrite bind_done by (apply get_ok; reflexivity).
    erewrite bind_done by (apply get_ok; reflexivity).
    erewrite bind_done by (apply get_ok; reflexivity).
    erewrite bind_done by (apply prim1_ok; exact Hb).
    erewrite bind_done by (apply prim1_ok; exact Hr).
    erewrite bind_done by apply aggregate2_ok.
    rewrite chal_ok.
    erewrite bind_done by apply prim1_ok, O_mult.
    erewrite bind_done by apply aggregate2_ok.
    unfold put_bool.
    assert (E : bytes_eqb r sa = false).
    { destruct (bytes_eqb r sa) eqn:B; [|reflexivity]. apply bytes_eqb_eq in B. contradiction. }
    rewrite E. cbn [andb].
    erewrite put_ok with (s := rest) by (first [reflexivity | cbn [List.length]; lia | lia]).
    reflexivity.
  Qed.

  (* ------------------------------------------------------------------ *)
  (* 3. OP_DECRYPT_ADAPTER_SIG                                           *)
  (* ------------------------------------------------------------------ *)

  Theorem decrypt_computes fr st t R sa rest :
    st_stack st = es t :: ep R :: es sa :: rest ->
    32 <= c_max_item_size cfg -> List.length rest + 2 <= c_max_items cfg ->
    let dec := decryptA t R sa in
    interp OP_DECRYPT_ADAPTER_SIG fr st =
    Done tt fr
      (with_stack
         (with_cache st
            (cset (flagon cfg 9) (str "s") (es (snd dec))
            (cset (flagon cfg 7) (str "RT") (ep (fst dec)) (st_cache st))))
         (es (snd dec) :: ep (fst dec) :: rest)).
  Proof.
    intros Hs Hsz Hsp dec. unfold OP_DECRYPT_ADAPTER_SIG.
    erewrite bind_done by apply config_ok.
    erewrite bind_done by (apply get_ok; exact Hs).
    erewrite bind_done by (apply clamp_false_ok, len_es). rewrite clamp_es.
    erewrite bind_done by (apply get_ok; reflexivity).
    erewrite bind_done by (apply get_ok; reflexivity).
    erewrite bind_done by apply derive_point_ok.
    erewrite bind_done by apply aggregate2_ok.
    erewrite bind_done by apply prim1_ok, O_sadd.
    erewrite bind_done by apply when_cache_ok.
    erewrite bind_done by apply when_cache_ok.
    erewrite bind_done by (apply put_ok with (s := rest); [reflexivity | rewrite len_ep; exact Hsz | lia]).
    erewrite put_ok with (s := ep (fst dec) :: rest) by (first [reflexivity | rewrite len_es; exact Hsz | cbn [List.length]; lia]).
    reflexivity.
  Qed.

  (* the stack alone: es (sa + t) :: ep (R + t G) :: rest *)
  Corollary decrypt_computes_stack fr st t R sa rest :
    st_stack st = es t :: ep R :: es sa :: rest ->
    32 <= c_max_item_size cfg -> List.length rest + 2 <= c_max_items cfg ->
    exists st', interp OP_DECRYPT_ADAPTER_SIG fr st = Done tt fr st' /\
      st_stack st' = es (sadd sa t) :: ep (padd R (sact t G)) :: rest /\ frame_ok st st'.
  Proof.
    intros Hs Hsz Hsp. eexists. split; [apply (decrypt_computes fr st t R sa rest Hs Hsz Hsp)|].
    split; [reflexivity|]. apply frame_ok_fin. intro k. rewrite !cset_str. reflexivity.
  Qed.

  Corollary make_public_computes_stack fr st T m seed rest x :
    st_stack st = ep T :: m :: seed :: rest ->
    key_repr (key_bytes h512 seed) x ->
    32 <= c_max_item_size cfg -> List.length rest + 2 <= c_max_items cfg ->
    let ad := make_pubA x (nonce_pub seed m) T m in
    exists st', interp OP_MAKE_ADAPTER_SIG_PUBLIC fr st = Done tt fr st' /\
      st_stack st' = es (snd ad) :: ep (fst ad) :: rest /\ frame_ok st st'.
  Proof.
    intros Hs Hk Hsz Hsp ad. eexists.
    split; [apply (make_public_computes_gen fr st T m seed rest x Hs Hk Hsz Hsp)|].
    split; [reflexivity|]. apply frame_ok_fin. intro k. rewrite !cset_str. reflexivity.
  Qed.

  (* ------------------------------------------------------------------ *)
  (* 4. end to end: Algebra.v's theorems as statements about the         *)
  (*    instructions                                                     *)
  (* ------------------------------------------------------------------ *)

  (* 4a (adapter_checks).  The two items (sab on top of Rb) that OP_MAKE_ADAPTER_SIG_PUBLIC leaves on
     the stack make OP_CHECK_ADAPTER_SIG push xff, for the signer's public point X = x G, the same
     T and the same m -- in every later state whose stack holds them in the order the check pops. *)
  Theorem adapter_instr_checks fr st T m seed rest x :
    st_stack st = ep T :: m :: seed :: rest ->
    key_repr (key_bytes h512 seed) x ->
    32 <= c_max_item_size cfg -> List.length rest + 2 <= c_max_items cfg ->
    exists st1 sab Rb,
      interp OP_MAKE_ADAPTER_SIG_PUBLIC fr st = Done tt fr st1 /\
      st_stack st1 = sab :: Rb :: rest /\ frame_ok st st1 /\
      forall fr2 st2 rest2,
        st_stack st2 = ep (pubA x) :: ep T :: m :: Rb :: sab :: rest2 ->
        List.length rest2 + 1 <= c_max_items cfg ->
        interp OP_CHECK_ADAPTER_SIG fr2 st2 = Done tt fr2 (with_stack st2 ([xff] :: rest2)).
  Proof.
    intros Hs Hk Hsz Hsp.
    destruct (make_public_computes_stack fr st T m seed rest x Hs Hk Hsz Hsp) as [st1 [E1 [E2 E3]]].
    exists st1. do 2 eexists. split; [exact E1|]. split; [exact E2|]. split; [exact E3|].
    intros fr2 st2 rest2 Hs2 Hsp2.
    apply (check_computes_prop fr2 st2 _ _ _ _ _ rest2 Hs2); [lia | exact Hsp2 |].
    apply (adapter_checks scalar sadd smul point padd sact act_add_l act_mul G bytes chal).
  Qed.

  (* 4b (adapter_decrypts, adapter_recovers).  If T = t G, OP_DECRYPT_ADAPTER_SIG applied to t and the
     two items made by OP_MAKE_ADAPTER_SIG_PUBLIC leaves es s on top of ep R' with (R', s) an ordinary
     valid signature of m under X = x G; and s - sa = t for the adapter scalar sa (sab = es sa). *)
  Theorem adapter_instr_decrypts fr st t m seed rest x :
    st_stack st = ep (sact t G) :: m :: seed :: rest ->
    key_repr (key_bytes h512 seed) x ->
    32 <= c_max_item_size cfg -> List.length rest + 2 <= c_max_items cfg ->
    exists st1 sa R,
      interp OP_MAKE_ADAPTER_SIG_PUBLIC fr st = Done tt fr st1 /\
      st_stack st1 = es sa :: ep R :: rest /\ frame_ok st st1 /\
      forall fr3 st3 rest3,
        st_stack st3 = es t :: ep R :: es sa :: rest3 ->
        List.length rest3 + 2 <= c_max_items cfg ->
        exists st4 s R',
          interp OP_DECRYPT_ADAPTER_SIG fr3 st3 = Done tt fr3 st4 /\
          st_stack st4 = es s :: ep R' :: rest3 /\ frame_ok st3 st4 /\
          sig_validA (pubA x) m R' s /\
          recover ssub s sa = t.
  Proof.
    intros Hs Hk Hsz Hsp.
    destruct (make_public_computes_stack fr st (sact t G) m seed rest x Hs Hk Hsz Hsp) as [st1 [E1 [E2 E3]]].
    exists st1. do 2 eexists. split; [exact E1|]. split; [exact E2|]. split; [exact E3|].
    intros fr3 st3 rest3 Hs3 Hsp3.
    destruct (decrypt_computes_stack fr3 st3 _ _ _ rest3 Hs3 Hsz Hsp3) as [st4 [F1 [F2 F3]]].
    exists st4. do 2 eexists. split; [exact F1|]. split; [exact F2|]. split; [exact F3|]. split.
    - apply (adapter_decrypts scalar sadd smul point padd padd_comm padd_assoc sact act_add_l act_mul
               G bytes chal x (nonce_pub seed m) t m).
    - apply (adapter_recovers scalar s0 s1 sadd smul ssub sopp scalar_ring point padd sact G bytes chal
               x (nonce_pub seed m) t m).
  Qed.

  (* ------------------------------------------------------------------ *)
  (* 5. OP_MAKE_ADAPTER_SIG_PRIVATE (known finding D15)                  *)
  (* ------------------------------------------------------------------ *)

  Theorem make_private_computes fr st seed t m rest x :
    st_stack st = seed :: es t :: m :: rest ->
    key_repr (key_bytes h512 seed) x ->
    32 <= c_max_item_size cfg -> List.length rest + 3 <= c_max_items cfg ->
    let r := nonce_prv seed m in
    let ad := make_prvA x r t m in
    let Tp := fst (fst ad) in let Rp := snd (fst ad) in let sa' := snd ad in
    interp OP_MAKE_ADAPTER_SIG_PRIVATE fr st =
    Done tt fr
      (with_stack
         (with_cache st
            (cset (flagon cfg 8) (str "sa") (es sa')
            (cset (flagon cfg 6) (str "T") (ep Tp)
            (cset (flagon cfg 5) (str "t") (es t)
            (cset (flagon cfg 4) (str "R") (ep Rp) (st_cache st))))))
         (es sa' :: ep Rp :: ep Tp :: rest)).
  Proof.
    intros Hs [HkG Hkm] Hsz Hsp r ad Tp Rp sa'. unfold OP_MAKE_ADAPTER_SIG_PRIVATE.
    erewrite bind_done by apply config_ok.
    erewrite bind_done by (apply get_ok; exact Hs).
    erewrite bind_done by (apply get_ok; reflexivity).
    erewrite bind_done by (apply clamp_false_ok, len_es). rewrite clamp_es.
    erewrite bind_done by (apply get_ok; reflexivity).
    erewrite bind_done by apply derive_key_bytes_ok.
    erewrite bind_done by (apply prim1_ok; exact HkG).
    erewrite bind_done by apply derive_point_ok.
    erewrite bind_done by apply H_big1_ok. cbv zeta.
    erewrite bind_done by apply H_small2_ok.
    erewrite bind_done by (apply clamp_false_ok, len_es). rewrite clamp_es.
    erewrite bind_done by apply derive_point_ok.
    rewrite chal_ok.
    erewrite bind_done by apply prim1_ok, O_sadd.
    erewrite bind_done by apply prim1_ok, Hkm.
    erewrite bind_done by apply prim1_ok, O_sadd.
    erewrite bind_done by apply when_cache_ok.
    erewrite bind_done by apply when_cache_ok.
    erewrite bind_done by apply when_cache_ok.
    erewrite bind_done by apply when_cache_ok.
    erewrite bind_done by (apply put_ok with (s := rest); [reflexivity | rewrite len_ep; exact Hsz | lia]).
    erewrite bind_done by (apply put_ok with (s := ep Tp :: rest); [reflexivity | rewrite len_ep; exact Hsz | cbn [List.length]; lia]).
    erewrite put_ok with (s := ep Rp :: ep Tp :: rest) by (first [reflexivity | rewrite len_es; exact Hsz | cbn [List.length]; lia]).
    reflexivity.
  Qed.

  (* D15 as a statement about the instructions: the adapter made by OP_MAKE_ADAPTER_SIG_PRIVATE passes
     OP_CHECK_ADAPTER_SIG (for X = x G and the T it pushed) exactly when
       T + c(R, X, m) X = c(R + T, X, m) X,
     an equation between two unrelated challenge values. *)
  Theorem private_instr_check_iff fr st seed t m rest x :
    st_stack st = seed :: es t :: m :: rest ->
    key_repr (key_bytes h512 seed) x ->
    32 <= c_max_item_size cfg -> List.length rest + 3 <= c_max_items cfg ->
    let R := sact (nonce_prv seed m) G in let T := sact t G in let X := pubA x in
    exists st1 sab,
      interp OP_MAKE_ADAPTER_SIG_PRIVATE fr st = Done tt fr st1 /\
      st_stack st1 = sab :: ep R :: ep T :: rest /\ frame_ok st st1 /\
      forall fr2 st2 rest2,
        st_stack st2 = ep X :: ep T :: m :: ep R :: sab :: rest2 ->
        List.length rest2 + 1 <= c_max_items cfg ->
        exists v, interp OP_CHECK_ADAPTER_SIG fr2 st2 = Done tt fr2 (with_stack st2 (boolb v :: rest2)) /\
          (v = true <-> padd T (sact (chal R X m) X) = sact (chal (padd R T) X m) X).
  Proof.
    intros Hs Hk Hsz Hsp R T X.
    eexists. eexists.
    split; [apply (make_private_computes fr st seed t m rest x Hs Hk Hsz Hsp)|].
    split; [reflexivity|].
    split; [apply frame_ok_fin; intro k; rewrite !cset_str; reflexivity|].
    intros fr2 st2 rest2 Hs2 Hsp2. cbn [make_adapter_private fst snd] in Hs2.
    eexists. split; [apply (check_computes fr2 st2 _ _ _ _ _ rest2 Hs2); [lia | exact Hsp2]|].
    rewrite check_bool_iff.
    apply (private_variant_check_iff scalar s0 s1 sadd smul ssub sopp scalar_ring point p0 padd popp
             padd_comm padd_assoc padd_0_l padd_opp sact act_add_l act_mul G bytes chal
             x (nonce_prv seed m) t m).
  Qed.

End Link.


(* ---------------------------------------------------------------------- *)
(* Non-vacuity.  The Z model of Algebra.v cannot be used: [ep] must be an  *)
(* injection of the points into 32-byte strings, so the point type is     *)
(* finite.  Instead: scalar = point = the two-element field (bool, xorb,  *)
(* andb), a . P = a && P, G = true, and an oracle that decodes the first  *)
(* byte.  All the Section hypotheses hold in it, and the seed 08 00..00   *)
(* has key bytes [es true].                                               *)
(* ---------------------------------------------------------------------- *)

Definition bes (b : bool) : bytes := (if b then x08 else x00) :: repeat x00 30 ++ [x40].
Definition bep (b : bool) : bytes := (if b then x01 else x00) :: repeat x00 31.
Definition bds (b : bytes) : bool := match b with x :: _ => negb (Byte.eqb x x00) | [] => false end.
Definition bh512 (b : bytes) : bytes := firstn 64 (b ++ repeat x00 64).   (* pad / truncate to 64 *)
Definition bred (h : bytes) : bool := bds h.
Definition borc : oracle := fun p args =>
  match p, args with
  | PSha512, [b] => OOk [bh512 b]
  | PReduce, [h] => OOk [bes (bred h)]
  | PBaseMult, [a] => OOk [bep (bds a && true)]
  | PMult, [a; P] => OOk [bep (bds a && bds P)]
  | PPointAdd, [P; Q] => OOk [bep (xorb (bds P) (bds Q))]
  | PScalarAdd, [a; b] => OOk [bes (xorb (bds a) (bds b))]
  | PScalarMul, [a; b] => OOk [bes (bds a && bds b)]
  | PValidPoint, [_] => OOk [[x01]]
  | _, _ => OErr OtherError
  end.
Definition bseed : bytes := x08 :: repeat x00 31.

Lemma b_padd_comm : forall P Q, xorb P Q = xorb Q P. Proof. intros [] []; reflexivity. Qed.
Lemma b_padd_assoc : forall P Q R, xorb P (xorb Q R) = xorb (xorb P Q) R. Proof. intros [] [] []; reflexivity. Qed.
Lemma b_padd_0_l : forall P, xorb false P = P. Proof. intros []; reflexivity. Qed.
Lemma b_padd_opp : forall P, xorb P P = false. Proof. intros []; reflexivity. Qed.
Lemma b_act_add_l : forall a b P, xorb a b && P = xorb (a && P) (b && P). Proof. intros [] [] []; reflexivity. Qed.
Lemma b_act_mul : forall a b P, a && b && P = a && (b && P). Proof. intros [] [] []; reflexivity. Qed.
Lemma b_len_es : forall a, List.length (bes a) = 32. Proof. intros []; reflexivity. Qed.
Lemma b_len_ep : forall P, List.length (bep P) = 32. Proof. intros []; reflexivity. Qed.
Lemma b_ep_inj : forall P Q, bep P = bep Q -> P = Q. Proof. intros [] [] H; try reflexivity; discriminate H. Qed.
Lemma b_clamp_es : forall a, clamp32 (bes a) = bes a. Proof. intros []; reflexivity. Qed.
Lemma b_len_h512 : forall b, List.length (bh512 b) = 64.
Proof. intro b. unfold bh512. rewrite firstn_length, app_length, repeat_length. lia. Qed.
Lemma bds_es a : bds (bes a) = a. Proof. destruct a; reflexivity. Qed.
Lemma bds_ep P : bds (bep P) = P. Proof. destruct P; reflexivity. Qed.
Lemma b_O_sha : forall b, borc PSha512 [b] = OOk [bh512 b]. Proof. reflexivity. Qed.
Lemma b_O_red : forall h, borc PReduce [h] = OOk [bes (bred h)]. Proof. reflexivity. Qed.
Lemma b_red_es : forall a, bred (bes a ++ repeat x00 32) = a. Proof. intros []; reflexivity. Qed.
Lemma b_O_base : forall a, borc PBaseMult [bes a] = OOk [bep (a && true)].
Proof. intro a. cbn [borc]. rewrite bds_es. reflexivity. Qed.
Lemma b_O_mult : forall a P, borc PMult [bes a; bep P] = OOk [bep (a && P)].
Proof. intros a P. cbn [borc]. rewrite bds_es, bds_ep. reflexivity. Qed.
Lemma b_O_padd : forall P Q, borc PPointAdd [bep P; bep Q] = OOk [bep (xorb P Q)].
Proof. intros P Q. cbn [borc]. rewrite !bds_ep. reflexivity. Qed.
Lemma b_O_sadd : forall a b, borc PScalarAdd [bes a; bes b] = OOk [bes (xorb a b)].
Proof. intros a b. cbn [borc]. rewrite !bds_es. reflexivity. Qed.
Lemma b_O_smul : forall a b, borc PScalarMul [bes a; bes b] = OOk [bes (a && b)].
Proof. intros a b. cbn [borc]. rewrite !bds_es. reflexivity. Qed.
Lemma b_O_valid : forall P, borc PValidPoint [bep P] = OOk [[x01]]. Proof. reflexivity. Qed.
Lemma b_key : key_bytes bh512 bseed = bes true. Proof. vm_compute. reflexivity. Qed.

(* the end-to-end theorems at this model: every Section hypothesis discharged *)
Example bool_adapter_instr_checks cfg run fr st T m rest :=
  adapter_instr_checks bool xorb andb bool xorb andb b_act_add_l b_act_mul true bes bep
    b_len_es b_len_ep b_ep_inj b_clamp_es bh512 b_len_h512 bred borc
    b_O_sha b_O_red b_red_es b_O_base b_O_mult b_O_padd b_O_sadd b_O_valid cfg run fr st T m bseed rest true.

Example bool_adapter_instr_decrypts cfg run fr st t m rest :=
  adapter_instr_decrypts bool false true xorb andb xorb (fun b => b) BoolTheory bool xorb
    b_padd_comm b_padd_assoc andb b_act_add_l b_act_mul true bes bep
    b_len_es b_len_ep b_clamp_es bh512 b_len_h512 bred borc
    b_O_sha b_O_red b_O_base b_O_padd b_O_sadd b_O_valid cfg run fr st t m bseed rest true.

Example bool_private_instr_check_iff cfg run fr st t m rest :=
  private_instr_check_iff bool false true xorb andb xorb (fun b => b) BoolTheory bool false xorb (fun b => b)
    b_padd_comm b_padd_assoc b_padd_0_l b_padd_opp andb b_act_add_l b_act_mul true bes bep
    b_len_es b_len_ep b_ep_inj b_clamp_es bh512 b_len_h512 bred borc
    b_O_sha b_O_red b_red_es b_O_base b_O_mult b_O_padd b_O_sadd b_O_valid cfg run fr st bseed t m rest true.

(* ... and their key premise holds for the seed 08 00..00 with x = true *)
Example bool_key_repr :
  key_repr bool andb bool andb true bes bep borc (key_bytes bh512 bseed) true.
Proof.
  apply (key_repr_of_es bool andb bool andb true bes bep bh512 borc b_O_base b_O_smul). exact b_key.
Qed.

(* a concrete run in the model: signer x = true, tweak t = true (T = ep true), message 01;
   MAKE_ADAPTER_SIG_PUBLIC, then DECRYPT with t, all flags off *)
Definition bcfg : config :=
  {| c_max_items := 1024; c_max_item_size := 1024; c_limit := 64; c_flags := []; c_sigext := [];
     c_ctplugins := []; c_contracts := []; c_now := 0 |}.
Definition bst (s : list bytes) : state :=
  {| st_stack := s; st_cache := []; st_tapes := []; st_defs := []; st_log := []; st_rand := 0 |}.
Definition bfr : frame := {| fr_tid := 0; fr_ptr := 0 |}.
Definition brun : nat -> state -> outcome unit := fun _ _ => OutOfFuel.

Example bool_concrete_run :
  exists sab Rb sb R'b,
    interp borc bcfg brun OP_MAKE_ADAPTER_SIG_PUBLIC bfr (bst [bep true; [x01]; bseed])
      = Done tt bfr (bst [sab; Rb]) /\
    interp borc bcfg brun OP_CHECK_ADAPTER_SIG bfr (bst [bep true; bep true; [x01]; Rb; sab])
      = Done tt bfr (bst [[xff]]) /\
    interp borc bcfg brun OP_DECRYPT_ADAPTER_SIG bfr (bst [bes true; Rb; sab])
      = Done tt bfr (bst [sb; R'b]) /\
    (* the decrypted pair is an ordinary signature: s G = R' + c(R', X, m) X *)
    bds sb && true = xorb (bds R'b) (bred (bh512 (R'b ++ bep true ++ [x01])) && true).
Proof. do 4 eexists. vm_compute. repeat split. Qed.

Print Assumptions make_public_computes_gen.
Print Assumptions make_public_computes.
Print Assumptions check_computes.
Print Assumptions check_computes_prop.
Print Assumptions check_rejects_noncanonical.
Print Assumptions decrypt_computes.
Print Assumptions adapter_instr_checks.
Print Assumptions adapter_instr_decrypts.
Print Assumptions make_private_computes.
Print Assumptions private_instr_check_iff.
Print Assumptions bool_adapter_instr_decrypts.
Print Assumptions bool_concrete_run.
