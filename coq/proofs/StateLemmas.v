(* Basic facts about keys, caches and lists used by the invariant proofs. *)
From Coq Require Import ZArith List Bool Lia.
From Coq.Strings Require Import Byte.
From TS Require Import Bytes State.
Import ListNotations.
Local Open Scope nat_scope.

Lemma byte_eqb_eq (a b : byte) : Byte.eqb a b = true <-> a = b.
Proof.
  split.
  - apply Byte.byte_dec_bl.
  - intros ->. apply Byte.byte_dec_lb. reflexivity.
Qed.

Lemma bytes_eqb_eq (a b : bytes) : bytes_eqb a b = true <-> a = b.
Proof.
  revert b. induction a as [|x a IH]; intros [|y b]; simpl; split; intro H; try congruence; try reflexivity.
  - apply andb_true_iff in H. destruct H as [H1 H2].
    apply byte_eqb_eq in H1. apply IH in H2. congruence.
  - injection H as -> ->. apply andb_true_iff. split; [apply byte_eqb_eq|apply IH]; reflexivity.
Qed.

Lemma bytes_eqb_refl (a : bytes) : bytes_eqb a a = true.
Proof. apply bytes_eqb_eq. reflexivity. Qed.

Lemma bytes_eqb_sym (a b : bytes) : bytes_eqb a b = bytes_eqb b a.
Proof.
  destruct (bytes_eqb a b) eqn:E1, (bytes_eqb b a) eqn:E2; try reflexivity.
  - apply bytes_eqb_eq in E1. subst. rewrite bytes_eqb_refl in E2. discriminate.
  - apply bytes_eqb_eq in E2. subst. rewrite bytes_eqb_refl in E1. discriminate.
Qed.

Lemma ckey_eqb_eq (a b : ckey) : ckey_eqb a b = true <-> a = b.
Proof.
  destruct a, b; simpl; split; intro H; try congruence.
  - apply bytes_eqb_eq in H. congruence.
  - injection H as ->. apply bytes_eqb_refl.
  - apply bytes_eqb_eq in H. congruence.
  - injection H as ->. apply bytes_eqb_refl.
Qed.

Lemma ckey_eqb_refl (a : ckey) : ckey_eqb a a = true.
Proof. apply ckey_eqb_eq. reflexivity. Qed.

Lemma cache_get_set_other (c : cache) (k k' : ckey) (v : cval) :
  ckey_eqb k' k = false -> cache_get (cache_set c k' v) k = cache_get c k.
Proof.
  intro H. induction c as [|[k0 v0] c IH]; simpl.
  - rewrite H. reflexivity.
  - destruct (ckey_eqb k0 k') eqn:E.
    + apply ckey_eqb_eq in E. subst k0. simpl. rewrite H. reflexivity.
    + simpl. destruct (ckey_eqb k0 k); [reflexivity|exact IH].
Qed.

Lemma cache_get_set_same (c : cache) (k : ckey) (v : cval) :
  cache_get (cache_set c k v) k = Some v.
Proof.
  induction c as [|[k0 v0] c IH]; simpl.
  - rewrite ckey_eqb_refl. reflexivity.
  - destruct (ckey_eqb k0 k) eqn:E; simpl.
    + rewrite ckey_eqb_refl. reflexivity.
    + rewrite E. exact IH.
Qed.

Lemma cache_get_del_other (c : cache) (k k' : ckey) :
  ckey_eqb k' k = false -> cache_get (cache_del c k') k = cache_get c k.
Proof.
  intro H. induction c as [|[k0 v0] c IH]; simpl; [reflexivity|].
  destruct (ckey_eqb k0 k') eqn:E.
  - apply ckey_eqb_eq in E. subst k0. rewrite H. exact IH.
  - simpl. destruct (ckey_eqb k0 k); [reflexivity|exact IH].
Qed.

Lemma cache_get_del_same (c : cache) (k : ckey) : cache_get (cache_del c k) k = None.
Proof.
  induction c as [|[k0 v0] c IH]; simpl; [reflexivity|].
  destruct (ckey_eqb k0 k) eqn:E; [exact IH|]. simpl. rewrite E. exact IH.
Qed.

Lemma list_set_length {A} (l : list A) i x : List.length (list_set l i x) = List.length l.
Proof. revert i. induction l as [|h t IH]; intros [|i]; simpl; auto. Qed.

Lemma list_set_Forall {A} (P : A -> Prop) (l : list A) i x :
  Forall P l -> P x -> Forall P (list_set l i x).
Proof.
  intros Hl Hx. revert i. induction Hl as [|h t Hh Ht IH]; intros [|i]; simpl; auto.
Qed.

Lemma nth_Forall {A} (P : A -> Prop) (l : list A) i d : Forall P l -> P d -> P (nth i l d).
Proof.
  intros Hl Hd. revert i. induction Hl as [|h t Hh Ht IH]; intros [|i]; simpl; auto.
Qed.

Lemma nth_list_set_other {A} (l : list A) i j x d : i <> j -> nth j (list_set l i x) d = nth j l d.
Proof.
  revert i j. induction l as [|h t IH]; intros [|i] [|j] H; simpl; auto; try congruence.
Qed.

Lemma nth_app_old {A} (l r : list A) i d : i < List.length l -> nth i (l ++ r) d = nth i l d.
Proof. intro H. apply app_nth1. exact H. Qed.
